#!/usr/bin/env python3
"""Generates MANIFEST.json from the table below (kept in one place so it stays valid)."""
import json

CLAIMED = {
 'C01': dict(
  text="Bounded symbolic execution of the real MIR of eval_expr's operator dispatch down to the BigRat/BigInt wrappers: for each operator (+ - * / mod and or xor << >> ^) the two operands are arbitrary Numbers (value an unbounded SMT Real, unit a symbolic exponent vector); every feasible path is enumerated and z3 decides, for all operand values at once, that the result is the textbook rational (or an error exactly where the mathematics is undefined), never a float, never a panic. Literal notation: the real lexer + from_parts/parse_radix on 35 literal shapes with symbolic digits (separators, fraction, exponent, 0x/0o/0b) against positional notation. Precedence/associativity: the real parse_expr + eval_expr on every sequence of 3 (thorough 4) operands over + - * / | juxtaposition ^ mod, parentheses and unary minus, operand values symbolic, against an independent evaluator written from the manual's rules. sat models are replayed natively (kernel + query text) before being reported.",
  note="Trusted: rustc MIR = source semantics; num-bigint/num-rational arithmetic per their docs (BigInt->Int, BigRational->Real, bit operators uninterpreted); std containers per contract. Bounds: one operator application (inductive over trees only w.r.t. value/unit of operands); pow/shift values for concrete exponents -4..4 (thorough -8..8), gates for symbolic ones; base-unit universe of 3 (thorough 4), exponents within +-2^31. Where the manual is silent (unary minus binds tighter than ^, `*` `/` `mod` share one left-to-right level) the oracle takes the present behaviour as the rule. OUTSIDE: expressions of more than 4 operands, chained `a|b|c`, `mod` of an unparenthesised quotient (z3 undecided), literals longer than 10 characters, Display of results.",
  technique="symbolic execution of rustc MIR + z3 (QF_NIRA), counterexample replay",
  ref="DESIGN.md §5 C01"),
 'C02': dict(
  text="Same harness family as C01, unit side: for arbitrary exponent vectors (symbolic presence + symbolic i64 exponent per base unit, no-zero-entry invariant assumed on inputs and asserted on outputs) z3 decides that products add, quotients subtract, integer powers multiply, roots divide and are refused unless exact, add/sub/mod are refused unless the maps are identical, and no zero exponent is ever stored; function gates (hypot/atan2/trig/log) are decided on the Call arm of eval_expr.",
  note="One inductive step from arbitrary operands satisfying the representation invariant covers expression trees of any depth. Bounds: universe of 3 base units (thorough 4), |exponent| <= 2^31 per operand (larger exponents overflow i64 in dev builds: outside the claim), root degree 2..4. OUTSIDE: the 4000-name database (units enter as arbitrary exponent vectors), rendering.",
  technique="symbolic execution of rustc MIR + z3, BTreeMap as symbolic-presence association list",
  ref="DESIGN.md §5 C02"),
 'C03': dict(
  text="Symbolic execution of the real MIR of eval_query's `Convert(_, Conversion::Expr)` arm together with eval_expr, eval_unit_name, conformance_err and Context::show: source and target are arbitrary Numbers (unbounded Reals, symbolic exponent vectors), targets of the shapes unit, const*unit, unit/const; z3 decides that the conversion succeeds exactly when the dimensionalities are identical, that the reported x satisfies x*t = v, that a zero-valued target is refused, and that a mismatch is a Conformance error whose first suggestion is the reciprocal hint exactly when v*t is dimensionless.",
  note="Stubs: Context::lookup -> harness unit table (arbitrary Number per name), to_parts / numeric_value / unit_to_string / describe_unit / canonicalize -> opaque strings (rendering is C05/C06). OUTSIDE: per-unit exhaustiveness over the database, prefix/plural name resolution (C07), digits/base variants, substance conversions.",
  technique="symbolic execution of rustc MIR + z3",
  ref="DESIGN.md §5 C03"),
 'C10': dict(
  text="Symbolic execution of the real MIR of the Degree arm of eval_expr, the Conversion::Degree arm of eval_query and Degree::name_base_scale, with zero points and absolute scale units read from the loaded database at run time: for every rational x (unbounded Real) z3 decides `x <scale>` = textbook affine map for each of the six scales, `(x s1) -> s2` = composition of textbook maps for all 36 ordered pairs (identity for s1 = s2), refusal of operands that carry a dimension, Conformance for non-temperatures, and refusal of scale operators inside compound targets (eval_unit_name).",
  note="Textbook maps are hard-coded in the checker (oracle). Stubs: Context::lookup serves the real database constants plus one arbitrary operand; rendering stubs as in C03. OUTSIDE: lexer spellings of the scale names (degC, the degree-sign forms ...), parse_juxt precedence.",
  technique="symbolic execution of rustc MIR + z3 (linear real arithmetic)",
  ref="DESIGN.md §5 C10"),
 'C15': dict(
  text="One inductive step of rink_core::eval from an arbitrary context state (flag, previous answer None/Some(symbolic), registry and temporaries as identity tokens) with the parser and evaluator replaced by an arbitrary result (each of the ten QueryReply variants, raw_value present or absent, or an error): z3/path enumeration decides that previous_result becomes the new raw value exactly when the flag is on and the reply is a Number with a raw value, and is otherwise unchanged; registry, temporaries and flag are untouched; the reply is returned as produced. A static pass over the regenerated MIR checks eval_query/eval_expr/eval_unit_name take &Context and that no interior-mutability type occurs in rink-core.",
  note="One step from an arbitrary state covers histories of any length (the invariant is the state itself). Stubs: update_time, TokenIterator::new, peekable, parse_query, Context::eval_query. OUTSIDE: front ends (rink-js, repl), that eval_query itself is pure beyond the &Context / no-interior-mutability facts.",
  technique="symbolic execution of rustc MIR + z3, inductive step; static MIR type scan",
  ref="DESIGN.md §5 C15"),
 'C16': dict(
  text="Symbolic execution of the real MIR of Substance::get (both branches, loop over properties), Mul<&Number> for &Substance and substance_from_formula with its tokenizer: amount, property inputs/outputs (non-zero Reals) and all exponent vectors symbolic, the queried name ranging over property/input/output names of two properties; z3 decides output*(amount/input), its inverse, conformance refusal, no zero exponents, linear scaling under s*k; formulas `H` + up to 11 symbolic characters: molar mass = count*mass, counts above u32::MAX are not formulas, never a panic.",
  note="Assumes non-zero property inputs/outputs (loader-enforced) and pairwise distinct names (the statement's premise). OUTSIDE: to_reply, Substance + Substance, get_in_unit beyond one ratio property and a dimensionless amount, database exhaustiveness, multi-element formulas beyond one symbol + count.",
  technique="symbolic execution of rustc MIR + z3, symbolic digit strings",
  ref="DESIGN.md §5 C16"),
 'C04': dict(
  text="Bounded, per-function panic-reachability decided by the solver: every harness registered for the other properties reports each reachable MIR assert failure (overflow, bounds, division by zero), core::panicking call, unwrap/expect on None/Err, todo!/unreachable and each documented panic of a modelled library function (num-rational division by zero, Ratio::new with zero denominator, BigRat::from(NaN), chrono out-of-range constructors) as a candidate, i.e. `path condition` is satisfiable; plus C04-specific harnesses: eval_expr on float operands with symbolic NaN/infinity flags, NumericParts::from (JSON form) on non-finite floats, the lexer's backslash escapes on up to 10 symbolic characters, every operator inside a conversion target, date-literal matchers and number-literal shapes. Each model is lifted to query text and replayed through rink_core::eval + Display + span tree + serde_json under catch_unwind.",
  note="This is NOT a claim about whole input lines: it covers the functions listed in the evidence on their full symbolic domains. Also counted as a reachable 'panic': BigInt::pow with a concrete exponent above 10^5 for a result that should be small (resource blow-up). OUTSIDE: arbitrary 500-character strings through the recursive-descent parser, stack depth (e.g. 400 nested parentheses), running time of long division (to_digits_impl, e.g. `-> digits 2147483647`), search/factorize/units-for over the database, the REPL/IRC/wasm front ends.",
  technique="symbolic execution of rustc MIR + z3: satisfiability of the path condition at every panic site, native replay",
  ref="DESIGN.md §5 C04"),
 'C05': dict(
  text="Solver-decided on the real MIR. (a) BigRat::to_scientific for bases 2/8/10/16/36 and modes default/scientific/engineering, |value| within [base^-3, base^3] (thorough ^6): the mantissa handed to the digit printer times base^(printed exponent) equals the value exactly, engineering exponents are multiples of 3, the exactness flag is the printer's; (b) BigRat::is_recurring on a remainder n/d with i64 parts: the returned block satisfies digits/(base^period - 1) = n/d, 0 <= digits < base^period, period below the requested bound, no i64 overflow; (c) Numeric::string_repr + the `n` format pattern: `approx.` is shown exactly when the printer did not call the numeral exact, and the fraction shown as the exact companion of an approximate numeral is numer/denom of the value; (d) `x -> base B`: the numerals of the reply are those printed for that base, never the base-10 strings of the generic rendering; (e) the long division BigRat::to_digits_impl by loop-head induction: the real prologue establishes the start state, and one real iteration of the loop from the specified state `n digits produced` (symbolic digits and remainder, the value defined from them; text so far; remembered remainders) either returns a numeral that denotes the value - exact, recurring with the bracket at the right offset and the stated period equal to the block length, or truncated toward zero within one unit of the last digit - or arrives at the loop head in the state `n+1 digits produced`. Counterexamples are replayed by calling BigRat::to_scientific / BigRat::to_string natively and re-reading the numeral with exact fractions.",
  note="Bounds of (e): base 10, intdigits 1..2 (thorough 1..3), at most 8 digits produced before the iteration for the budgets Default and 2 digits, 13 for 12 digits (thorough: 14, budgets Default/0/3/12, every leading-zero count; base 2 up to 10 digits; base 16 up to 5 digits with blocks of at most 4), plus one family of very long states: 1001..1003-digit integer parts (first ~995 digits fixed) with 998..1003 digits produced under the `to digits` budget. Stubs inside (e): BigInt::size_in_base -> true digit count or one more (the arithmetic contract of its f64 formula); BigRat::is_recurring -> its contract (its real code is decided by (b)). The pre-state over-approximates the reachable ones (that no remembered remainder has a short period is used only to shape counterexamples). In (a)-(d) the digit printer is replaced by an arbitrary (exactness flag, text). OUTSIDE: size_in_base itself, other integer parts of more than 3 digits, other long runs, bases other than 2/10/16 in (e), float values.",
  technique="symbolic execution of rustc MIR + z3 (mixed integer/real arithmetic); loop-head induction (base case + one-iteration step) for the digit loop",
  ref="DESIGN.md §5 C05"),
 'C06': dict(
  text="Two solver-decided parts. (a) Number::prettify on the real MIR with the prefix table read from the loaded database: value an unbounded Real, display unit one of kg/kilogram/bit/gram/meter/second to the power 1,2,-1 (thorough 3): on every path (each possible prefix choice, the kg->gram, bit->byte and tonne special cases) z3 decides numeral * prefix^power * rescaling = the original quantity and that the printed unit is prefix + the same base unit. (b) eval_expr and eval_unit_name executed on the same conversion-target tree (10 shapes over Mul, Frac, Neg, Add, Sub, Pow 2, Mod with symbolic constants and unit values): the target's value equals the printed constant times the product of the named units - the invariant Context::show relies on for factor/divfactor.",
  note="Stub: Number::pretty_unit -> arbitrary single display unit (fast_decompose regrouping and long-name mapping are outside), rendering strings opaque. OUTSIDE: fast_decompose, to_parts_digits string assembly, the `u` pattern renderer, numeral text (C05), unit lists and substance replies.",
  technique="symbolic execution of rustc MIR + z3; database constants read at run time",
  ref="DESIGN.md §5 C06"),
 'C07': dict(
  text="Symbolic execution of the real MIR of Context::lookup, Registry::lookup, lookup_with_prefix and lookup_exact on a symbolic database: every stem of a universe of colliding names (s, m, in, ins, min, is, ks ...) may or may not be a base unit and/or a unit with an arbitrary value, three prefixes (k, ki, m) carry arbitrary values, the previous answer is present or not - all 2^14 (thorough 2^18) configurations at once; for 18 query names z3 decides that the result is the first reading in the order ans > exact base unit > exact unit > first matching prefix in list order > the same chain without a trailing s, and None only when no reading exists.",
  note="BTreeMap/BTreeSet are the symbolic-presence association model (std contract). Bounds: the name universe listed in the evidence; prefix list order fixed. OUTSIDE: the loader's Resolver::lookup, the 500k-name exhaustive sweep over the bundled database, alias chains in canonicalize.",
  technique="symbolic execution of rustc MIR + z3 over a symbolic database (presence Booleans)",
  ref="DESIGN.md §5 C07"),
 'C09': dict(
  text="Symbolic execution of the real MIR of `to_list` and `Numeric::div_rem`: the value (unbounded Real), the unit values of a list of 2..4 (thorough 8) entries (arbitrary positive Reals) and all unit exponent vectors are symbolic; z3 decides for every value at once that the parts sum to the value exactly, every part but the last is an integer, each remainder is smaller than the unit just used, all parts share the value's sign, and that non-conformable lists/values are refused (Generic vs Conformance). The automatic duration breakdown is the 6-entry instance with the constants read from the loaded database at run time.",
  note="Stubs (nondeterministic summaries listed in evidence): Context::lookup -> harness unit table, Number::to_parts -> raw value only, canonicalize, conformance_err, Show::show. Assumes unit values > 0. OUTSIDE: parse_unitlist (token scanner), rendering of the parts, list lengths > 8.",
  technique="symbolic execution of rustc MIR + z3 (mixed integer/real arithmetic)",
  ref="DESIGN.md §5 C09"),
 'C14': dict(
  text="Symbolic execution of the real MIR of to_duration, from_duration, the DateTime arms of Value +/- and the Conversion::Offset arm of eval_query (with parse_offset on symbolic digit strings): durations are written (k+e)/10^9 s with k an unbounded Int and 0<=e<1, instants are Ints; z3 decides (d+t)-d = t and (d-t)+t = d for every whole-nanosecond t and every instant in range, truncation toward zero otherwise, refusal (never a panic) outside the documented range, that re-zoning keeps the instant and that offsets beyond +-24 h are refused.",
  note="chrono is replaced by its documented contract (TimeDelta = Int ns within +-i64::MAX ms with its documented panics; DateTime = (instant, zone) within an abstract interval [DT_MIN, DT_MAX] that contains +-10^18 ns; FixedOffset::east_opt is Some iff |s| < 86400). Stubs: eval_expr -> arbitrary DateTime, DateReply::new -> record, Show::show. OUTSIDE: whole date patterns (only single pattern elements and the offset handling of attempt() are encoded), named-zone tables (chrono-tz), calendar correctness of chrono itself.",
  technique="symbolic execution of rustc MIR + z3, library contracts for chrono",
  ref="DESIGN.md §5 C14"),
 'C19': dict(
  text="Kani/CBMC on the real sandbox/src/alloc.rs (included by #[path]): all histories of 2..3 (thorough 4) operations over {alloc, alloc_zeroed, realloc, dealloc} with symbolic sizes, limit and slot choice are decided in one SAT query each against a ghost model (usage = sum of live sizes, success => within limit, refusal => block intact and usage unchanged, peak >= largest usage). Counterexamples are replayed natively from Kani's concrete values.",
  note="Trusted: CBMC's malloc/realloc model stands for System and never fails; unwinding assertions on. Bounds: <= 4 operations, 2 live blocks, limit <= 2^16 (anylimit harnesses: usize::MAX/4), single thread. OUTSIDE: weak memory, >4 operations, more than 2 threads.",
  technique="bounded model checking of compiled Rust (Kani -> CBMC -> SAT)",
  ref="DESIGN.md §4, §5 C19"),
}

# what was added after the first registration (appended to the texts above)
ADD_TEXT = {
 'C01': " Added: the real parse_expr + eval_expr on all operator sequences of 3 (thorough 4) symbolic operands against an independent evaluator written from the manual (precedence, associativity, unary minus), and literal shapes up to the 64-bit boundaries of the radix parsers.",
 'C03': " Added: Context::describe_unit (the text that names the missing factor in a conformance error) on an arbitrary dimensionality over m, s with a table of six named quantities: the description, read back, denotes exactly that dimensionality (with the reciprocal flag). Mixed rational / float operands of - and / (float-valued targets): the float result is the exact result up to rounding, operands not swapped. Conversion-target shapes now include negative powers and a unit name on both sides of a quotient.",
 'C06': " Added: Number::pretty_unit with the real fast_decompose on an arbitrary dimensionality over kg, m, s and a table of derived units (regrouping preserves the dimensionality, whatever candidate the heuristic picks), and Number::unit_to_string (its text read back denotes the dimensionality); Context::show prints the target constant as integer factor / divisor whose quotient is exactly that constant. Number::with_pretty_unit (the value shown by the non-default digit formats): shown value x shown unit = quantity. How unit-list entries are shown: numeral x the printed unit name, looked up again by the real Context::lookup, = part x unit (real to_list, prettify with the database prefix table, canonicalize) - this reports the open known finding F23.",
 'C10': " Added: `(x <s1>) -> <s2>` with an operand that carries an arbitrary unit is refused whatever the pair of scales (also s1 = s2); parse_query takes a scale token as a scale conversion only when it is the whole target (`-> degC / s`, `-> degF m` are compound targets and refused).",
 'C04': " Added: parse_query on the `-> [digits N] [base B] [target]` suffix with symbolic digits (an accepted base lies in 2..=36), to_duration on float seconds (NaN, infinite, finite), the date offset matcher with hours of 1..10 digits, attempt() on out-of-range offsets.",
 'C07': " Added: Context::canonicalize followed by lookup preserves the value (symbolic database with long/short prefix pairs and names that split two ways); lookup(first); lookup(second) on one context equals lookup(second) on an identical fresh context for 9 name pairs with two prefix readings (history independence); static scan: no iteration over a std HashMap/HashSet in rink-core. Counterexamples are replayed on a Registry built natively from the model. Case variants of `ans` (Ans, aNs) are ordinary names. The canonicalize database also holds an alias and quantity entries (in `definitions` only, as the loader files them) whose names have a prefix or plural reading; this found F26 (`mass`).",
 'C09': " Added: the Duration reply of eval_query (automatic year/week/day/hour/minute/second breakdown) through the real arm with database constants. What is shown of a breakdown: DurationReply::to_spans lists exactly the non-zero parts (either sign) and always the seconds. Unit values of a list may be zero (then the list is refused, never divided by); the UnitList reply of eval_query (`v -> hour;minute;second`) obeys the same law; how entries are shown (see C06; open known finding F23: `0.0005 s -> s;ms` prints `500 millimeter`).",
 'C14': " Added: parse_date pattern elements (13 numeric elements, fractional seconds of 1..10 digits, offsets +hhmm / +h..h:mm) on symbolic digit strings; attempt() on the offset pattern with chrono's Parsed conversions by contract: the instant carries exactly the offset written and offsets of 24 h or more are refused; to_duration on float seconds. Date +- duration also through chrono's local-time path by contract (naive_local / from_local_datetime with the zone offset an uninterpreted function of the instant for named zones; the replay adds daylight-saving probes in America/New_York and Europe/Berlin); f64::from_str modelled for fraction digits. attempt() on `hour24:min offset` without a date: the instant has the written time of day in the written offset on the calendar day `now` falls on in that offset (calendar-day contract: day = floor((instant + offset) / 24 h); the replay sets the clock). parse_offset declines hour fields that are not two digits.",
 'C15': " Added: the parsed query handed to the wrapper is an arbitrary Query (every variant and conversion-target kind), and the post-state obligation covers use_humanize as well as the feature flag, registry and temporaries. The same one-step harness through rink_core::one_line.",
 'C16': " Added: counterexamples are replayed on a Substance / symbol table built natively from the model (public fields) and judged with exact fractions. Property outputs may be zero (a formula with a zero count, `H0`): asking for the input of an amount is then refused, never a panic. Substance::get_in_unit (`substance -> c unit`) for one ratio property: shown numeral x printed constant x named units = output / input, with the quantity label of output / input. Substance / Number scales like multiplication by the reciprocal; Substance + Substance never panics and sums amount-weighted properties; eval_expr takes only substance names, element symbols and well-formed formulas for substances (near misses such as `H2s` are not found).",
 'C19': " Second engine (mirsym on the MIR of the same file): one step of each operation from an arbitrary state (usage, peak, limit, sizes, parent failure) and two threads running one operation each with every sequentially consistent interleaving of their atomic operations enumerated as solver-checked decisions; native replay by reaching the state through the public API and by a two-thread stress run (one with a limit both blocks cannot fit under). Layouts of alignment 1, 8 and 16 in the one-step harness (Layout::pad_to_align modelled): usage is accounted in layout.size(), whatever the alignment. The one-step replay includes the parent allocator failing (a 2^60-byte request within the limit).",
}
ADD_NOTE = {
 'C03': " describe_unit is no longer stubbed in its own harness (it still is in the conversion harnesses); assumes a non-dimensionless argument, as its only caller guarantees.",
 'C06': " (fast_decompose and the unit-string assembly are now covered by their own harnesses; the note above predates them.) Still OUTSIDE: the real decomposition table of the database (a six-entry table is used), substance replies.",
 'C04': " tools/panic_surface.py lists the functions with panic sites that no harness enters (17 of 51 reachable from the query entry points at the time of writing: factorize, fast_decompose, expand_aliases, describe_unit, search_impl, parse_unitlist, parse_function, reply Display impls ...): outside the claim.",
 'C07': " (canonicalize is now claimed under the stated well-formedness assumption: every unit has a definition, long and short spellings of a prefix carry the same value.)",
 'C14': " Float seconds: NaN, infinities and finite floats up to 2^52 s; beyond that the rounding of v*1000 decides and the value model of floats cannot settle it.",
 'C19': " Engine M bounds: 2 threads x 1 operation, sequential consistency at atomic-call granularity (no weak-memory reordering), sizes <= 2^62.",
}

NA = {
 'C08': "one concrete 5000-entry database evaluated entry by entry: no free variable for a solver, and load_defs (string-keyed BTreeMaps, Rc graph, recursion) is beyond both engines",
 'C11': "the only free variables are the operators of a small tree, so symbolic execution degenerates into enumerating concrete print->parse runs; Kani did not get through core::fmt::write for a depth-2 tree in 8 min",
 'C12': "input order is erased by std BTreeMap::insert before rink code runs; a container model would assume the property, the real container is out of reach of Kani (probe: no result in 7 min)",
 'C13': "arbitrary text through string scanners, stack depth of a recursive resolver over thousands of definitions, serde on arbitrary JSON: not a bounded value computation either engine can encode",
 'C17': "loops over the concrete database followed by std sort_by/BinaryHeap/dedup; modelling those away removes exactly what could break, executing them is out of reach",
 'C18': "async-std process/pipe/timer/signal state machine; no engine here executes an async runtime with real I/O, and rink-sandbox does not build under the MIR-dump toolchain",
 'C20': "file-system atomicity, HTTP faults and kill -9 crash points are OS behaviour, not code either engine can execute",
}

PENDING = {


}


def main():
    import importlib.util, os
    checks = []
    for pid in sorted(CLAIMED):
        c = CLAIMED[pid]
        checks.append({
            'property_id': pid,
            'quick_cmd': './check %s --tier quick' % pid,
            'thorough_cmd': './check %s --tier thorough' % pid,
            'evidence_file': '/verif/evidence/%s.json' % pid,
            'replay_cmd_template': './check replay {path}',
            'engine': 'kani+mirsym' if pid == 'C19' else 'mirsym',
            'level_claimed': {'category': 'model_checking', 'text': c['text'] + ADD_TEXT.get(pid, ''), 'design_ref': c['ref']},
            'level_note': c['note'] + ADD_NOTE.get(pid, ''),
            'technique': c['technique'],
        })
    na = [{'property_id': k, 'reason': v} for k, v in sorted(NA.items())]
    for k, v in sorted(PENDING.items()):
        if k not in CLAIMED:
            na.append({'property_id': k, 'reason': 'solver-based check ' + v + ' (see DESIGN.md §5); not claimed until its harness exists'})
    na.sort(key=lambda x: x['property_id'])
    m = {
        'version': 1,
        'setup_cmd': 'mkdir -p /verif/.build /verif/evidence /verif/cases && python3-vt -m compileall -q /verif/mirsym /verif/checker /verif/harness',
        'hooks': {'guard': 'rink_verif', 'enable': 'none needed: MIR is dumped from the unmodified crate, alloc.rs is included by #[path], replay uses public API (reserved cfg name, unused)',
                  'baseline_off_cmd': 'cd /repo && cargo test --workspace --no-fail-fast --offline', 'source_commits': [], 'add_only': True},
        'engines': [
            {'name': 'mirsym', 'path': '/verif/mirsym', 'serves_properties': [p for p in sorted(CLAIMED) if p != 'C19'] + ['C19'],
             'kind_free_text': 'own symbolic executor over rustc textual MIR, z3 as decision procedure, native replay of every model'},
            {'name': 'kani', 'path': '/verif/kani_alloc', 'serves_properties': ['C19'], 'kind_free_text': 'Kani 0.68 / CBMC 6.11 bounded model checking of sandbox/src/alloc.rs'},
        ],
        'checks': checks,
        'not_applicable': na,
        'notes': 'Exit codes: 0 held within bounds; 1 VIOLATION (replayed natively); 2 inconclusive (UNMODELLED / UNDECIDED / SPURIOUS / build failure) - never a pass.',
    }
    json.dump(m, open('/verif/MANIFEST.json', 'w'), indent=1)


if __name__ == '__main__':
    main()
