//! Engine K: Kani harnesses over the *real* sandbox allocator source.
//! The file is included from /repo's working tree on every build; nothing is copied.
#![allow(dead_code)]

#[path = "/repo/sandbox/src/alloc.rs"]
mod alloc;

/// the allocator type under test (for the native replay binary)
pub type AllocT = alloc::Alloc;

/// Source of nondeterminism: `kani::any()` under Kani, a recorded byte feed natively (replay of
/// Kani's concrete playback values, in the same call order).
pub mod nd {
    #[cfg(not(kani))]
    use std::cell::RefCell;
    #[cfg(not(kani))]
    use std::collections::VecDeque;

    #[cfg(not(kani))]
    thread_local! { pub static FEED: RefCell<VecDeque<Vec<u8>>> = RefCell::new(VecDeque::new()); }

    #[cfg(kani)]
    pub fn any_u8() -> u8 {
        kani::any()
    }
    #[cfg(kani)]
    pub fn any_usize() -> usize {
        kani::any()
    }
    #[cfg(kani)]
    pub fn assume(c: bool) {
        kani::assume(c)
    }

    #[cfg(not(kani))]
    fn pop() -> Vec<u8> {
        FEED.with(|f| f.borrow_mut().pop_front()).unwrap_or_else(|| panic!("FEED-EXHAUSTED"))
    }
    #[cfg(not(kani))]
    pub fn any_u8() -> u8 {
        pop()[0]
    }
    #[cfg(not(kani))]
    pub fn any_usize() -> usize {
        let b = pop();
        let mut a = [0u8; 8];
        a.copy_from_slice(&b[..8]);
        usize::from_le_bytes(a)
    }
    #[cfg(not(kani))]
    pub fn assume(c: bool) {
        if !c {
            panic!("ASSUME-VIOLATED");
        }
    }
}

#[cfg(kani)]
macro_rules! cover {
    ($c:expr, $m:expr) => {
        kani::cover!($c, $m)
    };
}
#[cfg(not(kani))]
macro_rules! cover {
    ($c:expr, $m:expr) => {
        let _ = $c;
    };
}

pub mod proofs {
    use super::alloc::Alloc;
    use super::nd::{any_u8, any_usize, assume};
    use std::alloc::{GlobalAlloc, Layout};

    const SLOTS: usize = 2;

    #[derive(Clone, Copy)]
    struct Block {
        ptr: *mut u8,
        size: usize,
        tag: u8,
    }

    struct Ghost {
        used: usize,
        peak: usize,
        live: [Option<Block>; SLOTS],
    }

    /// One symbolic operation. Returns false if nothing was done (no free slot etc).
    /// `observe_usage`: after the step, usage is read back through reset_max()+get_max()
    /// (this destroys the peak, so peak harnesses pass false).
    unsafe fn step(a: &Alloc, g: &mut Ghost, limit: usize, max_size: usize, observe_usage: bool) {
        let op: u8 = any_u8();
        assume(op < 4);
        let slot: usize = any_usize();
        assume(slot < SLOTS);
        let size: usize = any_usize();
        assume(size >= 1 && size <= max_size);
        let tag: u8 = any_u8();
        match op {
            0 | 1 => {
                if g.live[slot].is_some() {
                    return;
                }
                let layout = Layout::from_size_align(size, 1).unwrap();
                let p = if op == 0 { a.alloc(layout) } else { a.alloc_zeroed(layout) };
                if !p.is_null() {
                    // success only if resulting usage is within the limit
                    assert!(g.used + size <= limit, "alloc succeeded beyond the limit");
                    if op == 1 {
                        assert!(*p == 0, "alloc_zeroed returned non-zero memory");
                    }
                    *p = tag;
                    g.used += size;
                    if g.used > g.peak {
                        g.peak = g.used;
                    }
                    g.live[slot] = Some(Block { ptr: p, size, tag });
                    cover!(true, "an allocation succeeded");
                } else {
                    cover!(true, "an allocation was refused");
                }
            }
            2 => {
                if let Some(b) = g.live[slot] {
                    let layout = Layout::from_size_align(b.size, 1).unwrap();
                    let p = a.realloc(b.ptr, layout, size);
                    if !p.is_null() {
                        assert!(g.used - b.size + size <= limit, "realloc succeeded beyond the limit");
                        assert!(*p == b.tag, "realloc lost the block contents");
                        g.used = g.used - b.size + size;
                        if g.used > g.peak {
                            g.peak = g.used;
                        }
                        g.live[slot] = Some(Block { ptr: p, size, tag: b.tag });
                        cover!(size > b.size, "a realloc grew a block");
                        cover!(size < b.size, "a realloc shrank a block");
                    } else {
                        // refused: block intact, still live with its old size
                        assert!(*b.ptr == b.tag, "refused realloc damaged the block");
                        cover!(true, "a realloc was refused");
                    }
                }
            }
            _ => {
                if let Some(b) = g.live[slot] {
                    let layout = Layout::from_size_align(b.size, 1).unwrap();
                    assert!(*b.ptr == b.tag, "live block was damaged");
                    a.dealloc(b.ptr, layout);
                    g.used -= b.size;
                    g.live[slot] = None;
                    cover!(true, "a dealloc happened");
                }
            }
        }
        if observe_usage {
            a.reset_max();
            assert!(a.get_max() == g.used, "tracked usage != sum of live allocations");
            g.peak = g.used;
        } else {
            assert!(a.get_max() >= g.peak, "reported peak below largest usage reached");
        }
    }

    unsafe fn finish(a: &Alloc, g: &mut Ghost) {
        // free whatever is live, then usage must be zero
        let mut i = 0;
        while i < SLOTS {
            if let Some(b) = g.live[i] {
                a.dealloc(b.ptr, Layout::from_size_align(b.size, 1).unwrap());
                g.used -= b.size;
                g.live[i] = None;
            }
            i += 1;
        }
        a.reset_max();
        assert!(a.get_max() == g.used, "usage after freeing everything is not zero");
        assert!(g.used == 0);
    }

    fn fresh(limit_cap: usize) -> (Alloc, Ghost, usize) {
        let limit: usize = any_usize();
        assume(limit <= limit_cap);
        (
            Alloc::new(limit),
            Ghost { used: 0, peak: 0, live: [None; SLOTS] },
            limit,
        )
    }

    macro_rules! history {
        ($name:ident, $steps:expr, $observe:expr, $cap:expr) => {
            #[cfg_attr(kani, kani::proof)]
            #[cfg_attr(kani, kani::unwind(6))]
            pub fn $name() {
                let (a, mut g, limit) = fresh($cap);
                unsafe {
                    let mut i = 0;
                    while i < $steps {
                        step(&a, &mut g, limit, 2 * ($cap), $observe);
                        i += 1;
                    }
                    finish(&a, &mut g);
                }
            }
        };
    }

    // usage accounting + limit enforcement + block integrity, usage observed after every step
    history!(usage_2, 2, true, 1 << 16);
    history!(usage_3, 3, true, 1 << 16);
    // peak never below the largest usage reached (no reset inside the history)
    history!(peak_2, 2, false, 1 << 16);
    history!(peak_3, 3, false, 1 << 16);
    // thorough tier
    history!(usage_4, 4, true, 1 << 16);
    history!(peak_4, 4, false, 1 << 16);
    // unconstrained limit: exposes wrap-around of `used + size` if any
    history!(usage_2_anylimit, 2, true, usize::MAX / 4);
    history!(peak_2_anylimit, 2, false, usize::MAX / 4);

    pub fn run_by_name(name: &str) -> bool {
        match name {
            "usage_2" => usage_2(),
            "usage_3" => usage_3(),
            "usage_4" => usage_4(),
            "peak_2" => peak_2(),
            "peak_3" => peak_3(),
            "peak_4" => peak_4(),
            "usage_2_anylimit" => usage_2_anylimit(),
            "peak_2_anylimit" => peak_2_anylimit(),
            "set_limit_applies" => set_limit_applies(),
            _ => return false,
        }
        true
    }

    /// set_limit takes effect for the next operation.
    #[cfg_attr(kani, kani::proof)]
    pub fn set_limit_applies() {
        let (a, _g, _limit) = fresh(1 << 16);
        let nl: usize = any_usize();
        assume(nl <= 1 << 16);
        a.set_limit(nl);
        let size: usize = any_usize();
        assume(size >= 1 && size <= 1 << 17);
        unsafe {
            let p = a.alloc(Layout::from_size_align(size, 1).unwrap());
            assert!(p.is_null() == (size > nl));
            a.reset_max();
            assert!(a.get_max() == if p.is_null() { 0 } else { size });
        }
    }
}
