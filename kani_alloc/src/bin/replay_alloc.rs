//! Native replay of a Kani counterexample: argv = harness name, then one hex string per kani::any() value.
#[cfg(not(kani))]
use std::panic::{catch_unwind, AssertUnwindSafe};

#[cfg(kani)]
fn main() {}

#[cfg(not(kani))]
fn main() {
    let args: Vec<String> = std::env::args().collect();
    let name = &args[1];
    let vals: Vec<Vec<u8>> = args[2..]
        .iter()
        .map(|h| (0..h.len() / 2).map(|i| u8::from_str_radix(&h[2 * i..2 * i + 2], 16).unwrap()).collect())
        .collect();
    kani_alloc::nd::FEED.with(|f| *f.borrow_mut() = vals.into_iter().collect());
    std::panic::set_hook(Box::new(|_| {}));
    let r = catch_unwind(AssertUnwindSafe(|| kani_alloc::proofs::run_by_name(name)));
    match r {
        Ok(true) => println!("NATIVE-PASS"),
        Ok(false) => println!("NATIVE-UNKNOWN-HARNESS"),
        Err(e) => {
            let msg = if let Some(s) = e.downcast_ref::<&str>() {
                s.to_string()
            } else if let Some(s) = e.downcast_ref::<String>() {
                s.clone()
            } else {
                "?".into()
            };
            println!("NATIVE-PANIC {}", msg);
        }
    }
}
