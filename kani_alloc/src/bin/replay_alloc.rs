//! Native replay for C19.
//!   replay_alloc <harness> <hex>...                       Kani counterexample (values of kani::any() in call order)
//!   replay_alloc step <limit> <used> <op> <size> <old>    one operation from a reachable state; prints JSON
//!   replay_alloc stress <op1> <op2> <iters>                two threads hammering one allocator; prints JSON
#[cfg(not(kani))]
use std::panic::{catch_unwind, AssertUnwindSafe};

#[cfg(kani)]
fn main() {}

#[cfg(not(kani))]
fn usage_of(a: &kani_alloc::AllocT) -> (usize, usize) {
    // peak first (reading usage resets the peak)
    let peak = a.get_max();
    a.reset_max();
    (a.get_max(), peak)
}

#[cfg(not(kani))]
fn main() {
    use std::alloc::{GlobalAlloc, Layout};
    let args: Vec<String> = std::env::args().collect();
    if args[1] == "step" {
        let limit: usize = args[2].parse().unwrap();
        let used: usize = args[3].parse().unwrap();
        let op = args[4].as_str();
        let size: usize = args[5].parse().unwrap();
        let old: usize = args[6].parse().unwrap();
        let align: usize = args.get(7).map(|x| x.parse().unwrap()).unwrap_or(1);
        unsafe {
            let a = kani_alloc::AllocT::new(usize::MAX / 2);
            // reach the pre-state: `used` bytes live (one block of `old`/`size` to operate on when needed), peak = used
            let victim = match op {
                "realloc" => old,
                "dealloc" => size,
                _ => 0,
            };
            let mut blocks = vec![];
            if used > victim {
                blocks.push((a.alloc(Layout::from_size_align(used - victim, 1).unwrap()), used - victim));
            }
            let vp = if victim > 0 { a.alloc(Layout::from_size_align(victim, align).unwrap()) } else { std::ptr::null_mut() };
            a.set_limit(limit);
            a.reset_max();
            let (ok, p2) = match op {
                "alloc" => {
                    let p = a.alloc(Layout::from_size_align(size, align).unwrap());
                    (!p.is_null(), p)
                }
                "alloc_zeroed" => {
                    let p = a.alloc_zeroed(Layout::from_size_align(size, align).unwrap());
                    (!p.is_null(), p)
                }
                "realloc" => {
                    let p = a.realloc(vp, Layout::from_size_align(old, align).unwrap(), size);
                    (!p.is_null(), p)
                }
                _ => {
                    a.dealloc(vp, Layout::from_size_align(size, align).unwrap());
                    (true, std::ptr::null_mut())
                }
            };
            let _ = p2;
            let (u2, peak) = usage_of(&a);
            println!("{{\"outcome\":\"ok\",\"success\":{},\"used_after\":{},\"peak_after\":{}}}", ok, u2, peak);
        }
        return;
    }
    if args[1] == "helper" {
        // reach (used, peak, limit), call reset_max / get_max / set_limit, observe through the public API
        let limit: usize = args[2].parse().unwrap();
        let used: usize = args[3].parse().unwrap();
        let peak: usize = args[4].parse().unwrap();
        let which = args[5].as_str();
        let new_limit: usize = args[6].parse().unwrap();
        unsafe {
            let a = kani_alloc::AllocT::new(usize::MAX / 2);
            let l1 = Layout::from_size_align(used.max(1), 1).unwrap();
            let p1 = if used > 0 { a.alloc(l1) } else { std::ptr::null_mut() };
            if peak > used {
                let l2 = Layout::from_size_align(peak - used, 1).unwrap();
                let p2 = a.alloc(l2);
                a.dealloc(p2, l2);
            }
            let _ = p1;
            a.set_limit(limit);
            let mut ret = 0usize;
            match which {
                "reset_max" => a.reset_max(),
                "get_max" => ret = a.get_max(),
                _ => a.set_limit(new_limit),
            }
            let peak_after = a.get_max();
            // probe the limit in force: the largest request that must succeed and the smallest that must fail
            let lim = if which == "set_limit" { new_limit } else { limit };
            let room = lim.saturating_sub(used);
            let mut fits = true;
            if room > 0 && room <= (1 << 24) {
                let l = Layout::from_size_align(room, 1).unwrap();
                let p = a.alloc(l);
                fits = !p.is_null();
                if fits {
                    a.dealloc(p, l);
                }
            }
            let l = Layout::from_size_align(room + 1, 1).unwrap();
            let p = if room < (1 << 24) { a.alloc(l) } else { std::ptr::null_mut() };
            let over_refused = p.is_null();
            if !over_refused {
                a.dealloc(p, l);
            }
            a.reset_max();
            let used_after = a.get_max();
            // the same probe once the live block is gone: a limit that was installed relative to the usage of the
            // moment shows only now
            let mut fits_freed = true;
            let mut over_refused_freed = true;
            if used > 0 {
                a.dealloc(p1, l1);
                if lim > 0 && lim <= (1 << 24) {
                    let l = Layout::from_size_align(lim, 1).unwrap();
                    let p = a.alloc(l);
                    fits_freed = !p.is_null();
                    if fits_freed {
                        a.dealloc(p, l);
                    }
                }
                if lim < (1 << 24) {
                    let l = Layout::from_size_align(lim + 1, 1).unwrap();
                    let p = a.alloc(l);
                    over_refused_freed = p.is_null();
                    if !over_refused_freed {
                        a.dealloc(p, l);
                    }
                }
            }
            println!("{{\"outcome\":\"ok\",\"ret\":{},\"peak_after\":{},\"used_after\":{},\"fits\":{},\"over_refused\":{},\"fits_freed\":{},\"over_refused_freed\":{}}}",
                     ret, peak_after, used_after, fits, over_refused, fits_freed, over_refused_freed);
        }
        return;
    }
    if args[1] == "stress" {
        let op1 = args[2].clone();
        let op2 = args[3].clone();
        let iters: usize = args[4].parse().unwrap();
        let limit: usize = args.get(5).map(|x| x.parse().unwrap()).unwrap_or(1 << 30);
        let a: &'static kani_alloc::AllocT = Box::leak(Box::new(kani_alloc::AllocT::new(limit)));
        // bytes the workers hold right now, counted after a grant and before the release: never more than the
        // allocator's true usage, so seeing it above the limit proves the limit was exceeded
        let live: &'static std::sync::atomic::AtomicUsize = Box::leak(Box::new(std::sync::atomic::AtomicUsize::new(0)));
        let over: &'static std::sync::atomic::AtomicUsize = Box::leak(Box::new(std::sync::atomic::AtomicUsize::new(0)));
        let worker = move |op: String, size: usize| {
            move || unsafe {
                use std::sync::atomic::Ordering::SeqCst;
                let mut bad_peak = 0usize;
                for _ in 0..iters {
                    let l = Layout::from_size_align(size, 1).unwrap();
                    let p = if op == "alloc_zeroed" { a.alloc_zeroed(l) } else { a.alloc(l) };
                    if p.is_null() {
                        continue;
                    }
                    if live.fetch_add(size, SeqCst) + size > limit {
                        over.fetch_add(1, SeqCst);
                    }
                    if a.get_max() < size {
                        bad_peak += 1;
                    }
                    std::hint::spin_loop();
                    live.fetch_sub(size, SeqCst);
                    if op == "realloc" {
                        let q = a.realloc(p, l, size * 2);
                        if q.is_null() {
                            a.dealloc(p, l);
                        } else {
                            a.dealloc(q, Layout::from_size_align(size * 2, 1).unwrap());
                        }
                    } else {
                        a.dealloc(p, l);
                    }
                }
                bad_peak
            }
        };
        let t1 = std::thread::spawn(worker(op1, 24));
        let t2 = std::thread::spawn(worker(op2, 40));
        let b1 = t1.join().unwrap();
        let b2 = t2.join().unwrap();
        let (u, peak) = usage_of(a);
        println!("{{\"outcome\":\"ok\",\"used_at_quiescence\":{},\"peak\":{},\"bad_peak_observations\":{},\"limit\":{},\"over_limit_observations\":{}}}",
                 u, peak, b1 + b2, limit, over.load(std::sync::atomic::Ordering::SeqCst));
        return;
    }
    let name = &args[1];
    let vals: Vec<Vec<u8>> = args[2..]
        .iter()
        .map(|h| (0..h.len() / 2).map(|i| u8::from_str_radix(&h[2 * i..2 * i + 2], 16).unwrap()).collect())
        .collect();
    kani_alloc::nd::FEED.with(|f| *f.borrow_mut() = vals.into_iter().collect());
    std::panic::set_hook(Box::new(|_| {}));
    let r = catch_unwind(AssertUnwindSafe(|| kani_alloc::proofs::run_by_name(name)));
    match r {
        Ok(true) => println!("NATIVE-PASS"),
        Ok(false) => println!("NATIVE-UNKNOWN-HARNESS"),
        Err(e) => {
            let msg = if let Some(s) = e.downcast_ref::<&str>() {
                s.to_string()
            } else if let Some(s) = e.downcast_ref::<String>() {
                s.clone()
            } else {
                "?".into()
            };
            println!("NATIVE-PANIC {}", msg);
        }
    }
}
