#!/bin/bash
# usage: seedtest.sh <seed dir name> [confirm|check] [property ids...]
#   confirm: in the scratch worktree /tmp/seedchk: patch applies, compiles, demo fails with / passes without, suite passes
#   check:   apply to /repo, run ./check <ids>, undo
set -u
NAME=$1
S=/verif/seeded/$NAME
MODE=${2:-confirm}
shift; [ $# -gt 0 ] && shift
WT=/tmp/seedchk
export CARGO_NET_OFFLINE=true CARGO_TARGET_DIR=/tmp/seedchk_target
if [ "$MODE" = confirm ]; then
  # the scratch worktree lives outside /repo and /verif; it is created on demand and must be removed when done
  # (git -C /repo worktree remove --force /tmp/seedchk; rm -rf /tmp/seedchk_target)
  [ -d $WT ] || git -C /repo worktree add -q --detach $WT HEAD
  cd $WT && git checkout -q --detach $(git -C /repo rev-parse HEAD) && git checkout -q -- . && git clean -qfd core/tests sandbox/tests 2>/dev/null
  DEMO=seed_demo_$$
  DST=core/tests/$DEMO.rs
  grep -q "rink_sandbox\|sandbox::" $S/demo_test.rs && DST=sandbox/tests/$DEMO.rs
  PKG=rink-core; FEAT="--features bundle-files,serde_json"
  case $DST in sandbox/*) PKG=rink-sandbox; FEAT="";; esac
  mkdir -p $(dirname $DST); cp $S/demo_test.rs $DST
  cargo test --offline -p $PKG $FEAT --test $DEMO > /tmp/seedchk_clean.log 2>&1; CLEAN=$?
  git apply $S/patch.diff || { echo "RESULT $NAME patch-does-not-apply"; rm -f $DST; exit 1; }
  cargo test --offline -p $PKG $FEAT --test $DEMO > /tmp/seedchk_patched.log 2>&1; PATCHED=$?
  rm -f $DST
  cargo test --workspace --no-fail-fast --offline > /tmp/seedchk_suite.log 2>&1
  FAILS=$(grep -E "^test .* FAILED|^error: test failed" /tmp/seedchk_suite.log | grep -v "rink-sandbox --test integration" | head -5)
  NPASS=$(grep -E "^test result: ok" /tmp/seedchk_suite.log | awk '{s+=$4} END {print s}')
  git checkout -q -- .
  echo "RESULT $NAME demo_clean_exit=$CLEAN demo_patched_exit=$PATCHED suite_passed=$NPASS suite_failures=[${FAILS}]"
else
  cd /repo && git apply $S/patch.diff || { echo "cannot apply to /repo"; exit 1; }
  cd /verif
  for p in "$@"; do
    ./check $p > /tmp/seedcheck_${NAME}_$p.log 2>&1; rc=$?
    echo "CHECK $NAME $p exit=$rc :: $(grep -c '^VIOLATION' /tmp/seedcheck_${NAME}_$p.log) violation lines; $(grep -E '^VIOLATION|^  [a-z_.0-9]+ \[' /tmp/seedcheck_${NAME}_$p.log | head -3 | cut -c1-260 | tr '\n' '|')"
    grep -E "^INCONCLUSIVE" /tmp/seedcheck_${NAME}_$p.log | head -2 | cut -c1-300
  done
  git -C /repo checkout -- .
fi
