"""Value model + arithmetic helpers (concrete Python numbers mixed with z3 terms)."""
from fractions import Fraction
import z3


class Unmodelled(Exception):
    pass


class Cell:
    __slots__ = ('value', 'tag')

    def __init__(self, value=None, tag=None):
        self.value = value
        self.tag = tag


class Ref:
    """&T, &mut T, Box<T>, Rc<T>, Arc<T>: a (cell, path) pair"""
    __slots__ = ('cell', 'path')

    def __init__(self, cell, path=()):
        self.cell = cell
        self.path = tuple(path)

    def __repr__(self):
        return 'Ref(%r)' % (load(self),)


class Struct:
    __slots__ = ('name', 'fields', 'mod')

    def __init__(self, name, fields, mod=None):
        self.name = name
        self.fields = list(fields)
        self.mod = mod        # module path as printed by MIR when the bare name is ambiguous

    def __repr__(self):
        return '%s{%s}' % (self.name, ', '.join(repr(f) for f in self.fields))


class Tup:
    __slots__ = ('fields',)

    def __init__(self, fields):
        self.fields = list(fields)

    def __repr__(self):
        return '(%s)' % ', '.join(repr(f) for f in self.fields)


class Enum:
    __slots__ = ('ty', 'variant', 'vname', 'fields')

    def __init__(self, ty, variant, vname, fields=()):
        self.ty = ty
        self.variant = variant
        self.vname = vname
        self.fields = list(fields)

    def __repr__(self):
        return '%s::%s(%s)' % (self.ty, self.vname, ', '.join(repr(f) for f in self.fields))


class Closure:
    __slots__ = ('cid', 'fields')

    def __init__(self, cid, fields=()):
        self.cid = cid
        self.fields = list(fields)

    def __repr__(self):
        return 'Closure(%s)' % self.cid


class FnItem:
    __slots__ = ('path',)

    def __init__(self, path):
        self.path = path

    def __repr__(self):
        return 'FnItem(%s)' % self.path


class Arr:
    """arrays, slices and Vec<T> (known length)"""
    __slots__ = ('fields',)

    def __init__(self, fields):
        self.fields = list(fields)

    def __repr__(self):
        return '[%s]' % ', '.join(repr(f) for f in self.fields)


class Opaque:
    """a value with no modelled content (formatted strings, fmt::Arguments, ...)"""
    __slots__ = ('tag', 'info')

    def __init__(self, tag, info=None):
        self.tag = tag
        self.info = info

    def __repr__(self):
        return 'Opaque(%s)' % self.tag


class F64:
    """opaque float: `val` is a z3 Real standing for the value when finite; nan/inf are Bools"""
    __slots__ = ('val', 'nan', 'inf')

    def __init__(self, val, nan=False, inf=False):
        self.val = val
        self.nan = nan
        self.inf = inf

    def __repr__(self):
        return 'F64(%s)' % (self.val,)


class SymStr:
    """string of known length whose characters are z3 Ints (code points).  `wide`: the characters may be non-ASCII, so byte
    lengths and byte offsets are computed from the UTF-8 width of each character instead of being the character count"""
    __slots__ = ('chars', 'wide')

    def __init__(self, chars, wide=False):
        self.chars = list(chars)
        self.wide = wide

    def __repr__(self):
        return 'SymStr(%d)' % len(self.chars)


class Unit:
    def __repr__(self):
        return '()'


UNIT = Tup([])


# ----------------------------------------------------------------------------- memory

def child(v, k):
    if isinstance(v, (Struct, Tup, Enum, Closure, Arr)):
        try:
            return v.fields[k]
        except (IndexError, TypeError):
            raise Unmodelled('projection %r out of range on %r' % (k, v))
    if hasattr(v, 'get_child'):
        return v.get_child(k)
    raise Unmodelled('projection %r on %r' % (k, type(v).__name__))


def set_child(v, k, val):
    if isinstance(v, (Struct, Tup, Enum, Closure, Arr)):
        while len(v.fields) <= k:
            v.fields.append(None)
        v.fields[k] = val
        return
    if hasattr(v, 'set_child'):
        v.set_child(k, val)
        return
    raise Unmodelled('store projection %r on %r' % (k, type(v).__name__))


def load(ref):
    v = ref.cell.value
    for k in ref.path:
        v = child(v, k)
    return v


def store(ref, val):
    if not ref.path:
        ref.cell.value = val
        return
    # field-wise initialisation of a not-yet-initialised aggregate (`(_3.0: A) = ..; (_3.1: B) = ..`)
    if ref.cell.value is None:
        ref.cell.value = Tup([])
    v = ref.cell.value
    for k in ref.path[:-1]:
        nxt = None
        try:
            nxt = child(v, k)
        except Unmodelled:
            nxt = None
        if nxt is None:
            nxt = Tup([])
            set_child(v, k, nxt)
        v = nxt
    set_child(v, ref.path[-1], val)


def dup(v):
    """value copy (Rust `copy`, or Clone of plain data): aggregates are copied, references shared"""
    if isinstance(v, Struct):
        return Struct(v.name, [dup(f) for f in v.fields], v.mod)
    if isinstance(v, Tup):
        return Tup([dup(f) for f in v.fields])
    if isinstance(v, Enum):
        return Enum(v.ty, v.variant, v.vname, [dup(f) for f in v.fields])
    if isinstance(v, Arr):
        return Arr([dup(f) for f in v.fields])
    if isinstance(v, Closure):
        return Closure(v.cid, [dup(f) for f in v.fields])
    if hasattr(v, 'dup'):
        return v.dup()
    return v


def new_box(v):
    return Ref(Cell(v, 'heap'))


def deref_all(v):
    while isinstance(v, Ref):
        v = load(v)
    return v


# ----------------------------------------------------------------------------- numbers

def is_conc(x):
    return isinstance(x, (int, bool, Fraction))


def is_z3(x):
    return isinstance(x, z3.ExprRef)


def zint(x):
    if isinstance(x, bool):
        return z3.IntVal(1 if x else 0)
    if isinstance(x, int):
        return z3.IntVal(x)
    if isinstance(x, Fraction):
        raise TypeError('Fraction used as Int')
    if z3.is_bool(x):
        return z3.If(x, z3.IntVal(1), z3.IntVal(0))
    return x


def zreal(x):
    if isinstance(x, bool):
        raise TypeError('bool used as Real')
    if isinstance(x, int):
        return z3.RealVal(x)
    if isinstance(x, Fraction):
        return z3.RealVal(x.numerator) / z3.RealVal(x.denominator) if x.denominator != 1 else z3.RealVal(x.numerator)
    if z3.is_int(x):
        return z3.ToReal(x)
    return x


def zbool(x):
    if isinstance(x, bool):
        return z3.BoolVal(x)
    if isinstance(x, int):
        return z3.BoolVal(x != 0)
    return x


def simp(x):
    """simplify a z3 term; return a Python value when it folds to a literal"""
    if not is_z3(x):
        return x
    s = z3.simplify(x)
    if z3.is_true(s):
        return True
    if z3.is_false(s):
        return False
    if z3.is_int_value(s):
        return s.as_long()
    if z3.is_rational_value(s):
        return Fraction(s.numerator_as_long(), s.denominator_as_long())
    return s


def is_real(x):
    return isinstance(x, Fraction) or (is_z3(x) and z3.is_real(x))


def _both_conc(a, b):
    return is_conc(a) and is_conc(b)


def n_add(a, b):
    if _both_conc(a, b):
        return a + b
    if is_real(a) or is_real(b):
        return zreal(a) + zreal(b)
    return zint(a) + zint(b)


def n_sub(a, b):
    if _both_conc(a, b):
        return a - b
    if is_real(a) or is_real(b):
        return zreal(a) - zreal(b)
    return zint(a) - zint(b)


def n_mul(a, b):
    if _both_conc(a, b):
        return a * b
    if is_conc(a) and a == 0 or is_conc(b) and b == 0:
        return Fraction(0) if (is_real(a) or is_real(b)) else 0
    if is_real(a) or is_real(b):
        return zreal(a) * zreal(b)
    return zint(a) * zint(b)


def n_neg(a):
    if is_conc(a):
        return -a
    return -a


def r_div(a, b):
    """real division (caller has excluded b == 0)"""
    if _both_conc(a, b):
        return Fraction(a) / Fraction(b)
    return zreal(a) / zreal(b)


def n_eq(a, b):
    if _both_conc(a, b):
        return a == b
    if isinstance(a, bool) or isinstance(b, bool) or (is_z3(a) and z3.is_bool(a)) or (is_z3(b) and z3.is_bool(b)):
        return simp(zbool(a) == zbool(b))
    if is_real(a) or is_real(b):
        return simp(zreal(a) == zreal(b))
    return simp(zint(a) == zint(b))


def _cmp(a, b, pyop, zop):
    if _both_conc(a, b):
        return pyop(a, b)
    if is_real(a) or is_real(b):
        return simp(zop(zreal(a), zreal(b)))
    return simp(zop(zint(a), zint(b)))


def n_lt(a, b):
    return _cmp(a, b, lambda x, y: x < y, lambda x, y: x < y)


def n_le(a, b):
    return _cmp(a, b, lambda x, y: x <= y, lambda x, y: x <= y)


def n_gt(a, b):
    return n_lt(b, a)


def n_ge(a, b):
    return n_le(b, a)


def b_not(a):
    if isinstance(a, bool):
        return not a
    if isinstance(a, int):
        return not bool(a)
    return simp(z3.Not(zbool(a)))


def b_and(a, b):
    if isinstance(a, bool) and isinstance(b, bool):
        return a and b
    if a is False or b is False:
        return False
    return simp(z3.And(zbool(a), zbool(b)))


def b_or(a, b):
    if isinstance(a, bool) and isinstance(b, bool):
        return a or b
    if a is True or b is True:
        return True
    return simp(z3.Or(zbool(a), zbool(b)))


def b_ite(c, a, b):
    if isinstance(c, bool):
        return a if c else b
    if is_real(a) or is_real(b):
        return z3.If(zbool(c), zreal(a), zreal(b))
    if isinstance(a, bool) or isinstance(b, bool) or (is_z3(a) and z3.is_bool(a)):
        return z3.If(zbool(c), zbool(a), zbool(b))
    return z3.If(zbool(c), zint(a), zint(b))


def i_abs(a):
    if is_conc(a):
        return abs(a)
    return z3.If(a >= 0, a, -a)


def i_tdiv(a, b):
    """truncating integer division (Rust / num-bigint); caller has excluded b == 0"""
    if _both_conc(a, b):
        q = abs(a) // abs(b)
        return q if (a >= 0) == (b > 0) else -q
    a = zint(a)
    b = zint(b)
    if is_conc(simp(b)) and simp(b) > 0:
        return z3.If(a >= 0, a / b, -((-a) / b))
    return z3.If(b > 0, z3.If(a >= 0, a / b, -((-a) / b)), z3.If(a >= 0, -(a / (-b)), (-a) / (-b)))


def i_trem(a, b):
    if _both_conc(a, b):
        return a - b * i_tdiv(a, b)
    return zint(a) - zint(b) * i_tdiv(a, b)


def r_trunc(x):
    """truncate a real toward zero -> Int"""
    if is_conc(x):
        x = Fraction(x)
        q = abs(x.numerator) // x.denominator
        return q if x >= 0 else -q
    x = zreal(x)
    return z3.If(x >= 0, z3.ToInt(x), -z3.ToInt(-x))


INT_RANGES = {
    'i8': (-2 ** 7, 2 ** 7 - 1), 'i16': (-2 ** 15, 2 ** 15 - 1), 'i32': (-2 ** 31, 2 ** 31 - 1),
    'i64': (-2 ** 63, 2 ** 63 - 1), 'i128': (-2 ** 127, 2 ** 127 - 1), 'isize': (-2 ** 63, 2 ** 63 - 1),
    'u8': (0, 2 ** 8 - 1), 'u16': (0, 2 ** 16 - 1), 'u32': (0, 2 ** 32 - 1), 'u64': (0, 2 ** 64 - 1),
    'u128': (0, 2 ** 128 - 1), 'usize': (0, 2 ** 64 - 1), 'char': (0, 0x10FFFF), 'bool': (0, 1),
}


def wrap_int(x, ty):
    lo, hi = INT_RANGES[ty]
    m = hi - lo + 1
    if is_conc(x):
        return (int(x) - lo) % m + lo
    return simp(((zint(x) - lo) % m) + lo)


def in_range(x, ty):
    lo, hi = INT_RANGES[ty]
    if is_conc(x):
        return lo <= x <= hi
    return simp(z3.And(zint(x) >= lo, zint(x) <= hi))
