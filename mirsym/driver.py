"""Path exploration of one harness + obligation discharge."""
import re
import time
import traceback
from fractions import Fraction

import z3

from .values import *  # noqa
from .exec import Executor, PanicEvent, Infeasible, BoundHit
from .lib import Lib


class Inputs:
    """named symbolic inputs of a harness run (stable names across paths)"""

    def __init__(self, ex, concrete=None):
        self.ex = ex
        self.vars = {}
        self.concrete = concrete

    def real(self, name):
        if self.concrete is not None:
            return Fraction(self.concrete[name])
        v = z3.Real(name)
        self.vars[name] = v
        return v

    def int(self, name, ty=None):
        if self.concrete is not None:
            v = int(self.concrete[name])
            if ty and not in_range(v, ty):
                from .exec import Infeasible
                raise Infeasible()
            return v
        v = z3.Int(name)
        self.vars[name] = v
        if ty:
            self.ex.assume(in_range(v, ty))
        return v

    def bool(self, name):
        if self.concrete is not None:
            return bool(self.concrete[name])
        v = z3.Bool(name)
        self.vars[name] = v
        return v


def model_value(m, v):
    r = m.eval(v, model_completion=True)
    if z3.is_true(r):
        return True
    if z3.is_false(r):
        return False
    if z3.is_int_value(r):
        return r.as_long()
    if z3.is_rational_value(r):
        return Fraction(r.numerator_as_long(), r.denominator_as_long())
    if z3.is_algebraic_value(r):
        a = r.approx(20)
        return Fraction(a.numerator_as_long(), a.denominator_as_long())
    return str(r)


def jsonable(v):
    if isinstance(v, Fraction):
        return '%d/%d' % (v.numerator, v.denominator)
    if isinstance(v, bool):
        return v
    if isinstance(v, int):
        return str(v) if abs(v) > 2 ** 53 else v
    return v


class Harness:
    """Subclass / instantiate with: name, props, entry, build(ex, I) -> (args, ctx), post(ex, ctx, outcome) -> [(label, formula)]"""
    name = '?'
    props = ()
    entry = None
    loop_bound = 8
    stubs = ()
    max_paths = 5000
    describe = ''

    def build(self, ex, I):
        raise NotImplementedError

    def post(self, ex, ctx, outcome):
        return []

    def panic_ok(self, ex, ctx, ev):
        """return True if this panic is outside the harness's claim (never by default)"""
        return False

    def case(self, ctx, model_vals, label):
        return {'harness': self.name, 'label': label, 'inputs': {k: jsonable(v) for k, v in model_vals.items()}}

    # ---- native confirmation (replay) -------------------------------------------------
    def native(self, inputs, label):
        """requests for the native observer that exercise the same inputs (kernel first, query text after)"""
        return []

    def judge(self, inputs, label, observations):
        """-> (reproduced: True | False | 'kernel-only', description)"""
        return False, 'no judge'


class PathResult:
    def __init__(self):
        self.decisions = []
        self.notes = []
        self.outcome = None
        self.obligations = []   # (label, verdict, ms)
        self.violations = []    # (label, case)
        self.status = 'ok'
        self.detail = ''


class HarnessResult:
    def __init__(self, h):
        self.harness = h
        self.paths = []
        self.queries = 0
        self.solver_ms = 0.0
        self.max_query_ms = 0.0
        self.unknown = 0
        self.violations = []
        self.errors = []
        self.bound_hits = []
        self.fns = set()
        self.models = set()
        self.stubs = set()
        self.bound_notes = set()
        self.outcome_classes = {}
        self.wall = 0.0
        self.smt_dumps = []


def run_path(prog, lib, h, prefix, timeout_ms, dump_smt=None):
    stubs = [(re.compile(p), f, lbl) for (p, f, lbl) in h.stubs]
    ex = Executor(prog, lib, prefix=prefix, stubs=stubs, loop_bound=h.loop_bound, query_timeout_ms=timeout_ms)
    pr = PathResult()
    I = Inputs(ex, getattr(h, '_concrete', None))
    try:
        args, ctx = h.build(ex, I)
        ex.inputs = I
        try:
            if callable(h.entry):
                ret = h.entry(ex, args, ctx)
            else:
                f = prog.lookup(h.entry)
                if f is None:
                    raise Unmodelled('entry function %s not found in MIR' % h.entry)
                ret = ex.exec_fn(f, args)
            outcome = ('return', ret)
        except PanicEvent as ev:
            outcome = ('panic', ev.msg, ev.where)
        pr.outcome = outcome
        if outcome[0] == 'panic':
            ev = outcome
            if h.panic_ok(ex, ctx, ev):
                obligations = []
                pr.detail = 'panic outside claim: ' + ev[1]
            else:
                obligations = [('no-panic: ' + ev[1], False)]
        else:
            obligations = (h.post(ex, ctx, outcome) or []) if getattr(h, '_concrete', None) is None else []
        # vacuity: path condition satisfiable
        r = ex.check()
        if r == z3.unsat:
            pr.status = 'infeasible'
            return ex, pr
        for label, phi in obligations:
            t0 = time.time()
            if isinstance(phi, bool):
                verdict = 'unsat' if phi else 'sat'
                model = None
                if not phi:
                    rr = ex.check()
                    if rr == z3.sat:
                        model = ex.solver.model()
                    elif rr == z3.unsat:
                        verdict = 'unsat'
                    else:
                        verdict = 'unknown'
            else:
                neg = z3.Not(zbool(phi))
                dumped = None
                if dump_smt is not None and len(dump_smt) < 40:
                    s2 = z3.Solver()
                    for c in ex.pc:
                        s2.add(c)
                    s2.add(neg)
                    dumped = [h.name, label, s2.to_smt2(), None]
                    dump_smt.append(dumped)
                rr = ex.check(neg)
                if rr == z3.unknown:
                    # second opinion before calling it undecided: a fresh (non-incremental) solver over the same path
                    # condition with six times the budget - timeouts are wall-clock and a loaded machine must not turn
                    # a 10 ms query into a verdict
                    s3 = z3.Solver()
                    s3.set('timeout', int(timeout_ms * 6))
                    for c in ex.pc:
                        s3.add(c)
                    s3.add(neg)
                    t1 = time.time()
                    rr2 = s3.check()
                    ex.stats['queries'] += 1
                    ex.stats['solver_ms'] += (time.time() - t1) * 1000
                    if rr2 != z3.unknown:
                        rr = rr2
                        ex.stats['unknown'] -= 1
                        if rr == z3.sat:
                            # make the model available through the executor's solver interface below
                            ex.solver = s3_as_solver(s3, ex)
                verdict = 'sat' if rr == z3.sat else ('unsat' if rr == z3.unsat else 'unknown')
                if dumped is not None:
                    dumped[3] = verdict
                model = None
                if rr == z3.sat:
                    ex.solver.push()
                    ex.solver.add(neg)
                    for _try in range(3):
                        if ex.solver.check() == z3.sat:
                            model = ex.solver.model()
                            break
                    ex.solver.pop()
                    if model is None:
                        verdict = 'unknown'      # sat once, but no model could be extracted again: undecided, never a pass
            ms = (time.time() - t0) * 1000
            pr.obligations.append((label, verdict, ms))
            if verdict == 'sat' and hasattr(h, 'prefer'):
                # steer towards small, readable counterexamples: add preferences greedily while still sat
                ex.solver.push()
                if not isinstance(phi, bool):
                    ex.solver.add(z3.Not(zbool(phi)))
                for pref in h.prefer(ctx):
                    ex.solver.push()
                    ex.solver.add(pref)
                    if ex.solver.check() == z3.sat:
                        model = ex.solver.model()
                        # keep the preference
                        continue
                    ex.solver.pop()
                ex.solver.check()
                try:
                    model = ex.solver.model()
                except z3.Z3Exception:
                    pass
                # unwind all pushes made above
                while ex.solver.num_scopes() > 0:
                    ex.solver.pop()
            if verdict == 'sat':
                vals = {k: model_value(model, v) for k, v in I.vars.items()} if model is not None else {}
                pr.violations.append((label, h.case(ctx, vals, label)))
            elif verdict == 'unknown':
                pr.status = 'undecided'
                pr.detail = label
    except Infeasible:
        pr.status = 'infeasible'
    except BoundHit as e:
        pr.status = 'bound'
        pr.detail = str(e)
    except Unmodelled as e:
        pr.status = 'unmodelled'
        pr.detail = str(e) + ' @ ' + ' > '.join(s.split('::')[-1] for s in ex.call_stack[-4:])
    pr.decisions = list(ex.decisions)
    pr.notes = list(ex.decision_notes)
    return ex, pr


def s3_as_solver(s3, ex):
    """after a retry succeeded with `sat`: continue on a solver that holds exactly the path condition (the obligation is
    pushed again by the caller when it extracts the model)"""
    s4 = z3.Solver()
    s4.set('timeout', ex.query_timeout_ms * 6)
    for c in ex.pc:
        s4.add(c)
    return s4


def explore(prog, h, timeout_ms=10000, verbose=False, dump_smt=None, deadline=None, initial_work=None, slice_s=None, seen_before=0):
    """depth-first enumeration of decision prefixes.  With `slice_s` the call returns after about that many seconds and
    leaves the unexplored prefixes in `res.remaining` (the checker hands them to other worker processes)."""
    lib = Lib()
    res = HarnessResult(h)
    res.remaining = []
    t0 = time.time()
    work = [list(p) for p in initial_work] if initial_work is not None else [[]]
    seen = 0
    while work:
        if seen + seen_before >= h.max_paths:
            res.errors.append('path budget %d exhausted' % h.max_paths)
            break
        if deadline and time.time() > deadline:
            res.errors.append('time budget exhausted after %d paths' % (seen + seen_before))
            break
        if slice_s is not None and seen >= 1 and time.time() - t0 > slice_s and len(work) >= 1:
            res.remaining = work
            break
        prefix = work.pop()
        seen += 1
        try:
            ex, pr = run_path(prog, lib, h, prefix, timeout_ms, dump_smt)
        except Exception as e:  # executor bug: never a pass
            res.errors.append('internal error on prefix %r: %s\n%s' % (prefix, e, traceback.format_exc()))
            continue
        for alt in ex.pending:
            work.append(alt)
        res.queries += ex.stats['queries']
        res.solver_ms += ex.stats['solver_ms']
        res.max_query_ms = max(res.max_query_ms, ex.stats['max_query_ms'])
        res.unknown += ex.stats['unknown']
        res.fns |= ex.fns_entered
        res.models |= ex.models_used
        res.stubs |= ex.stubs_used
        res.bound_notes |= ex.bound_notes
        res.paths.append(pr)
        if pr.status == 'unmodelled':
            res.errors.append('UNMODELLED ' + pr.detail)
        elif pr.status == 'bound':
            res.bound_hits.append(pr.detail)
        elif pr.status == 'undecided':
            res.errors.append('UNDECIDED ' + pr.detail)
        elif pr.status == 'ok':
            cls = h.classify(pr.outcome) if hasattr(h, 'classify') else default_classify(pr.outcome)
            res.outcome_classes[cls] = res.outcome_classes.get(cls, 0) + 1
        for label, case in pr.violations:
            case['decisions'] = pr.decisions
            res.violations.append((label, case))
        if verbose:
            print('  path %d %s dec=%s %s %s' % (seen, pr.status, ''.join(map(str, pr.decisions)), pr.detail[:200],
                                               [(l[:50], v) for l, v, _ in pr.obligations]))
    res.wall = time.time() - t0
    return res


def default_classify(outcome):
    if outcome is None:
        return 'none'
    if outcome[0] == 'panic':
        return 'panic'
    v = outcome[1]
    v = deref_all(v)
    if isinstance(v, Enum):
        return '%s::%s' % (v.ty, v.vname)
    return 'return'
