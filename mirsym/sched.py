"""Interleaving of several MIR executions at atomic-call granularity (sequentially consistent schedules).
Each logical thread runs in a Python thread; exactly one runs at a time; every atomic operation / parent
allocator call is a yield point; the schedule is a sequence of `choose` decisions, so the ordinary
path-exploration driver enumerates every interleaving."""
import threading


class Scheduler:
    def __init__(self, ex, bodies):
        self.ex = ex
        self.bodies = bodies
        self.n = len(bodies)
        self.go = [threading.Semaphore(0) for _ in bodies]
        self.back = threading.Semaphore(0)
        self.done = [False] * self.n
        self.results = [None] * self.n
        self.error = None
        self.current = None
        self.trace = []
        self.saved = [None] * self.n

    def _run(self, i):
        self.go[i].acquire()
        try:
            if self.error is None:
                self.results[i] = self.bodies[i]()
        except BaseException as e:      # propagate to the driver thread
            self.error = e
        self.done[i] = True
        self.back.release()

    def yield_point(self, what):
        i = self.current
        if i is None:
            return
        self.trace.append((i, what))
        # hand control back and wait to be scheduled again
        self.saved[i] = (list(self.ex.call_stack), self.ex.depth)
        self.back.release()
        self.go[i].acquire()
        if self.error is not None:
            raise _Abort()
        self.ex.call_stack, self.ex.depth = self.saved[i]

    def run(self):
        ths = [threading.Thread(target=self._run, args=(i,), daemon=True) for i in range(self.n)]
        for t in ths:
            t.start()
        self.ex.env['sched'] = self
        base_stack, base_depth = list(self.ex.call_stack), self.ex.depth
        try:
            while not all(self.done) and self.error is None:
                runnable = [i for i in range(self.n) if not self.done[i]]
                k = self.ex.choose(len(runnable), 'schedule')
                i = runnable[k]
                self.current = i
                if self.saved[i] is None:
                    self.ex.call_stack, self.ex.depth = list(base_stack), base_depth
                self.go[i].release()
                self.back.acquire()
                self.current = None
        finally:
            self.ex.env['sched'] = None
            self.ex.call_stack, self.ex.depth = base_stack, base_depth
            if self.error is not None or not all(self.done):
                # release the other threads so that they terminate
                if self.error is None:
                    self.error = _Abort()
                for i in range(self.n):
                    if not self.done[i]:
                        self.go[i].release()
                for t in ths:
                    t.join(timeout=2)
        if self.error is not None and not isinstance(self.error, _Abort):
            raise self.error
        return self.results


class _Abort(BaseException):
    pass
