"""A parsed MIR dump + the index that maps callee text to bodies."""
import os
import re

from .parse import parse_mir, scan_balanced, split_top, MirSyntaxError
from .srcinfo import SrcInfo

_LIFETIME = re.compile(r"'[a-z_]\w*\b(?!')\s*")
_MODPREFIX = re.compile(r'(?<![:\w>\]}])(?:[a-z_][a-z0-9_]*::)+')
_IMPL_AT = re.compile(r'<impl at ([^:>]+):(\d+):(\d+): (\d+):(\d+)>')


def strip_turbofish(s):
    """remove every `::<...>` group"""
    out = []
    i = 0
    n = len(s)
    while i < n:
        if s.startswith('::<', i):
            j, _ = scan_balanced(s, i + 3, ['>'])
            # `path::<impl Type>::method` is an inherent-impl path segment, not a turbofish
            if s.startswith('::<impl ', i) and s.startswith('::', j + 1):
                out.append(s[i:j + 1])
                i = j + 1
                continue
            i = j + 1
            continue
        out.append(s[i])
        i += 1
    return ''.join(out)


def _num_alias(t):
    t = t.replace('num_bigint::BigInt', 'NumInt').replace('num_rational::Ratio<', 'Ratio<')
    t = t.replace('Ratio::<NumInt>', 'NumRat').replace('Ratio<NumInt>', 'NumRat')
    t = t.replace('num_rational::BigRational', 'NumRat')
    return t


def norm_type(t):
    t = _num_alias(t)
    t = _LIFETIME.sub('', t)
    t = re.sub(r'\bfor<[^>]*>\s*', '', t)
    t = _MODPREFIX.sub('', t)
    t = t.replace('dyn ', 'dyn_').replace('mut ', 'mut_').replace('const ', 'const_')
    t = re.sub(r'\s+', '', t)
    t = t.replace('dyn_', 'dyn ').replace('mut_', 'mut ').replace('const_', 'const ')
    t = t.replace('<>', '')
    return t


def norm_callee(c):
    c = _num_alias(c)
    c = _LIFETIME.sub('', c)
    c = strip_turbofish(c)
    c = _MODPREFIX.sub('', c)
    c = re.sub(r'\s*,\s*', ',', c)
    c = c.replace('<>', '')
    return c.strip()


def strip_generics(t):
    """Foo<A,B> -> Foo ; &Foo<A> -> &Foo"""
    j, st = scan_balanced(t, 0, ['<'], angle=False)
    return t[:j] if st else t


def modules_of(text):
    out = set()
    for m in _MODPREFIX.finditer(_num_alias(_LIFETIME.sub('', text))):
        out.update(x for x in m.group(0).split('::') if x)
    return out


class Program:
    def __init__(self, mir_text, crate_root, ws_root):
        self.fns, self.order = parse_mir(mir_text)
        self.src = SrcInfo(crate_root)
        self.ws = ws_root
        self.index = {}      # normalised key -> [Fn]
        self.closures = {}   # closure id -> Fn
        self.consts = {}
        self._build_index()

    def _add(self, key, f):
        self.index.setdefault(key, [])
        if f not in self.index[key]:
            self.index[key].append(f)

    def _build_index(self):
        for f in self.order:
            name = f.name
            h = f.header
            f.is_const = not h.startswith('fn ')
            # closures are found through the type of their first argument
            if '{closure#' in name.rsplit('::', 1)[-1] or re.search(r'\{closure#\d+\}$', name):
                m = re.search(r'\(_1: (?:&(?:mut )?)?(\{closure@[^}]*\})', _LIFETIME.sub('', h))
                if m:
                    self.closures.setdefault(m.group(1), f)
            m = _IMPL_AT.search(name)
            f.keys = []
            if m and name.count('<impl at') == 1:
                file_rel, l, c, el, ec = m.group(1), int(m.group(2)), int(m.group(3)), int(m.group(4)), int(m.group(5))
                try:
                    trait, ty = self.src.impl_header(file_rel, l, c, el, ec, self.ws)
                except Exception:
                    trait, ty = None, None
                tail = name[m.end():]          # ::method or ::method::{closure#0}
                if ty is None:
                    continue
                tyn = norm_type(ty)
                if trait is None:
                    keys = ['%s%s' % (strip_generics(tyn), tail)]
                else:
                    trn = norm_type(trait)
                    if '$' in trn:
                        trn = '$'
                    if '$' in tyn:
                        continue
                    keys = ['<%s as %s>%s' % (tyn, trn, tail), '<%s as %s>%s' % (tyn, strip_generics(trn), tail),
                            '<%s as %s>%s' % (strip_generics(tyn), strip_generics(trn), tail)]
                f.impl_of = (trait, ty)
                for k in keys:
                    self._add(k, f)
                    f.keys.append(k)
            else:
                k = norm_callee(name)
                self._add(k, f)
                f.keys.append(k)
                # also by last segment path suffixes
                segs = k.split('::')
                for i in range(1, len(segs)):
                    self._add('::'.join(segs[i:]), f)

    def lookup(self, callee):
        """callee text from a call terminator -> Fn or None"""
        pm = re.match(r'^(.*)::(promoted\[\d+\])$', callee.strip())
        if pm and '{closure' not in callee:
            # a promoted constant belongs to the function it is named after: resolve the owner first
            try:
                owner = self.lookup(pm.group(1))
            except MirSyntaxError:
                owner = None
            if owner is not None:
                f = self.fns.get(owner.name + '::' + pm.group(2))
                if f is not None:
                    return f
            # a function nested in another item is printed under its bare name
            bare = pm.group(1).split('::')[-1]
            if re.match(r'^[A-Za-z_][A-Za-z0-9_]*$', bare):
                f = self.fns.get(bare + '::' + pm.group(2))
                if f is not None:
                    return f
        k = norm_callee(callee)
        cands = self.index.get(k)
        if not cands and k.startswith('<') and ' as ' in k:
            # drop trait arguments / self generics
            m = re.match(r'^<(.*) as (.*)>(::.*)$', k)
            if m:
                ty, tr, tail = m.groups()
                for kk in ('<%s as %s>%s' % (ty, strip_generics(tr), tail),
                           '<%s as %s>%s' % (strip_generics(ty), strip_generics(tr), tail)):
                    cands = self.index.get(kk)
                    if not cands:
                        cands = self.index.get('<%s as $>%s' % (ty, tail))
                    if cands:
                        # several impls of one trait for one type differ only in trait args:
                        # keep those whose full key matches when the call spells the args
                        if len(cands) > 1 and '<' in tr:
                            exact = [f for f in cands if '<%s as %s>%s' % (ty, tr, tail) in getattr(f, 'keys', [])]
                            if exact:
                                cands = exact
                        break
        if not cands and not k.startswith('<'):
            k2 = '::'.join(strip_generics(s) if i < k.count('::') else s for i, s in enumerate(k.split('::')))
            cands = self.index.get(k2)
        if not cands:
            return None
        if len(cands) == 1:
            return cands[0]
        mods = modules_of(callee)
        scored = sorted(((sum(1 for m in mods if ('/' + m + '.rs') in f.name or f.name.startswith(m + '::')), i, f)
                         for i, f in enumerate(cands)), reverse=True)
        if scored[0][0] > 0 and (len(scored) == 1 or scored[0][0] > scored[1][0]):
            return scored[0][2]
        # prefer an exact (un-suffixed) key match
        exact = [f for f in cands if getattr(f, 'keys', None) and f.keys[0] == k]
        if len(exact) == 1:
            return exact[0]
        raise MirSyntaxError('ambiguous callee %r: %s' % (callee, [f.name for f in cands]))

    def closure_body(self, cid):
        cid = _LIFETIME.sub('', cid)
        f = self.closures.get(cid)
        return f
