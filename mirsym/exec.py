"""Symbolic executor for MIR bodies (one path per run, decisions replayed from a prefix)."""
import re
from fractions import Fraction

import z3

from .values import *  # noqa
from .parse import MirSyntaxError, scan_balanced, split_top
from .program import norm_callee, norm_type, strip_generics, _LIFETIME, strip_turbofish


class PanicEvent(Exception):
    def __init__(self, msg, where):
        Exception.__init__(self, msg)
        self.msg = msg
        self.where = where


class Infeasible(Exception):
    pass


class BoundHit(Exception):
    pass


def strip_ref_type(t):
    t = t.strip()
    t = _LIFETIME.sub('', t)
    for pre in ('&mut ', '&', '*const ', '*mut '):
        if t.startswith(pre):
            return t[len(pre):].strip()
    for box in ('std::boxed::Box<', 'Box<', 'std::rc::Rc<', 'Rc<', 'std::sync::Arc<', 'Arc<'):
        if t.startswith(box):
            inner = t[len(box):-1]
            return split_top(inner)[0]
    return t


def elem_type(t):
    t = t.strip()
    if t.startswith('['):
        inner = t[1:-1]
        parts = split_top(inner, ';')
        return parts[0].strip()
    m = re.match(r'^(?:std::vec::)?Vec<(.*)>$', t)
    if m:
        return split_top(m.group(1))[0]
    return '?'


_TRANSPARENT = re.compile(r'^std::(ptr::(Unique|NonNull)|mem::(ManuallyDrop|MaybeDangling|MaybeUninit))<')
_INT_TYPES = set(INT_RANGES) - {'bool', 'char'}
_INT_CONST = re.compile(r'^(-?\d+)_(i8|i16|i32|i64|i128|isize|u8|u16|u32|u64|u128|usize)$')
_FLOAT_CONST = re.compile(r'^(-?[0-9.]+(?:[eE][-+]?\d+)?)f(32|64)$')


def unescape(s):
    out = []
    i = 0
    n = len(s)
    while i < n:
        c = s[i]
        if c == '\\':
            i += 1
            e = s[i]
            if e == 'n':
                out.append('\n')
            elif e == 't':
                out.append('\t')
            elif e == 'r':
                out.append('\r')
            elif e == '0':
                out.append('\0')
            elif e == 'x':
                out.append(chr(int(s[i + 1:i + 3], 16)))
                i += 2
            elif e == 'u':
                j = s.index('}', i)
                out.append(chr(int(s[i + 2:j], 16)))
                i = j
            else:
                out.append(e)
            i += 1
            continue
        out.append(c)
        i += 1
    return ''.join(out)


class LoopBack:
    """marker: execution arrived (again) at the loop head it was asked to stop at"""


class Frame:
    __slots__ = ('fn', 'locals', 'visits')

    def __init__(self, fn):
        self.fn = fn
        self.locals = {}
        self.visits = {}

    def cell(self, i):
        c = self.locals.get(i)
        if c is None:
            c = Cell(None, ('local', self.fn.name, i))
            self.locals[i] = c
        return c


class Executor:
    def __init__(self, prog, lib, prefix=(), stubs=None, loop_bound=8, query_timeout_ms=10000, log=None):
        self.prog = prog
        self.lib = lib
        self.prefix = list(prefix)
        self.decisions = []
        self.decision_notes = []
        self.pending = []
        self.stubs = stubs or []
        self.loop_bound = loop_bound
        self.solver = z3.Solver()
        self.solver.set('timeout', query_timeout_ms)
        self.query_timeout_ms = query_timeout_ms
        self.branch_timeout_ms = max(1500, query_timeout_ms // 6)
        self.pc = []
        self.nfresh = 0
        self.stats = {'queries': 0, 'solver_ms': 0.0, 'unknown': 0, 'calls': 0, 'max_query_ms': 0.0}
        self.depth = 0
        self.trace_calls = []
        self.fns_entered = set()
        self.models_used = set()
        self.stubs_used = set()
        self.events = []
        self.call_stack = []
        self.const_cache = {}
        self.log = log
        self.memo = {}
        self.env = {}
        self.bound_notes = set()
        self.pow_apps = []

    # ------------------------------------------------------------------ symbolic plumbing
    def fresh(self, base, sort='Int'):
        self.nfresh += 1
        name = '%s!%d' % (base, self.nfresh)
        if sort == 'Int':
            return z3.Int(name)
        if sort == 'Real':
            return z3.Real(name)
        if sort == 'Bool':
            return z3.Bool(name)
        raise ValueError(sort)

    def assume(self, c):
        c = simp(c) if not isinstance(c, bool) else c
        if c is True:
            return
        if c is False:
            raise Infeasible()
        self.pc.append(c)
        self.solver.add(c)

    def check(self, extra=None):
        import time
        t0 = time.time()
        if extra is not None:
            self.solver.push()
            self.solver.add(extra)
        r = self.solver.check()
        if extra is not None:
            self.solver.pop()
        dt = (time.time() - t0) * 1000
        self.stats['queries'] += 1
        self.stats['solver_ms'] += dt
        self.stats['max_query_ms'] = max(self.stats['max_query_ms'], dt)
        if r == z3.unknown:
            self.stats['unknown'] += 1
        return r

    def branch(self, cond, note=''):
        """decide a (possibly symbolic) condition; forks are recorded as decisions"""
        if isinstance(cond, bool):
            return cond
        if isinstance(cond, int):
            return cond != 0
        c = simp(zbool(cond))
        if isinstance(c, bool):
            return c
        idx = len(self.decisions)
        if idx < len(self.prefix):
            d = self.prefix[idx]
            self.decisions.append(d)
            self.decision_notes.append(note)
            self.assume(c if d else z3.Not(c))
            return bool(d)
        # feasibility checks get a short budget; `unknown` keeps the branch (over-approximation, never a pass by omission)
        self.solver.set('timeout', self.branch_timeout_ms)
        rt = self.check(c)
        rf = self.check(z3.Not(c))
        self.solver.set('timeout', self.query_timeout_ms)
        t_ok = rt != z3.unsat
        f_ok = rf != z3.unsat
        if t_ok and f_ok:
            self.pending.append(self.decisions + [0])
            d = 1
        elif t_ok:
            d = 1
        elif f_ok:
            d = 0
        else:
            raise Infeasible()
        self.decisions.append(d)
        self.decision_notes.append(note)
        self.assume(c if d else z3.Not(c))
        return bool(d)

    def choose(self, n, note=''):
        """harness-level n-way fork without a solver query"""
        if n == 1:
            return 0
        idx = len(self.decisions)
        if idx < len(self.prefix):
            d = self.prefix[idx]
        else:
            for k in range(1, n):
                self.pending.append(self.decisions + [k])
            d = 0
        self.decisions.append(d)
        self.decision_notes.append(note)
        return d

    def concretize_int(self, v, what, lo=None, hi=None):
        """an int needed concretely (index, length): must already be concrete"""
        v = simp(v)
        if is_conc(v):
            return int(v)
        if lo is not None and hi is not None and hi - lo <= 16:
            for k in range(lo, hi + 1):
                if self.branch(n_eq(v, k), 'concretize %s=%d' % (what, k)):
                    return k
            raise Infeasible()
        raise Unmodelled('symbolic %s' % what)

    def panic(self, msg):
        raise PanicEvent(msg, list(self.call_stack))

    def divmod(self, a, b):
        """truncating division with a *symbolic* divisor: fresh q, r with the division lemma
        a = q*b + r, |r| < |b|, sign(r) in {0, sign(a)}  (caller has excluded b == 0)"""
        if is_z3(a) and is_conc(simp(b)):
            # a value known to be a digit string in some base (sum e_j * base^j, 0 <= e_j < base) divided by a power of
            # that base: quotient and remainder are the upper and lower digits - exact linear terms, no lemma needed
            dg = self.memo.get(('digits_of', a.get_id()))
            bb = int(simp(b))
            if dg is not None and bb >= 1:
                base, es = dg
                m, t = 0, 1
                while t < bb:
                    t *= base
                    m += 1
                if t == bb:
                    def poly(ds):
                        r_ = z3.IntVal(0)
                        for j, e in enumerate(ds):
                            r_ = r_ + e * (base ** j)
                        return z3.simplify(r_)
                    q, r = poly(es[m:]), poly(es[:m])
                    self.memo[('digits_of', q.get_id())] = (base, es[m:])
                    self.memo[('digits_of', r.get_id())] = (base, es[:m])
                    return q, r
        if is_conc(simp(b)) or (is_conc(a) and is_conc(b)):
            return i_tdiv(a, b), i_trem(a, b)
        a, b = zint(a), zint(b)
        key = ('divmod', a.get_id(), b.get_id())
        c = self.memo.get(key)
        if c is not None:
            return c
        q = self.fresh('quot', 'Int')
        r = self.fresh('rem', 'Int')
        absb = z3.If(b >= 0, b, -b)
        self.assume(a == q * b + r)
        self.assume(z3.If(a >= 0, z3.And(r >= 0, r < absb), z3.And(r <= 0, -r < absb)))
        self.memo[key] = (q, r)
        return q, r

    def note_bound(self, text):
        self.bound_notes.add(text)

    def sym_pow(self, b, e):
        """b^e for a symbolic exponent: uninterpreted, with the facts b^0=1, b^1=b"""
        f = z3.Function('ipow', z3.IntSort(), z3.IntSort(), z3.IntSort())
        r = f(zint(b), zint(e))
        self.assume(z3.Implies(zint(e) == 0, r == 1))
        self.assume(z3.Implies(zint(e) == 1, r == zint(b)))
        self.assume(z3.Implies(zint(b) > 0, r > 0))
        self.assume(z3.Implies(zint(b) != 0, r != 0))
        self.note_bound('exponentiation with a symbolic exponent is uninterpreted (only b^0, b^1 known)')
        return r

    # ------------------------------------------------------------------ types
    def operand_type(self, frame, op):
        if op[0] == 'const':
            t = op[1]
            m = _INT_CONST.match(t)
            if m:
                return m.group(2)
            if t in ('true', 'false'):
                return 'bool'
            if _FLOAT_CONST.match(t):
                return 'f64'
            m = re.match(r'^(i8|i16|i32|i64|i128|isize|u8|u16|u32|u64|u128|usize)::(MIN|MAX)$', t)
            if m:
                return m.group(1)
            if t.startswith("'"):
                return 'char'
            return '?'
        if op[0] == 'fnitem':
            return 'fn'
        return self.place_type(frame, op[1])

    def place_type(self, frame, place):
        loc, proj = place
        ty = frame.fn.local_types.get(loc, '?')
        for p in proj:
            if p[0] == 'deref':
                ty = strip_ref_type(ty)
            elif p[0] == 'field':
                ty = p[2]
            elif p[0] in ('index', 'constindex'):
                ty = elem_type(ty)
        return _LIFETIME.sub('', ty).strip()

    # ------------------------------------------------------------------ places
    def resolve(self, frame, place):
        loc, proj = place
        cell = frame.cell(loc)
        path = ()
        for p in proj:
            k = p[0]
            if k == 'deref':
                v = load(Ref(cell, path))
                if isinstance(v, Ref):
                    cell, path = v.cell, v.path
                elif isinstance(v, (str, SymStr, Opaque)) or hasattr(v, 'is_model'):
                    # &str / model handle: the referent is the value itself
                    cell, path = Cell(v, 'strval'), ()
                else:
                    raise Unmodelled('deref of %r in %s' % (v, frame.fn.name))
            elif k == 'field':
                if _TRANSPARENT.match(p[2]):
                    continue      # Box internals / MaybeUninit wrappers are transparent in the value model
                path = path + (p[1],)
            elif k == 'downcast':
                pass
            elif k == 'index':
                i = self.concretize_int(frame.cell(p[1]).value, 'index')
                v = load(Ref(cell, path))
                n = len(v.fields) if hasattr(v, 'fields') else None
                if n is not None and not (0 <= i < n):
                    self.panic('index out of bounds')
                path = path + (i,)
            elif k == 'constindex':
                v = load(Ref(cell, path))
                i = p[1]
                if p[2]:
                    i = len(v.fields) + i
                path = path + (i,)
            else:
                raise Unmodelled('place projection %r' % (p,))
        return Ref(cell, path)

    def read_place(self, frame, place):
        r = self.resolve(frame, place)
        v = load(r)
        if v is None:
            raise Unmodelled('read of uninitialised %r in %s' % (place, frame.fn.name))
        return v

    # ------------------------------------------------------------------ constants
    def const(self, frame, text):
        t = text.strip()
        if t == 'true':
            return True
        if t == 'false':
            return False
        m = _INT_CONST.match(t)
        if m:
            return int(m.group(1))
        m = _FLOAT_CONST.match(t)
        if m:
            return F64(Fraction(m.group(1)))
        if t.startswith('"'):
            return unescape(t[1:-1])
        if t.startswith('b"'):
            return Opaque('bytes', t)
        if t.startswith("'"):
            return ord(unescape(t[1:-1]))
        if t == '()':
            return Tup([])
        m = re.match(r'^(i8|i16|i32|i64|i128|isize|u8|u16|u32|u64|u128|usize)::(MIN|MAX)$', t)
        if m:
            lo, hi = INT_RANGES[m.group(1)]
            return lo if m.group(2) == 'MIN' else hi
        if t.startswith('ZeroSized: '):
            ty = t[len('ZeroSized: '):]
            if ty.startswith('{closure@'):
                return Closure(_LIFETIME.sub('', ty))
            m = re.match(r'^.*\{(.*)\}$', ty)
            if ty.startswith('fn(') and m:
                return FnItem(m.group(1))
            return Struct(norm_type(ty), [])
        if t.startswith('f64::') or t.startswith('std::f64::') or t.startswith('core::f64::'):
            name = t.split('::')[-1]
            import math
            table = {'LN_2': math.log(2), 'NAN': None, 'INFINITY': None, 'PI': math.pi, 'E': math.e, 'EPSILON': 2.0 ** -52}
            if name in table and table[name] is not None:
                return F64(Fraction(table[name]))
            if name == 'NAN':
                return F64(Fraction(0), True, False)
            if name == 'INFINITY':
                return F64(Fraction(0), False, True)
        if t == 'RangeFull':
            return Struct('RangeFull', [])
        # unit variants printed as constants, e.g. `const Option::<T>::None`
        segs = self.path_segments(t)
        if len(segs) >= 2:
            en = self.prog.src.resolve_enum(segs[:-1], segs[-1])
            if en is not None and any(v == segs[-1] for v, _ in self.prog.src.enums[en]):
                return self.make_variant(en, segs[-1], [])
        # named constant / promoted: evaluate its body
        f = None
        try:
            f = self.prog.lookup(t)
        except MirSyntaxError:
            f = None
        if f is None and '::' in t and '<' not in t:
            # a constant declared inside a function is printed under its bare name
            try:
                g = self.prog.lookup(t.split('::')[-1])
            except MirSyntaxError:
                g = None
            if g is not None and getattr(g, 'is_const', False):
                f = g
        if f is not None and getattr(f, 'is_const', False):
            key = f.name
            if key not in self.const_cache:
                self.const_cache[key] = self.exec_fn(f, [])
            return dup(self.const_cache[key])
        raise Unmodelled('constant %r' % t)

    @staticmethod
    def path_segments(path):
        p = strip_turbofish(_LIFETIME.sub('', path))
        segs = []
        for s in split_top(p, '::'):
            s = s.strip()
            s = strip_generics(s)
            if s:
                segs.append(s)
        return segs

    def make_variant(self, enum, vname, fields):
        vs = self.prog.src.enums[enum]
        for i, (n, fs) in enumerate(vs):
            if n == vname:
                return Enum(enum, i, n, fields)
        raise Unmodelled('variant %s::%s' % (enum, vname))

    # ------------------------------------------------------------------ operands / rvalues
    def operand(self, frame, op):
        k = op[0]
        if k == 'copy':
            return dup(self.read_place(frame, op[1]))
        if k == 'move':
            return self.read_place(frame, op[1])
        if k == 'const':
            return self.const(frame, op[1])
        if k == 'fnitem':
            return FnItem(op[1])
        raise Unmodelled('operand %r' % (op,))

    def rvalue(self, frame, rv):
        k = rv[0]
        if k == 'use':
            return self.operand(frame, rv[1])
        if k == 'ref':
            return self.resolve(frame, rv[2])
        if k == 'discriminant':
            v = self.read_place(frame, rv[1])
            if isinstance(v, Enum):
                return v.variant
            if hasattr(v, 'discriminant'):
                return v.discriminant(self)
            raise Unmodelled('discriminant of %r' % (v,))
        if k == 'len':
            v = self.read_place(frame, rv[1])
            return len(v.fields)
        if k == 'tuple':
            return Tup([self.operand(frame, o) for o in rv[1]])
        if k == 'array':
            return Arr([self.operand(frame, o) for o in rv[1]])
        if k == 'repeat':
            n = int(re.match(r'^(\d+)', rv[2].replace('const ', '')).group(1))
            v = self.operand(frame, rv[1])
            return Arr([dup(v) for _ in range(n)])
        if k == 'closure':
            return Closure(_LIFETIME.sub('', rv[1]), [self.operand(frame, o) for _, o in rv[2]])
        if k == 'adt_named':
            return self.adt(frame, rv[1], [(n, self.operand(frame, o)) for n, o in rv[2]], True)
        if k == 'adt_pos':
            return self.adt(frame, rv[1], [(None, self.operand(frame, o)) for o in rv[2]], False)
        if k == 'unop':
            return self.unop(frame, rv[1], rv[2])
        if k == 'binop':
            return self.binop(frame, rv[1], rv[2], rv[3])
        if k == 'cast':
            return self.cast(frame, rv[1], rv[2], rv[3])
        if k == 'shallowbox':
            return self.operand(frame, rv[1])
        raise Unmodelled('rvalue %r' % (rv,))

    def adt(self, frame, path, fields, named):
        segs = self.path_segments(path)
        src = self.prog.src
        last = segs[-1]
        en = src.resolve_enum(segs[:-1], last) if len(segs) >= 2 else None
        if en is not None and any(v == last for v, _ in src.enums[en]):
            for i, (vn, fns) in enumerate(src.enums[en]):
                if vn == last:
                    if named:
                        vals = [None] * len(fns)
                        for n, v in fields:
                            vals[fns.index(n)] = v
                    else:
                        vals = [v for _, v in fields]
                    return Enum(en, i, vn, vals)
        modq = '::'.join(re.findall(r'\b([a-z_][a-z0-9_]*)::', _LIFETIME.sub('', path)))
        if last in src.structs:
            fns = src.structs[last]
            if named:
                vals = [None] * len(fns)
                for n, v in fields:
                    if n in fns:
                        vals[fns.index(n)] = v
                    else:
                        raise Unmodelled('field %s of %s' % (n, last))
            else:
                vals = [v for _, v in fields]
            return Struct(last, vals, modq or None)
        ext = EXTERNAL_STRUCTS.get(last)
        if ext is not None:
            if named:
                vals = [None] * len(ext)
                for n, v in fields:
                    vals[ext.index(n)] = v
            else:
                vals = [v for _, v in fields]
            return Struct(last, vals)
        if not named:
            # external tuple struct / unit struct: keep positional
            return Struct(last, [v for _, v in fields])
        raise Unmodelled('aggregate of unknown type %r' % path)

    def unop(self, frame, op, a):
        ty = self.operand_type(frame, a)
        v = self.operand(frame, a)
        if op == 'Not':
            if ty == 'bool' or isinstance(v, bool) or (is_z3(v) and z3.is_bool(v)):
                return b_not(v)
            if is_conc(v) and ty in INT_RANGES:
                lo, hi = INT_RANGES[ty]
                return wrap_int(~int(v), ty)
            raise Unmodelled('bitwise Not on symbolic %s' % ty)
        if op == 'Neg':
            if isinstance(v, F64):
                return F64(n_neg(v.val), v.nan, v.inf)
            return n_neg(v)
        if op == 'PtrMetadata':
            t = deref_all(v)
            if isinstance(t, str):
                return len(t.encode('utf-8'))
            if isinstance(t, SymStr):
                return len(t.chars)
            if hasattr(t, 'fields'):
                return len(t.fields)
            raise Unmodelled('PtrMetadata of %r' % (t,))
        raise Unmodelled('unop ' + op)

    def binop(self, frame, op, a, b):
        ta = self.operand_type(frame, a)
        x = self.operand(frame, a)
        y = self.operand(frame, b)
        if isinstance(x, F64) or isinstance(y, F64):
            return self.lib.float_binop(self, op, x, y)
        if op in ('AddWithOverflow', 'SubWithOverflow', 'MulWithOverflow'):
            f = {'A': n_add, 'S': n_sub, 'M': n_mul}[op[0]]
            r = f(x, y)
            if ta not in INT_RANGES:
                raise Unmodelled('%s on type %r' % (op, ta))
            ok = in_range(r, ta)
            ovf = b_not(ok)
            if ovf is False:
                return Tup([r, False])
            return Tup([b_ite(ok, r, wrap_int(r, ta)) if not is_conc(r) else wrap_int(r, ta), ovf])
        if op in ('Add', 'Sub', 'Mul', 'AddUnchecked', 'SubUnchecked', 'MulUnchecked'):
            f = {'A': n_add, 'S': n_sub, 'M': n_mul}[op[0]]
            r = f(x, y)
            if ta in _INT_TYPES:
                if op.endswith('Unchecked'):
                    return r
                if is_conc(r):
                    return wrap_int(r, ta)
                ok = in_range(r, ta)
                if ok is True or self.check(z3.Not(zbool(ok))) == z3.unsat:
                    return r
                return wrap_int(r, ta)
            return r
        if op == 'Div':
            return self.divmod(x, y)[0]
        if op == 'Rem':
            return self.divmod(x, y)[1]
        if op == 'Eq':
            return self.lib.values_eq(self, x, y)
        if op == 'Ne':
            return b_not(self.lib.values_eq(self, x, y))
        if op == 'Lt':
            return n_lt(x, y)
        if op == 'Le':
            return n_le(x, y)
        if op == 'Gt':
            return n_gt(x, y)
        if op == 'Ge':
            return n_ge(x, y)
        if op in ('BitAnd', 'BitOr', 'BitXor'):
            if ta == 'bool' or isinstance(x, bool) or isinstance(y, bool) or (is_z3(x) and z3.is_bool(x)):
                if op == 'BitAnd':
                    return b_and(x, y)
                if op == 'BitOr':
                    return b_or(x, y)
                return b_not(n_eq(zbool(x) if not isinstance(x, bool) else x, zbool(y) if not isinstance(y, bool) else y))
            if is_conc(x) and is_conc(y):
                return {'BitAnd': x & y, 'BitOr': x | y, 'BitXor': x ^ y}[op]
            if ta in INT_RANGES:
                lo, hi = INT_RANGES[ta]
                w = (hi - lo + 1).bit_length() - 1
                bx, by = z3.Int2BV(zint(x), w), z3.Int2BV(zint(y), w)
                r = {'BitAnd': bx & by, 'BitOr': bx | by, 'BitXor': bx ^ by}[op]
                return z3.BV2Int(r, lo < 0)
            raise Unmodelled('%s on symbolic ints' % op)
        if op in ('Shl', 'Shr', 'ShlUnchecked', 'ShrUnchecked'):
            if is_conc(y):
                if op.startswith('Shl'):
                    r = n_mul(x, 2 ** int(y))
                    return wrap_int(r, ta) if ta in INT_RANGES else r
                if is_conc(x):
                    return int(x) >> int(y)
                return zint(x) / (2 ** int(y))
            raise Unmodelled('shift by symbolic amount')
        if op == 'Cmp':
            if self.branch(n_lt(x, y), 'cmp<'):
                return self.make_variant('Ordering', 'Less', [])
            if self.branch(n_eq(x, y), 'cmp='):
                return self.make_variant('Ordering', 'Equal', [])
            return self.make_variant('Ordering', 'Greater', [])
        raise Unmodelled('binop ' + op)

    def cast(self, frame, a, ty, kind):
        src_ty = self.operand_type(frame, a)
        v = self.operand(frame, a)
        ty = ty.strip()
        if kind == 'IntToInt':
            if isinstance(v, Enum):
                v = v.variant
            if ty not in INT_RANGES:
                raise Unmodelled('cast to %s' % ty)
            if src_ty in INT_RANGES:
                slo, shi = INT_RANGES[src_ty]
                tlo, thi = INT_RANGES[ty]
                if tlo <= slo and shi <= thi:
                    return v if not isinstance(v, bool) else int(v)
            if isinstance(v, bool):
                return int(v)
            if is_z3(v) and z3.is_bool(v):
                return z3.If(v, z3.IntVal(1), z3.IntVal(0))
            return wrap_int(v, ty)
        if kind in ('IntToFloat', 'FloatToInt', 'FloatToFloat'):
            return self.lib.float_cast(self, kind, v, src_ty, ty)
        if kind.startswith('PointerCoercion') or kind in ('PtrToPtr', 'Transmute', 'PointerExposeProvenance', 'FnPtrToPtr'):
            return v
        raise Unmodelled('cast kind %s' % kind)

    # ------------------------------------------------------------------ statements
    def exec_loop_entry(self, fn, head, locals_by_name=None, from_entry_args=None):
        """run `fn` either from its entry (from_entry_args) up to the first arrival at loop head `head`, or from `head`
        with the given source-level variables until the next arrival at `head` or a return.
        -> ('head', {name: value}) | ('return', value)"""
        fn.parse()
        frame = Frame(fn)
        if from_entry_args is not None and locals_by_name is not None:
            # real prologue first (it computes whatever loop-invariant locals the function keeps), then the loop variables
            # are replaced by the specified state and one iteration runs from the head
            for i, a in enumerate(from_entry_args):
                frame.cell(i + 1).value = a
            r = self.exec_fn(fn, None, frame=frame, start_bb=0, stop_bb=head)
            if not isinstance(r, LoopBack):
                raise Unmodelled('the prologue of %s returned before reaching its loop' % fn.name)
            # every variable the loop body assigns and the prologue initialised is loop-carried state: it must be specified
            for name in sorted(fn.loop_assigned(head) - set(locals_by_name)):
                idx = fn.debug.get(name)
                if idx and idx[0] in frame.locals and frame.locals[idx[0]].value is not None:
                    raise Unmodelled('loop-carried variable %r of %s has no specification in the harness' % (name, fn.name))
            for name, v in locals_by_name.items():
                idx = fn.debug.get(name)
                if not idx:
                    raise Unmodelled('no source variable %r in %s' % (name, fn.name))
                frame.cell(idx[0]).value = v
            frame.visits = {}
            r = self.exec_fn(fn, None, frame=frame, start_bb=head, stop_bb=head)
        elif from_entry_args is not None:
            for i, a in enumerate(from_entry_args):
                frame.cell(i + 1).value = a
            r = self.exec_fn(fn, None, frame=frame, start_bb=0, stop_bb=head)
        else:
            for name, v in locals_by_name.items():
                idx = fn.debug.get(name)
                if not idx:
                    raise Unmodelled('no source variable %r in %s' % (name, fn.name))
                frame.cell(idx[0]).value = v
            r = self.exec_fn(fn, None, frame=frame, start_bb=head, stop_bb=head)
        if isinstance(r, LoopBack):
            return 'head', {name: frame.cell(idx[0]).value for name, idx in fn.debug.items() if idx[0] in frame.locals}
        return 'return', r

    def exec_fn(self, fn, args, frame=None, start_bb=0, stop_bb=None):
        fn.parse()
        if self.depth > 200:
            raise BoundHit('recursion depth')
        if frame is None:
            frame = Frame(fn)
            for i, a in enumerate(args):
                frame.cell(i + 1).value = a
        self.depth += 1
        self.call_stack.append(fn.name)
        self.fns_entered.add(fn.name)
        try:
            bb = start_bb
            first = True
            while True:
                if stop_bb is not None and bb == stop_bb and not (first and start_bb == stop_bb):
                    return LoopBack()
                first = False
                n = frame.visits.get(bb, 0) + 1
                frame.visits[bb] = n
                if n > self.loop_bound:
                    raise BoundHit('loop bound %d at %s bb%d' % (self.loop_bound, fn.name, bb))
                blk = fn.block(bb)
                for st in blk.stmts:
                    self.stmt(frame, st)
                t = blk.term
                k = t[0]
                if k == 'goto':
                    bb = t[1]
                elif k == 'return':
                    v = frame.cell(0).value
                    if v is None:
                        v = Tup([])
                    return v
                elif k == 'switch':
                    v = self.operand(frame, t[1])
                    if isinstance(v, Enum):
                        v = v.variant
                    nxt = None
                    v = simp(v) if is_z3(v) else v
                    if is_conc(v) or isinstance(v, bool):
                        iv = int(v)
                        for val, target in t[2]:
                            if val == iv:
                                nxt = target
                                break
                        if nxt is None:
                            nxt = t[3]
                    else:
                        for val, target in t[2]:
                            if z3.is_bool(v):
                                c = v if val != 0 else z3.Not(v)
                            else:
                                c = v == val
                            if self.branch(c, 'switch %s bb%d =%d' % (fn.name.split('::')[-1], bb, val)):
                                nxt = target
                                break
                        if nxt is None:
                            nxt = t[3]
                    if nxt is None:
                        raise Unmodelled('switch fell through without otherwise')
                    bb = nxt
                elif k == 'call':
                    dest, callee, aops, ret = t[1], t[2], t[3], t[4]
                    args_v = [self.operand(frame, o) for o in aops]
                    r = self.call(frame, callee, args_v)
                    if ret is None:
                        raise Unmodelled('call to diverging %s returned' % callee)
                    store(self.resolve(frame, dest), r)
                    bb = ret
                elif k == 'drop':
                    bb = t[2]
                    if bb is None:
                        raise Unmodelled('drop without return target')
                elif k == 'assert':
                    c = self.operand(frame, t[1])
                    ok = c if t[2] else b_not(c)
                    if not self.branch(ok, 'assert %s' % t[3][:40]):
                        self.panic('MIR assert failed: ' + t[3])
                    bb = t[5]
                elif k == 'unreachable':
                    self.panic('entered unreachable code')
                elif k == 'resume':
                    raise Unmodelled('resume reached')
                else:
                    raise Unmodelled('terminator %r' % (t,))
        finally:
            self.depth -= 1
            self.call_stack.pop()

    def stmt(self, frame, st):
        k = st[0]
        if k == 'assign':
            v = self.rvalue(frame, st[2])
            store(self.resolve(frame, st[1]), v)
        elif k == 'nop':
            pass
        elif k == 'setdiscr':
            r = self.resolve(frame, st[1])
            v = load(r)
            ty = self.place_type(frame, st[1])
            segs = self.path_segments(ty)
            en = self.prog.src.resolve_enum(segs) if segs else None
            if isinstance(v, Enum):
                vs = self.prog.src.enums[v.ty]
                v.variant = st[2]
                v.vname = vs[st[2]][0]
            elif en in self.prog.src.enums:
                vs = self.prog.src.enums[en]
                store(r, Enum(en, st[2], vs[st[2]][0], []))
            else:
                raise Unmodelled('SetDiscriminant on %r' % ty)
        else:
            raise Unmodelled('statement %r' % (st,))

    # ------------------------------------------------------------------ calls
    def call(self, frame, callee, args):
        self.stats['calls'] += 1
        nc = norm_callee(callee)
        # operand callee (fn pointer / closure value)
        if callee.startswith('move ') or callee.startswith('copy '):
            from .parse import P
            p = P(callee)
            fv = self.operand(frame, p.operand())
            return self.call_value(fv, args)
        for pat, fnc, label in self.stubs:
            if pat.search(nc):
                self.stubs_used.add(label)
                return fnc(self, nc, args)
        f = None
        try:
            f = self.prog.lookup(callee)
        except MirSyntaxError as e:
            raise Unmodelled(str(e))
        if f is not None and not getattr(f, 'is_const', False):
            return self.exec_fn(f, args)
        r = self.lib.call(self, frame, callee, nc, args)
        return r

    def call_value(self, fv, args):
        """call a closure / fn item value with already-unpacked arguments"""
        target = deref_all(fv)
        if isinstance(target, Closure):
            body = self.prog.closure_body(target.cid)
            if body is None:
                raise Unmodelled('closure body for %s' % target.cid)
            body.parse()
            t1 = body.arg_types[0].strip() if body.arg_types else ''
            if t1.startswith('&'):
                selfv = fv if isinstance(fv, Ref) else Ref(Cell(fv, 'closure'))
                while isinstance(load(selfv), Ref):
                    selfv = load(selfv)
            else:
                selfv = target
            return self.exec_fn(body, [selfv] + list(args))
        if isinstance(target, FnItem):
            return self.call_path(target.path, args)
        raise Unmodelled('call of value %r' % (target,))

    def call_path(self, path, args):
        """call a function item by path (constructor or function)"""
        segs = self.path_segments(path)
        src = self.prog.src
        en = src.resolve_enum(segs[:-1], segs[-1]) if len(segs) >= 2 else None
        if en is not None and any(v == segs[-1] for v, _ in src.enums[en]):
            return self.make_variant(en, segs[-1], list(args))
        if segs[-1] in src.structs and not self.prog.lookup(path):
            return Struct(segs[-1], list(args))
        return self.call(None, path, list(args))


EXTERNAL_STRUCTS = {
    'Range': ['start', 'end'],
    'RangeFrom': ['start'],
    'RangeTo': ['end'],
    'RangeInclusive': ['start', 'end', 'exhausted'],
    'PhantomData': [],
}
