"""debug CLI: python -m mirsym.run <harness module> [name filter] [-v]"""
import sys as _sys
if hasattr(_sys, 'set_int_max_str_digits'):
    _sys.set_int_max_str_digits(0)      # exact fractions with thousands of digits are ordinary here

import sys, os, time, importlib
sys.path.insert(0, os.path.dirname(os.path.dirname(os.path.abspath(__file__))))
from mirsym.program import Program
from mirsym.driver import explore


def load_program(mir=None, crate='/repo/core', ws='/repo'):
    if mir is None:
        from checker import build
        mir, _ = build.core_mir()
    return Program(open(mir).read(), crate, ws)


if __name__ == '__main__':
    mod = importlib.import_module(sys.argv[1])
    flt = sys.argv[2] if len(sys.argv) > 2 and not sys.argv[2].startswith('-') else ''
    verbose = '-v' in sys.argv
    t0 = time.time()
    prog = load_program()
    print('program loaded in %.2fs' % (time.time() - t0))
    tier = 'thorough' if '--thorough' in sys.argv else 'quick'
    for h in mod.harnesses(tier):
        if flt and flt not in h.name:
            continue
        res = explore(prog, h, verbose=verbose)
        print('%-40s paths=%d queries=%d solver=%.0fms wall=%.1fs classes=%s' % (
            h.name, len(res.paths), res.queries, res.solver_ms, res.wall, res.outcome_classes))
        for e in res.errors[:10]:
            print('   ERROR', e[:1500])
        for b in res.bound_hits[:3]:
            print('   BOUND', b)
        for label, case in res.violations[:10]:
            print('   VIOLATION', label, case['inputs'])
