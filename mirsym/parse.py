"""Parser for rustc's textual MIR (-Zunpretty=mir), pinned to the installed nightly.

Functions are split eagerly (cheap, regex) and their bodies parsed lazily on first use.
Anything the parser does not understand raises MirSyntaxError - never skipped.
"""
import re


class MirSyntaxError(Exception):
    pass


# --------------------------------------------------------------------------- low-level scanning

OPEN = '([{<'
CLOSE = ')]}>'
MATCH = {')': '(', ']': '[', '}': '{', '>': '<'}


def skip_string(s, i):
    """s[i] == '"' ; return index after the closing quote"""
    j = i + 1
    n = len(s)
    while j < n:
        c = s[j]
        if c == '\\':
            j += 2
            continue
        if c == '"':
            return j + 1
        j += 1
    raise MirSyntaxError('unterminated string in: ' + s)


_CHAR_RE = re.compile(r"'(?:\\u\{[0-9a-fA-F]+\}|\\x[0-9a-fA-F]{2}|\\.|[^'\\])'")


def skip_char(s, i):
    """s[i]=="'"; if a char literal starts here return end index, else None (lifetime)"""
    m = _CHAR_RE.match(s, i)
    if m:
        return m.end()
    return None


def scan_balanced(s, i, stops, angle=True):
    """Scan from i until one of the `stops` substrings appears at nesting depth 0.
    Returns (index_of_stop, stop) or (len(s), None)."""
    depth = 0
    n = len(s)
    while i < n:
        c = s[i]
        if c == '"':
            i = skip_string(s, i)
            continue
        if c == "'":
            e = skip_char(s, i)
            if e:
                i = e
                continue
            i += 1
            continue
        if depth == 0:
            for st in stops:
                if s.startswith(st, i):
                    return i, st
        if c == '-' and s.startswith('->', i):
            i += 2
            continue
        if c == '=' and s.startswith('=>', i):
            i += 2
            continue
        if c in '([{' or (angle and c == '<'):
            depth += 1
        elif c in ')]}' or (angle and c == '>'):
            depth -= 1
            if depth < 0:
                return i, None
        i += 1
    return n, None


def split_top(s, sep=','):
    """split on sep at depth 0 (strings/chars/brackets aware); trims parts; drops empty tail"""
    parts = []
    i = 0
    start = 0
    n = len(s)
    depth = 0
    while i < n:
        c = s[i]
        if c == '"':
            i = skip_string(s, i)
            continue
        if c == "'":
            e = skip_char(s, i)
            if e:
                i = e
                continue
            i += 1
            continue
        if c == '-' and s.startswith('->', i):
            i += 2
            continue
        if c in '([{<':
            depth += 1
        elif c in ')]}>':
            depth -= 1
        elif depth == 0 and s.startswith(sep, i):
            parts.append(s[start:i].strip())
            i += len(sep)
            start = i
            continue
        i += 1
    tail = s[start:].strip()
    if tail:
        parts.append(tail)
    return parts


# --------------------------------------------------------------------------- places / operands

class P:
    """cursor parser over one statement"""

    def __init__(self, s):
        self.s = s
        self.i = 0

    def peek(self, t):
        return self.s.startswith(t, self.i)

    def eat(self, t):
        if self.s.startswith(t, self.i):
            self.i += len(t)
            return True
        return False

    def expect(self, t):
        if not self.eat(t):
            raise MirSyntaxError('expected %r at %d in %r' % (t, self.i, self.s))

    def rest(self):
        return self.s[self.i:]

    def done(self):
        return self.i >= len(self.s)

    def number(self):
        m = re.compile(r'-?\d+').match(self.s, self.i)
        if not m:
            raise MirSyntaxError('expected number at %d in %r' % (self.i, self.s))
        self.i = m.end()
        return int(m.group())

    def type_until(self, stops):
        j, st = scan_balanced(self.s, self.i, stops)
        t = self.s[self.i:j].strip()
        self.i = j
        return t

    # place := _N | (*place) | (place.N: T) | (place as V) | place[..]
    def place(self):
        if self.eat('('):
            if self.eat('*'):
                loc, proj = self.place()
                self.expect(')')
                proj = proj + [('deref',)]
            else:
                loc, proj = self.place()
                if self.eat(' as '):
                    name = self.type_until([')'])
                    self.expect(')')
                    proj = proj + [('downcast', name)]
                elif self.eat('.'):
                    idx = self.number()
                    self.expect(': ')
                    ty = self.type_until([')'])
                    self.expect(')')
                    proj = proj + [('field', idx, ty)]
                else:
                    raise MirSyntaxError('bad place at %d in %r' % (self.i, self.s))
        else:
            self.expect('_')
            loc = self.number()
            proj = []
        while self.peek('['):
            self.i += 1
            if self.peek('_'):
                self.i += 1
                k = self.number()
                self.expect(']')
                proj = proj + [('index', k)]
            else:
                inner = self.type_until([']'])
                self.expect(']')
                m = re.match(r'^(-?\d+) of (\d+)$', inner)
                if m:
                    v = int(m.group(1))
                    proj = proj + [('constindex', v, inner.startswith('-'), int(m.group(2)))]
                else:
                    m = re.match(r'^(\d+):(-?\d*)$', inner)
                    if not m:
                        raise MirSyntaxError('bad index %r in %r' % (inner, self.s))
                    proj = proj + [('subslice', int(m.group(1)), m.group(2))]
        return loc, proj

    def operand(self):
        if self.eat('const '):
            return self.const()
        if self.eat('no_retag copy ') or self.eat('copy '):
            return ('copy', self.place())
        if self.eat('move '):
            return ('move', self.place())
        # a bare function item / constructor used as a value (e.g. `Value::Number` passed to map)
        if re.match(r'[A-Za-z<]', self.s[self.i:self.i + 1] or ' '):
            j, st = scan_balanced(self.s, self.i, [', ', ')', ']', ';'])
            text = self.s[self.i:j].strip()
            self.i = j
            return ('fnitem', text)
        raise MirSyntaxError('expected operand at %d in %r' % (self.i, self.s))

    def const(self):
        # the literal runs to a top-level ',' / ')' / ']' / ';' / ' as ' or end
        j, st = scan_balanced(self.s, self.i, [', ', ')', ']', ';', ' as ', ' }'], angle=True)
        text = self.s[self.i:j].strip()
        self.i = j
        return ('const', text)


BINOPS = ['AddWithOverflow', 'SubWithOverflow', 'MulWithOverflow', 'AddUnchecked', 'SubUnchecked',
          'MulUnchecked', 'ShlUnchecked', 'ShrUnchecked', 'Add', 'Sub', 'Mul', 'Div', 'Rem', 'BitXor',
          'BitAnd', 'BitOr', 'Shl', 'Shr', 'Eq', 'Lt', 'Le', 'Ne', 'Ge', 'Gt', 'Cmp', 'Offset']
UNOPS = ['Not', 'Neg', 'PtrMetadata']


def parse_operand_list(text):
    out = []
    for part in split_top(text):
        p = P(part)
        op = p.operand()
        if not p.done():
            raise MirSyntaxError('trailing operand text %r' % part)
        out.append(op)
    return out


def parse_rvalue(text):
    p = P(text)
    if p.peek('const ') or p.peek('copy ') or p.peek('move ') or p.peek('no_retag copy '):
        op = p.operand()
        if p.done():
            return ('use', op)
        if p.eat(' as '):
            rest = p.rest()
            m = re.match(r'^(.*) \((\w+(?:\(.*\))?)\)$', rest)
            if not m:
                raise MirSyntaxError('bad cast %r' % text)
            return ('cast', op, m.group(1).strip(), m.group(2))
        raise MirSyntaxError('bad rvalue %r' % text)
    for pre, kind in (('&raw const ', 'rawconst'), ('&raw mut ', 'rawmut'), ('&mut ', 'mut'),
                      ('&fake shallow ', 'shared'), ('&', 'shared')):
        if p.eat(pre):
            pl = p.place()
            if not p.done():
                raise MirSyntaxError('bad ref rvalue %r' % text)
            return ('ref', kind, pl)
    if p.eat('discriminant('):
        pl = p.place()
        p.expect(')')
        return ('discriminant', pl)
    if p.eat('Len('):
        pl = p.place()
        p.expect(')')
        return ('len', pl)
    if p.eat('CopyForDeref('):
        pl = p.place()
        p.expect(')')
        return ('use', ('copy', pl))
    if p.eat('ShallowInitBox('):
        inner = text[len('ShallowInitBox('):-1]
        parts = split_top(inner)
        return ('shallowbox', parse_operand_list(parts[0])[0], parts[1])
    for u in UNOPS:
        if p.eat(u + '('):
            op = p.operand()
            p.expect(')')
            return ('unop', u, op)
    for b in BINOPS:
        if p.eat(b + '('):
            a = p.operand()
            p.expect(', ')
            c = p.operand()
            p.expect(')')
            return ('binop', b, a, c)
    if text.startswith('('):
        # tuple aggregate
        if not text.endswith(')'):
            raise MirSyntaxError('bad tuple %r' % text)
        return ('tuple', parse_operand_list(text[1:-1]))
    if text.startswith('['):
        inner = text[1:-1]
        parts = split_top(inner, ';')
        if len(parts) == 2:
            return ('repeat', parse_operand_list(parts[0])[0], parts[1].strip())
        return ('array', parse_operand_list(inner))
    if text.startswith('{closure@') or text.startswith('{coroutine@'):
        j, st = scan_balanced(text, 1, ['}'], angle=False)
        cid = text[:j + 1]
        rest = text[j + 1:].strip()
        caps = []
        if rest:
            if not (rest.startswith('{') and rest.endswith('}')):
                raise MirSyntaxError('bad closure aggregate %r' % text)
            for part in split_top(rest[1:-1]):
                k, _, v = part.partition(': ')
                caps.append((k.strip(), parse_operand_list(v)[0]))
        return ('closure', cid, caps)
    # path aggregate:  Path { f: op, .. } | Path(op, ..) | Path
    j, st = scan_balanced(text, 0, [' {', '('])
    if st == ' {':
        path = text[:j]
        body = text[j + 2:].rstrip()
        if not body.endswith('}'):
            raise MirSyntaxError('bad struct aggregate %r' % text)
        fields = []
        for part in split_top(body[:-1]):
            k, _, v = part.partition(': ')
            fields.append((k.strip(), parse_operand_list(v)[0]))
        return ('adt_named', path, fields)
    if st == '(':
        path = text[:j]
        if not text.endswith(')'):
            raise MirSyntaxError('bad adt aggregate %r' % text)
        return ('adt_pos', path, parse_operand_list(text[j + 1:-1]))
    return ('adt_pos', text, [])


# --------------------------------------------------------------------------- statements / terminators

_TARGETS_RE = re.compile(r'\[(.*)\]$')


def parse_targets(t):
    """'[return: bb1, unwind continue]' -> dict"""
    m = _TARGETS_RE.match(t.strip())
    d = {}
    if not m:
        t = t.strip()
        if t.startswith('bb'):
            d['return'] = int(t[2:])
            return d
        if t.startswith('unwind'):
            return d
        raise MirSyntaxError('bad targets %r' % t)
    for part in m.group(1).split(', '):
        part = part.strip()
        if ': ' in part:
            k, v = part.split(': ', 1)
            if v.startswith('bb'):
                d[k] = int(v[2:])
            else:
                d[k] = v
        # 'unwind continue' etc ignored
    return d


def find_arrow(s):
    """index of the top-level ' -> ' that introduces targets (last one at depth 0), or -1"""
    i = 0
    n = len(s)
    depth = 0
    last = -1
    while i < n:
        c = s[i]
        if c == '"':
            i = skip_string(s, i)
            continue
        if c == "'":
            e = skip_char(s, i)
            if e:
                i = e
                continue
            i += 1
            continue
        if depth == 0 and s.startswith(' -> ', i):
            last = i
            i += 4
            continue
        if c == '-' and s.startswith('->', i):
            i += 2
            continue
        if c in '([{<':
            depth += 1
        elif c in ')]}>':
            depth -= 1
        i += 1
    return last


def last_paren_group(s):
    """s ends with ')': return index of its matching '(' """
    # forward scan recording positions of depth-0 '(' (angle-aware, string-aware)
    i = 0
    n = len(s)
    stack = []
    last_open = -1
    while i < n:
        c = s[i]
        if c == '"':
            i = skip_string(s, i)
            continue
        if c == "'":
            e = skip_char(s, i)
            if e:
                i = e
                continue
            i += 1
            continue
        if c == '-' and s.startswith('->', i):
            i += 2
            continue
        if c in '([{<':
            if c == '(' and not stack:
                last_open = i
            stack.append(c)
        elif c in ')]}>':
            if stack:
                stack.pop()
        i += 1
    return last_open


def parse_line(line):
    """one statement or terminator (without trailing ';')"""
    s = line
    if s in ('return', 'unreachable', 'resume', 'nop'):
        return (s,)
    if s.startswith('goto -> bb'):
        return ('goto', int(s[len('goto -> bb'):]))
    if s.startswith('switchInt('):
        a = find_arrow(s)
        p = P(s[len('switchInt('):a - 1])
        op = p.operand()
        tg = _TARGETS_RE.match(s[a + 4:].strip()).group(1)
        cases = []
        otherwise = None
        for part in tg.split(', '):
            k, v = part.split(': ')
            if k == 'otherwise':
                otherwise = int(v[2:])
            else:
                cases.append((int(k), int(v[2:])))
        return ('switch', op, cases, otherwise)
    if s.startswith('drop('):
        a = find_arrow(s)
        p = P(s[len('drop('):a - 1])
        pl = p.place()
        return ('drop', pl, parse_targets(s[a + 4:]).get('return'))
    if s.startswith('assert('):
        a = find_arrow(s)
        inner = s[len('assert('):a - 1]
        parts = split_top(inner)
        c = parts[0]
        expected = True
        if c.startswith('!'):
            expected = False
            c = c[1:]
        cond = parse_operand_list(c)[0]
        msg = parts[1] if len(parts) > 1 else ''
        ops = []
        for x in parts[2:]:
            try:
                ops.append(parse_operand_list(x)[0])
            except MirSyntaxError:
                ops.append(('const', x))
        return ('assert', cond, expected, msg, ops, parse_targets(s[a + 4:]).get('success'))
    for kw in ('StorageLive(', 'StorageDead(', 'FakeRead(', 'PlaceMention(', 'AscribeUserType(',
               'Coverage::', 'Retag(', 'ConstEvalCounter', 'BackwardIncompatibleDropHint('):
        if s.startswith(kw):
            return ('nop',)
    if s.startswith('Deinit('):
        return ('nop',)
    if s.startswith('assume('):
        return ('nop',)
    if s.startswith('discriminant('):
        m = re.match(r'^discriminant\((.*)\) = (\d+)$', s)
        p = P(m.group(1))
        return ('setdiscr', p.place(), int(m.group(2)))
    # assignment or call
    eq = s.find(' = ')
    if eq < 0:
        # call with no destination?  e.g. diverging:  `_5 = foo() -> unwind continue` always has dest
        raise MirSyntaxError('unrecognised statement %r' % s)
    p = P(s[:eq])
    dest = p.place()
    if not p.done():
        raise MirSyntaxError('bad destination in %r' % s)
    rhs = s[eq + 3:]
    a = find_arrow(rhs)
    if a >= 0 and (rhs[a + 4:].startswith('[') or rhs[a + 4:].startswith('bb') or rhs[a + 4:].startswith('unwind')):
        callexpr = rhs[:a]
        if callexpr.endswith(')'):
            o = last_paren_group(callexpr)
            callee = callexpr[:o]
            args = parse_operand_list(callexpr[o + 1:-1])
            return ('call', dest, callee, args, parse_targets(rhs[a + 4:]).get('return'))
    return ('assign', dest, parse_rvalue(rhs))


# --------------------------------------------------------------------------- functions

class Block:
    __slots__ = ('stmts', 'term', 'cleanup', 'raw')

    def __init__(self):
        self.stmts = []
        self.term = None
        self.cleanup = False
        self.raw = []


class Fn:
    def __init__(self, name, header, lines, lineno):
        self.name = name
        self.header = header
        self.lines = lines
        self.lineno = lineno
        self._parsed = False
        self.nargs = 0
        self.local_types = {}
        self.blocks = {}
        self.arg_types = []
        self.ret_type = None
        self.debug = {}          # source variable name -> [local indices] in declaration order

    def loop_heads(self):
        """blocks that are the target of a back edge (`goto -> bbK` from a block numbered >= K), non-cleanup"""
        self.parse()
        heads = set()
        for i, b in self.blocks.items():
            if b.cleanup:
                continue
            for t in b.raw[-1:]:
                m = re.match(r'^goto -> bb(\d+);$', t)
                if m and int(m.group(1)) <= i:
                    heads.add(int(m.group(1)))
        return sorted(heads)

    def loop_assigned(self, head):
        """source-level variables assigned in the blocks of the loop with head `head` (blocks from which the head is
        reachable again): what a specification of the loop state has to cover"""
        self.parse()
        succ = {}
        for i, b in self.blocks.items():
            if b.cleanup or not b.raw:
                continue
            t = b.raw[-1]
            tail = t.split('->', 1)[1] if '->' in t else ''
            tail = re.sub(r'unwind: bb\d+', '', tail)
            ts = set(int(x) for x in re.findall(r'bb(\d+)', tail))
            succ[i] = ts
        # forward reachability from head, then keep blocks that can reach head
        fwd, todo = set(), [head]
        while todo:
            x = todo.pop()
            if x in fwd:
                continue
            fwd.add(x)
            todo.extend(succ.get(x, ()))
        can = {head}
        changed = True
        while changed:
            changed = False
            for x in fwd:
                if x not in can and succ.get(x, set()) & can:
                    can.add(x)
                    changed = True
        body = fwd & can
        assigned = set()
        for x in body:
            for t in self.blocks[x].raw:
                m = re.match(r'^_(\d+) = ', t)
                if m:
                    assigned.add(int(m.group(1)))
                for m in re.finditer(r'&mut _(\d+)\b', t):
                    assigned.add(int(m.group(1)))
        names = set()
        for name, idxs in self.debug.items():
            if idxs[0] in assigned:
                names.add(name)
        return names

    def parse(self):
        if self._parsed:
            return self
        h = self.header
        # fn NAME(ARGS) -> RET {      |  const NAME: T = {  | static NAME: T = {
        if h.startswith('fn '):
            o = self._args_open(h)
            j, _ = scan_balanced(h, o + 1, [')'])
            args = split_top(h[o + 1:j])
            self.nargs = len(args)
            for a in args:
                m = re.match(r'^_(\d+): (.*)$', a)
                if not m:
                    raise MirSyntaxError('bad arg %r in %r' % (a, h))
                self.local_types[int(m.group(1))] = m.group(2)
                self.arg_types.append(m.group(2))
            r = h[j + 1:].strip()
            if r.startswith('->'):
                self.ret_type = r[2:].rstrip('{').strip()
            else:
                self.ret_type = '()'
        cur = None
        let_re = re.compile(r'^let (?:mut )?_(\d+): (.*);$')
        dbg_re = re.compile(r'^debug ([A-Za-z_][A-Za-z_0-9]*) => _(\d+);$')
        bb_re = re.compile(r'^bb(\d+)( \(cleanup\))?: \{$')
        for ln in self.lines:
            t = ln.strip()
            if not t or t.startswith('//'):
                continue
            if cur is None:
                m = bb_re.match(t)
                if m:
                    cur = Block()
                    cur.cleanup = bool(m.group(2))
                    self.blocks[int(m.group(1))] = cur
                    continue
                m = let_re.match(t)
                if m:
                    self.local_types[int(m.group(1))] = m.group(2)
                    continue
                m = dbg_re.match(t)
                if m:
                    self.debug.setdefault(m.group(1), []).append(int(m.group(2)))
                continue
            if t == '}':
                cur = None
                continue
            cur.raw.append(t)
        self._parsed = True
        return self

    @staticmethod
    def _args_open(h):
        # the '(' that opens the argument list is the one followed by '_1: ' or ')' at depth 0
        # name may contain '<impl at a.rs:1:1: 2:2>' and '{closure#0}'
        depth = 0
        i = 3
        n = len(h)
        while i < n:
            c = h[i]
            if c in '<{[':
                depth += 1
            elif c in '>}]':
                depth -= 1
            elif c == '(' and depth == 0:
                return i
            i += 1
        raise MirSyntaxError('no arg list in %r' % h)

    def block(self, k):
        b = self.blocks[k]
        if b.term is None and b.raw:
            stmts = []
            for t in b.raw:
                if not t.endswith(';'):
                    raise MirSyntaxError('statement without ; : %r in %s' % (t, self.name))
                stmts.append(parse_line(t[:-1]))
            b.term = stmts[-1]
            b.stmts = stmts[:-1]
        return b


_FN_RE = re.compile(r'^(fn |const |static |static mut )')


def parse_mir(text):
    """-> dict name -> Fn (bodies unparsed), list of all Fn"""
    fns = {}
    order = []
    lines = text.split('\n')
    i = 0
    n = len(lines)
    while i < n:
        ln = lines[i]
        if ln and not ln[0].isspace() and ln.endswith('{') and _FN_RE.match(ln):
            start = i
            i += 1
            body = []
            while i < n and lines[i] != '}':
                body.append(lines[i])
                i += 1
            h = ln
            if h.startswith('fn '):
                o = Fn._args_open(h)
                name = h[3:o]
            else:
                hh = re.sub(r'^(?:const|static mut|static) ', '', h)
                j, st = scan_balanced(hh, 0, [': '])
                name = hh[:j]
            f = Fn(name, h, body, start + 1)
            fns.setdefault(name, f)
            order.append(f)
        elif ln.startswith('const ') and ln.endswith(';'):
            # one-line form of a trivially evaluated constant: `const NAME: T = const VALUE;`
            m = re.match(r'^const (\S+): (.+?) = (const .+);$', ln)
            if m:
                h = 'const %s: %s = {' % (m.group(1), m.group(2))
                body = ['    let mut _0: %s;' % m.group(2), '    bb0: {', '        _0 = %s;' % m.group(3), '        return;', '    }']
                f = Fn(m.group(1), h, body, i + 1)
                fns.setdefault(m.group(1), f)
                order.append(f)
        i += 1
    return fns, order


if __name__ == '__main__':
    import sys, time
    t0 = time.time()
    fns, order = parse_mir(open(sys.argv[1]).read())
    print(len(order), 'bodies split in %.2fs' % (time.time() - t0))
    bad = 0
    nst = 0
    for f in order:
        try:
            f.parse()
            for k in f.blocks:
                b = f.block(k)
                nst += len(b.stmts) + 1
        except Exception as e:
            bad += 1
            if bad < 40:
                print('ERR', f.name[:80], '::', repr(e)[:300])
    print('statements', nst, 'bad fns', bad, 'in %.2fs' % (time.time() - t0))
