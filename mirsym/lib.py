"""Library-model table: contracts of std / num-bigint / num-rational / chrono items reached from rink code.

Every model is registered with a regex on the *normalised* callee (module prefixes, lifetimes and
turbofish removed; num_bigint::BigInt -> NumInt, Ratio<NumInt> -> NumRat).  Anything not matched
raises Unmodelled (exit 2), never a silent skip.
"""
import re
from fractions import Fraction

import z3

from .values import *  # noqa
from .program import norm_type, strip_generics, _LIFETIME

MODELS = []


def model(pattern):
    def deco(f):
        MODELS.append((re.compile(pattern), f, f.__name__))
        return f
    return deco


def some(ex, v):
    return Enum('Option', 1, 'Some', [v])


def none(ex):
    return Enum('Option', 0, 'None', [])


def ok(v):
    return Enum('Result', 0, 'Ok', [v])


def err(v):
    return Enum('Result', 1, 'Err', [v])


def ordering(name):
    return Enum('Ordering', {'Less': 0, 'Equal': 1, 'Greater': 2}[name], name, [])


def val(v):
    """strip references"""
    return deref_all(v)


def force(ex, x):
    """assert the deferred defining facts of a numer()/denom() variable before it is inspected"""
    if is_z3(x):
        cons = ex.memo.pop(('deferred', x.get_id()), None)
        if cons is not None:
            for k in list(ex.memo):
                if isinstance(k, tuple) and k[0] == 'deferred' and ex.memo[k] is cons:
                    del ex.memo[k]
            for c in cons:
                ex.assume(c)
    return x


def nv(ex, a):
    return force(ex, deref_all(a))


def freeze(v):
    v = deref_all(v)
    if isinstance(v, (str, int, bool, Fraction)):
        return v
    if isinstance(v, Struct):
        fs = tuple(freeze(f) for f in v.fields)
        if len(fs) == 1 and isinstance(fs[0], str):
            return fs[0]          # string newtypes (BaseUnit) borrow as str: same key
        return fs
    if isinstance(v, Tup):
        return tuple(freeze(f) for f in v.fields)
    if isinstance(v, Enum):
        return (v.variant,) + tuple(freeze(f) for f in v.fields)
    if isinstance(v, MapV):
        items = []
        for k in sorted(v.ent):
            kv, p, val_ = v.ent[k]
            p = simp(p) if is_z3(p) else p
            if p is True:
                items.append((k, freeze(simp(val_) if is_z3(val_) else val_)))
            elif p is not False:
                raise Unmodelled('container key with symbolic presence %r' % (v,))
        return ('map',) + tuple(items)
    raise Unmodelled('non-concrete container key %r' % (v,))


# ============================================================================= containers

class MapV:
    """BTreeMap<K,V> / BTreeSet<K>: ordered association over concrete keys, symbolic presence"""
    is_model = True

    def __init__(self):
        self.ent = {}   # frozen key -> [key value, presence, value]

    def dup(self):
        m = MapV()
        for k, (kv, p, v) in self.ent.items():
            m.ent[k] = [dup(kv), p, dup(v)]
        return m

    def keys(self):
        return sorted(self.ent.keys())

    def get_child(self, k):
        kind, fk = k
        e = self.ent[fk]
        return e[0] if kind == 'k' else e[2]

    def set_child(self, k, v):
        kind, fk = k
        if kind == 'k':
            self.ent[fk][0] = v
        else:
            self.ent[fk][2] = v

    def count(self):
        n = 0
        for k, (kv, p, v) in self.ent.items():
            n = n_add(n, b_ite(p, 1, 0)) if not isinstance(p, bool) else n_add(n, 1 if p else 0)
        return n

    def __repr__(self):
        return 'Map{%s}' % ', '.join('%r?%s:%r' % (k, p, v) for k, (kv, p, v) in sorted(self.ent.items()))


class VecIter:
    """by-value or by-ref iteration over a list of items"""
    is_model = True

    def __init__(self, items):
        self.items = list(items)
        self.pos = 0
        self.end = len(self.items)

    def dup(self):
        it = VecIter(self.items)
        it.pos = self.pos
        it.end = self.end
        return it

    def next(self, ex):
        if self.pos < self.end:
            v = self.items[self.pos]
            self.pos += 1
            return some(ex, v)
        return none(ex)

    def next_back(self, ex):
        if self.pos < self.end:
            self.end -= 1
            return some(ex, self.items[self.end])
        return none(ex)


class MapIter:
    is_model = True

    def __init__(self, mapref, kind):
        self.mapref = mapref
        self.kind = kind
        m = load(mapref) if isinstance(mapref, Ref) else mapref
        self.m = m
        self.keys = m.keys()
        self.pos = 0

    def dup(self):
        it = MapIter(self.mapref, self.kind)
        it.keys = list(self.keys)
        it.pos = self.pos
        return it

    def item(self, fk):
        kv, p, v = self.m.ent[fk]
        if self.kind == 'into':
            return Tup([kv, v])
        base = self.mapref
        kr = Ref(base.cell, base.path + (('k', fk),))
        vr = Ref(base.cell, base.path + (('v', fk),))
        if self.kind in ('iter', 'iter_mut'):
            return Tup([kr, vr])
        if self.kind == 'values':
            return vr
        if self.kind == 'keys':
            return kr
        if self.kind == 'into_keys':
            return kv
        if self.kind == 'into_values':
            return v
        raise Unmodelled('map iter kind ' + self.kind)

    def next(self, ex):
        while self.pos < len(self.keys):
            fk = self.keys[self.pos]
            self.pos += 1
            if fk not in self.m.ent:
                continue
            p = self.m.ent[fk][1]
            if ex.branch(p, 'map has %r' % (fk,)):
                return some(ex, self.item(fk))
        return none(ex)


class MapAdapter:
    is_model = True

    def __init__(self, inner, f):
        self.inner = inner
        self.f = f

    def dup(self):
        return MapAdapter(dup(self.inner), self.f)

    def next(self, ex):
        r = iter_next(ex, self.inner)
        if r.variant == 0:
            return r
        return some(ex, ex.call_value(self.f, [r.fields[0]]))


class FilterAdapter:
    is_model = True

    def __init__(self, inner, f, mapper=False):
        self.inner = inner
        self.f = f
        self.mapper = mapper

    def dup(self):
        return FilterAdapter(dup(self.inner), self.f, self.mapper)

    def next(self, ex):
        while True:
            r = iter_next(ex, self.inner)
            if r.variant == 0:
                return r
            if self.mapper:
                o = ex.call_value(self.f, [r.fields[0]])
                if o.variant == 1:
                    return o
            else:
                item = r.fields[0]
                keep = ex.call_value(self.f, [Ref(Cell(item, 'tmp'))])
                if ex.branch(keep, 'filter'):
                    return some(ex, item)


class PeekableV:
    is_model = True

    def __init__(self, inner):
        self.inner = inner
        self.peeked = None   # None = nothing buffered ; else Cell(Option<Item>)

    def dup(self):
        p = PeekableV(dup(self.inner))
        if self.peeked is not None:
            p.peeked = Cell(dup(self.peeked.value), 'peek')
        return p

    def next(self, ex):
        if self.peeked is not None:
            r = self.peeked.value
            self.peeked = None
            return r
        return iter_next(ex, self.inner)

    def peek(self, ex):
        if self.peeked is None:
            self.peeked = Cell(iter_next(ex, self.inner), 'peek')
        o = self.peeked.value
        if o.variant == 0:
            return none(ex)
        return some(ex, Ref(self.peeked, (0,)))


class SimpleAdapter:
    """cloned / copied / rev / enumerate / skip / take / chain / zip"""
    is_model = True

    def __init__(self, kind, inner, extra=None):
        self.kind = kind
        self.inner = inner
        self.extra = extra
        self.n = 0

    def dup(self):
        a = SimpleAdapter(self.kind, dup(self.inner), dup(self.extra))
        a.n = self.n
        return a

    def next(self, ex):
        k = self.kind
        if k in ('cloned', 'copied'):
            r = iter_next(ex, self.inner)
            if r.variant == 0:
                return r
            return some(ex, clone_one_level(ex, r.fields[0]))
        if k == 'rev':
            it = val(self.inner)
            if hasattr(it, 'next_back'):
                return it.next_back(ex)
            raise Unmodelled('rev over %r' % it)
        if k == 'enumerate':
            r = iter_next(ex, self.inner)
            if r.variant == 0:
                return r
            i = self.n
            self.n += 1
            return some(ex, Tup([i, r.fields[0]]))
        if k == 'skip':
            while self.n < self.extra:
                self.n += 1
                r = iter_next(ex, self.inner)
                if r.variant == 0:
                    return r
            return iter_next(ex, self.inner)
        if k == 'take':
            if self.n >= self.extra:
                return none(ex)
            self.n += 1
            return iter_next(ex, self.inner)
        if k == 'chain':
            if self.n == 0:
                r = iter_next(ex, self.inner)
                if r.variant == 1:
                    return r
                self.n = 1
            return iter_next(ex, self.extra)
        if k == 'zip':
            a = iter_next(ex, self.inner)
            if a.variant == 0:
                return a
            b = iter_next(ex, self.extra)
            if b.variant == 0:
                return b
            return some(ex, Tup([a.fields[0], b.fields[0]]))
        raise Unmodelled('adapter ' + k)


class RangeIter:
    is_model = True

    def __init__(self, lo, hi, inclusive):
        self.lo = lo
        self.hi = hi
        self.inclusive = inclusive

    def dup(self):
        return RangeIter(self.lo, self.hi, self.inclusive)

    def next(self, ex):
        c = n_le(self.lo, self.hi) if self.inclusive else n_lt(self.lo, self.hi)
        if ex.branch(c, 'range has next'):
            v = self.lo
            self.lo = n_add(self.lo, 1)
            return some(ex, v)
        return none(ex)


def iter_next(ex, it):
    it0 = it
    it = val(it)
    if hasattr(it, 'next'):
        return it.next(ex)
    if isinstance(it, Struct) and it.name in ('Range',):
        lo, hi = it.fields
        if ex.branch(n_lt(lo, hi), 'range has next'):
            it.fields[0] = n_add(lo, 1)
            return some(ex, lo)
        return none(ex)
    if isinstance(it, Struct) and it.name == 'RangeInclusive':
        lo, hi = it.fields[0], it.fields[1]
        exhausted = it.fields[2] if len(it.fields) > 2 and it.fields[2] is not None else False
        if exhausted:
            return none(ex)
        if ex.branch(n_lt(lo, hi), 'range_incl lo<hi'):
            it.fields[0] = n_add(lo, 1)
            return some(ex, lo)
        if ex.branch(n_eq(lo, hi), 'range_incl lo==hi'):
            while len(it.fields) < 3:
                it.fields.append(None)
            it.fields[2] = True
            return some(ex, lo)
        return none(ex)
    if isinstance(it, Struct):
        # a rink type implementing Iterator
        f = ex.prog.lookup('<%s%s as Iterator>::next' % ((it.mod + '::') if it.mod else '', it.name))
        if f is not None:
            r = it0 if isinstance(it0, Ref) else Ref(Cell(it, 'iter'))
            return ex.exec_fn(f, [r])
    raise Unmodelled('Iterator::next on %r' % (it,))


def into_iter_value(ex, v):
    """IntoIterator::into_iter by value/ref"""
    t = val(v)
    if hasattr(t, 'next'):
        return v if not isinstance(v, Ref) else t
    if isinstance(t, MapV):
        if isinstance(v, Ref):
            return MapIter(v, 'iter')
        return MapIter(Ref(Cell(t, 'map')), 'into')
    if isinstance(t, Arr):
        if isinstance(v, Ref):
            return VecIter([Ref(v.cell, v.path + (i,)) for i in range(len(t.fields))])
        return VecIter(t.fields)
    if isinstance(t, Struct) and t.name in ('Range', 'RangeInclusive'):
        return t
    if isinstance(t, Enum) and t.ty == 'Option':
        return VecIter(t.fields[:1] if t.variant == 1 else [])
    if isinstance(t, Struct):
        q = ((t.mod + '::') if t.mod else '') + t.name
        f = ex.prog.lookup('<%s as IntoIterator>::into_iter' % q)
        if f is not None:
            return ex.exec_fn(f, [t])
        f = ex.prog.lookup('<%s as Iterator>::next' % q)
        if f is not None:
            return v
    raise Unmodelled('into_iter of %r' % (t,))


# ============================================================================= generic traits

def clone_value(ex, v):
    t = val(v)
    if isinstance(t, (Struct, Enum)):
        name = t.name if isinstance(t, Struct) else t.ty
        f = None
        try:
            f = ex.prog.lookup('<%s as Clone>::clone' % name)
        except Exception:
            f = None
        if f is not None:
            r = v if isinstance(v, Ref) else Ref(Cell(t, 'tmp'))
            while isinstance(load(r), Ref):
                r = load(r)
            return ex.exec_fn(f, [r])
    if isinstance(v, Ref) and isinstance(t, Ref):
        return t
    return dup(t)


def clone_one_level(ex, v):
    """Clone::clone(&T) where T may itself be a reference: &&U -> &U (shared), &U -> U (cloned)"""
    if isinstance(v, Ref):
        inner = load(v)
        if isinstance(inner, Ref):
            return inner
    return clone_value(ex, v)


def values_eq(ex, x, y):
    x = force(ex, val(x))
    y = force(ex, val(y))
    if isinstance(x, F64) or isinstance(y, F64):
        return float_cmp(ex, 'Eq', x, y)
    if is_conc(x) or is_z3(x) or is_conc(y) or is_z3(y):
        if isinstance(x, (Struct, Enum, Tup, Arr, str)) or isinstance(y, (Struct, Enum, Tup, Arr, str)):
            raise Unmodelled('eq between %r and %r' % (x, y))
        return n_eq(x, y)
    if isinstance(x, str) and isinstance(y, str):
        return x == y
    if isinstance(x, SymStr) or isinstance(y, SymStr):
        return symstr_eq(x, y)
    if isinstance(x, Opaque) or isinstance(y, Opaque):
        if x is y:
            return True
        b = ex.fresh('opaque_eq', 'Bool')
        return b
    if isinstance(x, MapV) and isinstance(y, MapV):
        c = True
        for k in sorted(set(x.ent) | set(y.ent)):
            px = x.ent[k][1] if k in x.ent else False
            py = y.ent[k][1] if k in y.ent else False
            c = b_and(c, n_eq(px, py))
            if k in x.ent and k in y.ent:
                both = b_and(px, py)
                if both is not False:
                    c = b_and(c, b_or(b_not(both), values_eq(ex, x.ent[k][2], y.ent[k][2])))
        return c
    if isinstance(x, Enum) and isinstance(y, Enum):
        if x.variant != y.variant:
            return False
        c = True
        for a, b in zip(x.fields, y.fields):
            c = b_and(c, values_eq(ex, a, b))
        return c
    if isinstance(x, (Struct, Tup, Arr)) and type(x) is type(y):
        if len(x.fields) != len(y.fields):
            return False
        c = True
        for a, b in zip(x.fields, y.fields):
            c = b_and(c, values_eq(ex, a, b))
        return c
    raise Unmodelled('eq between %r and %r' % (x, y))


def symstr_eq(x, y):
    xs = [ord(c) for c in x] if isinstance(x, str) else x.chars
    ys = [ord(c) for c in y] if isinstance(y, str) else y.chars
    if len(xs) != len(ys):
        return False
    c = True
    for a, b in zip(xs, ys):
        c = b_and(c, n_eq(a, b))
    return c


def eq_dispatch(ex, a, b):
    """PartialEq::eq with rink impls interpreted when they exist"""
    x = val(a)
    if isinstance(x, (Struct, Enum)):
        name = x.name if isinstance(x, Struct) else x.ty
        f = None
        try:
            f = ex.prog.lookup('<%s as PartialEq>::eq' % name)
        except Exception:
            f = None
        if f is not None:
            ra = innermost_ref(a)
            rb = innermost_ref(b)
            return ex.exec_fn(f, [ra, rb])
    return values_eq(ex, a, b)


def innermost_ref(v):
    if not isinstance(v, Ref):
        return Ref(Cell(v, 'tmp'))
    while isinstance(load(v), Ref):
        v = load(v)
    return v


def cmp_values(ex, a, b):
    """total/partial order of two values -> 'Less'|'Equal'|'Greater' (forks when symbolic)"""
    x = force(ex, val(a))
    y = force(ex, val(b))
    if isinstance(x, str) and isinstance(y, str):
        return 'Less' if x < y else ('Equal' if x == y else 'Greater')
    if is_conc(x) or is_z3(x):
        if ex.branch(n_lt(x, y), 'cmp<'):
            return 'Less'
        if ex.branch(n_eq(x, y), 'cmp='):
            return 'Equal'
        return 'Greater'
    if isinstance(x, Enum) and isinstance(y, Enum) and x.variant != y.variant:
        return 'Less' if x.variant < y.variant else 'Greater'
    if isinstance(x, (Struct, Tup, Enum, Arr)):
        for p, q in zip(x.fields, y.fields):
            r = cmp_values(ex, p, q)
            if r != 'Equal':
                return r
        if len(x.fields) != len(y.fields):
            return 'Less' if len(x.fields) < len(y.fields) else 'Greater'
        return 'Equal'
    raise Unmodelled('cmp between %r and %r' % (x, y))


def partial_cmp_dispatch(ex, a, b):
    """-> Option<Ordering> value"""
    x = val(a)
    if isinstance(x, (Struct, Enum)) and not (isinstance(x, Enum) and x.ty in ('Option', 'Ordering')):
        name = x.name if isinstance(x, Struct) else x.ty
        f = None
        try:
            f = ex.prog.lookup('<%s as PartialOrd>::partial_cmp' % name)
        except Exception:
            f = None
        if f is not None:
            return ex.exec_fn(f, [innermost_ref(a), innermost_ref(b)])
    y = val(b)
    if isinstance(x, F64) or isinstance(y, F64):
        nanb = b_or(x.nan, y.nan)
        if ex.branch(nanb, 'float nan'):
            return none(ex)
        for nm, op in (('Less', 'Lt'), ('Equal', 'Eq')):
            if ex.branch(float_cmp(ex, op, x, y), 'fcmp'):
                return some(ex, ordering(nm))
        return some(ex, ordering('Greater'))
    return some(ex, ordering(cmp_values(ex, a, b)))


# ============================================================================= floats

HUGE = 2 ** 1024


def inf_of(val):
    if is_conc(val):
        return abs(val) >= HUGE
    v = zreal(val)
    return simp(z3.Or(v >= HUGE, v <= -HUGE))


def fresh_f64(ex, tag='f'):
    """an arbitrary float: real value (|value| >= 2^1024 stands for +-infinity) and a NaN flag"""
    v = ex.fresh(tag, 'Real')
    return F64(v, ex.fresh(tag + '_nan', 'Bool'), inf_of(v))


def float_cmp(ex, op, x, y):
    """IEEE comparison on the value model: false (true for !=) when either side is NaN, else the real order"""
    if not isinstance(x, F64):
        x = F64(Fraction(x) if is_conc(x) else x, False, False)
    if not isinstance(y, F64):
        y = F64(Fraction(y) if is_conc(y) else y, False, False)
    nan = b_or(x.nan, y.nan)
    base = {'Eq': n_eq, 'Lt': n_lt, 'Le': n_le, 'Gt': n_gt, 'Ge': n_ge, 'Ne': lambda a, b: b_not(n_eq(a, b))}[op](x.val, y.val)
    if nan is False:
        return base
    if nan is True:
        return op == 'Ne'
    return b_ite(nan, op == 'Ne', base) if not isinstance(base, bool) else simp(z3.If(zbool(nan), z3.BoolVal(op == 'Ne'), z3.BoolVal(base)))


def float_binop(ex, op, x, y):
    if op in ('Eq', 'Lt', 'Le', 'Gt', 'Ge', 'Ne'):
        return float_cmp(ex, op, x, y)
    # both operands concrete, finite and exactly representable: the result is what IEEE doubles give (Python's floats are doubles)
    if op in ('Add', 'Sub', 'Mul', 'Div', 'Rem'):
        cx = x if isinstance(x, F64) else F64(Fraction(x) if is_conc(x) else x, False, False)
        cy = y if isinstance(y, F64) else F64(Fraction(y) if is_conc(y) else y, False, False)
        if (is_conc(cx.val) and is_conc(cy.val) and cx.nan is False and cy.nan is False and cx.inf is False and cy.inf is False
                and not isinstance(cx.val, F64) and not isinstance(cy.val, F64)):
            try:
                px, py = float(Fraction(cx.val)), float(Fraction(cy.val))
                if Fraction(px) == Fraction(cx.val) and Fraction(py) == Fraction(cy.val) and not (op in ('Div', 'Rem') and py == 0.0):
                    import math
                    res = {'Add': lambda: px + py, 'Sub': lambda: px - py, 'Mul': lambda: px * py, 'Div': lambda: px / py,
                           'Rem': lambda: math.fmod(px, py)}[op]()
                    if res == res and res not in (float('inf'), float('-inf')):
                        return F64(Fraction(res), False, False)
            except (OverflowError, ValueError):
                pass
    r = fresh_f64(ex, 'f' + op.lower())
    # IEEE round-to-nearest: a finite op on finite operands is the exact result within a relative 2^-52 (+ one
    # subnormal step); applied where the exact result is linear in the symbolic operand (an operand is concrete)
    fx = x if isinstance(x, F64) else F64(Fraction(x) if is_conc(x) else x, False, False)
    fy = y if isinstance(y, F64) else F64(Fraction(y) if is_conc(y) else y, False, False)
    if op in ('Add', 'Sub', 'Mul', 'Div') and not isinstance(fx.val, F64) and not isinstance(fy.val, F64):
        linear = op in ('Add', 'Sub') or is_conc(fy.val) or (op == 'Mul' and is_conc(fx.val))
        if linear and not (op == 'Div' and is_conc(fy.val) and fy.val == 0):
            a, b = (Fraction(fx.val) if is_conc(fx.val) else zreal(fx.val)), (Fraction(fy.val) if is_conc(fy.val) else zreal(fy.val))
            e = {'Add': lambda: a + b, 'Sub': lambda: a - b, 'Mul': lambda: a * b, 'Div': lambda: a / b}[op]()
            e = zreal(e)
            finite = z3.And(z3.Not(zbool(fx.nan)), z3.Not(zbool(fy.nan)), z3.Not(zbool(fx.inf)), z3.Not(zbool(fy.inf)))
            ae = z3.If(e >= 0, e, -e)
            err = ae * zreal(Fraction(1, 2 ** 52)) + zreal(Fraction(1, 2 ** 1074))
            ex.assume(z3.Implies(finite, z3.And(z3.Not(zbool(r.nan)), zreal(r.val) - e <= err, e - zreal(r.val) <= err)))
    if op == 'Rem' and not isinstance(fx.val, F64) and is_conc(fy.val) and fy.val != 0 and fy.nan is False and fy.inf is False:
        # fmod is exact: x - y * trunc(x / y)
        b = Fraction(fy.val)
        a = Fraction(fx.val) if is_conc(fx.val) else zreal(fx.val)
        q = r_trunc(a / b)
        e = zreal(a) - zreal(b) * z3.ToReal(zint(q))
        finite = z3.And(z3.Not(zbool(fx.nan)), z3.Not(zbool(fx.inf)))
        ex.assume(z3.Implies(finite, z3.And(z3.Not(zbool(r.nan)), zreal(r.val) == e)))
    return r


def float_cast(ex, kind, v, src_ty, ty):
    if kind == 'IntToFloat':
        if is_conc(v):
            return F64(Fraction(int(v)))
        # exact only below 2^53; keep the value relation loose: opaque finite float
        return F64(ex.fresh('i2f', 'Real'), False, False)
    if kind == 'FloatToInt':
        lo, hi = INT_RANGES[ty]
        if isinstance(v, F64) and is_conc(v.val) and v.nan is False and v.inf is False:
            return wrap_sat(r_trunc(v.val), ty)
        if isinstance(v, F64) and not isinstance(v.val, F64):
            # `as` casts saturate; NaN -> 0; +-inf -> the bound with the sign of the value
            t = r_trunc(v.val)
            sat = z3.If(zint(t) < lo, lo, z3.If(zint(t) > hi, hi, zint(t)))
            infv = z3.If(zreal(v.val) >= 0, hi, lo)
            return z3.If(zbool(v.nan), 0, z3.If(zbool(v.inf), infv, sat))
        r = ex.fresh('f2i', 'Int')
        ex.assume(in_range(r, ty))
        return r
    if kind == 'FloatToFloat':
        return v
    raise Unmodelled('float cast ' + kind)


def wrap_sat(i, ty):
    lo, hi = INT_RANGES[ty]
    return max(lo, min(hi, i))


# ============================================================================= dispatch

class Decline(Exception):
    """raised by a model whose pattern matched but which does not handle these arguments"""


class Lib:
    def __init__(self):
        self.values_eq = values_eq
        self.float_binop = float_binop
        self.float_cast = float_cast

    def call(self, ex, frame, callee, nc, args):
        for pat, f, name in MODELS:
            m = pat.search(nc)
            if m:
                try:
                    r = f(ex, m, args, callee)
                except Decline:
                    continue            # this model does not apply to these arguments: try the next matching one
                ex.models_used.add(name)
                return r
        raise Unmodelled('callee %s   [normalised: %s]' % (callee, nc))


# ----------------------------------------------------------------------------- panics

@model(r'^(panic|panic_fmt|panic_display|panic_explicit|panic_nounwind|unreachable_display|begin_panic|panic_const_\w+|assert_failed|assert_failed_inner|unwrap_failed|expect_failed|panic_bounds_check|panic_cold_explicit|slice_index_order_fail|slice_end_index_len_fail|slice_start_index_len_fail|str_index_overflow_fail|slice_error_fail)$')
def m_panic(ex, m, args, callee):
    msg = ''
    for a in args:
        a = val(a)
        if isinstance(a, str):
            msg = a
            break
    ex.panic('%s: %s' % (m.group(1), msg))


@model(r'^(must_use|identity|black_box)$')
def m_must_use(ex, m, args, callee):
    return args[0]


@model(r'^(drop|forget)$')
def m_drop(ex, m, args, callee):
    return Tup([])


# ----------------------------------------------------------------------------- Option / Result

@model(r'^Option::(unwrap|expect)$')
def m_opt_unwrap(ex, m, args, callee):
    o = val(args[0])
    if o.variant == 0:
        ex.panic('Option::%s on None%s' % (m.group(1), (': ' + str(val(args[1]))) if len(args) > 1 else ''))
    return o.fields[0]


@model(r'^Result::(unwrap|expect)$')
def m_res_unwrap(ex, m, args, callee):
    o = val(args[0])
    if o.variant == 1:
        ex.panic('Result::%s on Err' % m.group(1))
    return o.fields[0]


@model(r'^Result::(unwrap_err|expect_err)$')
def m_res_unwrap_err(ex, m, args, callee):
    o = val(args[0])
    if o.variant == 0:
        ex.panic('Result::%s on Ok' % m.group(1))
    return o.fields[0]


@model(r'^Option::(is_some|is_none)$')
def m_opt_is(ex, m, args, callee):
    o = val(args[0])
    return (o.variant == 1) == (m.group(1) == 'is_some')


@model(r'^Result::(is_ok|is_err)$')
def m_res_is(ex, m, args, callee):
    o = val(args[0])
    return (o.variant == 0) == (m.group(1) == 'is_ok')


@model(r'^Option::map$')
def m_opt_map(ex, m, args, callee):
    o = val(args[0])
    if o.variant == 0:
        return none(ex)
    return some(ex, ex.call_value(args[1], [o.fields[0]]))


@model(r'^Option::(and_then|map_or_else|map_or)$')
def m_opt_and_then(ex, m, args, callee):
    o = val(args[0])
    k = m.group(1)
    if k == 'and_then':
        if o.variant == 0:
            return none(ex)
        return ex.call_value(args[1], [o.fields[0]])
    if k == 'map_or':
        if o.variant == 0:
            return args[1]
        return ex.call_value(args[2], [o.fields[0]])
    if o.variant == 0:
        return ex.call_value(args[1], [])
    return ex.call_value(args[2], [o.fields[0]])


@model(r'^Option::(or_else|unwrap_or_else|unwrap_or|or|unwrap_or_default|ok_or|ok_or_else|as_ref|as_mut|cloned|copied|take|as_deref|filter|is_some_and)$')
def m_opt_misc(ex, m, args, callee):
    k = m.group(1)
    o = val(args[0])
    if k == 'or_else':
        return o if o.variant == 1 else ex.call_value(args[1], [])
    if k == 'or':
        return o if o.variant == 1 else args[1]
    if k == 'unwrap_or_else':
        return o.fields[0] if o.variant == 1 else ex.call_value(args[1], [])
    if k == 'unwrap_or':
        return o.fields[0] if o.variant == 1 else args[1]
    if k == 'ok_or':
        return ok(o.fields[0]) if o.variant == 1 else err(args[1])
    if k == 'ok_or_else':
        return ok(o.fields[0]) if o.variant == 1 else err(ex.call_value(args[1], []))
    if k in ('as_ref', 'as_mut'):
        if o.variant == 0:
            return none(ex)
        r = args[0]
        while isinstance(load(r), Ref):
            r = load(r)
        return some(ex, Ref(r.cell, r.path + (0,)))
    if k in ('cloned', 'copied'):
        if o.variant == 0:
            return none(ex)
        return some(ex, clone_one_level(ex, o.fields[0]))
    if k == 'take':
        r = innermost_ref(args[0])
        old = load(r)
        store(r, none(ex))
        return old
    if k == 'as_deref':
        if o.variant == 0:
            return none(ex)
        return some(ex, val(o.fields[0]))
    if k == 'filter':
        if o.variant == 0:
            return o
        keep = ex.call_value(args[1], [Ref(Cell(o.fields[0], 'tmp'))])
        return o if ex.branch(keep, 'Option::filter') else none(ex)
    if k == 'is_some_and':
        if o.variant == 0:
            return False
        return ex.call_value(args[1], [o.fields[0]])
    raise Unmodelled('Option::' + k)


@model(r'^Result::(map|map_err|and_then|ok|err|or_else|unwrap_or|unwrap_or_else|as_ref|unwrap_or_default)$')
def m_res_misc(ex, m, args, callee):
    k = m.group(1)
    o = val(args[0])
    if k == 'map':
        return ok(ex.call_value(args[1], [o.fields[0]])) if o.variant == 0 else o
    if k == 'map_err':
        return err(ex.call_value(args[1], [o.fields[0]])) if o.variant == 1 else o
    if k == 'and_then':
        return ex.call_value(args[1], [o.fields[0]]) if o.variant == 0 else o
    if k == 'ok':
        return some(ex, o.fields[0]) if o.variant == 0 else none(ex)
    if k == 'err':
        return some(ex, o.fields[0]) if o.variant == 1 else none(ex)
    if k == 'or_else':
        return o if o.variant == 0 else ex.call_value(args[1], [o.fields[0]])
    if k == 'unwrap_or':
        return o.fields[0] if o.variant == 0 else args[1]
    if k == 'unwrap_or_else':
        return o.fields[0] if o.variant == 0 else ex.call_value(args[1], [o.fields[0]])
    if k == 'as_ref':
        r = innermost_ref(args[0])
        return Enum('Result', o.variant, o.vname, [Ref(r.cell, r.path + (0,))])
    raise Unmodelled('Result::' + k)


@model(r'^<(Result|Option)<.*> as Try>::branch$')
def m_try_branch(ex, m, args, callee):
    o = val(args[0])
    if m.group(1) == 'Result':
        if o.variant == 0:
            return Enum('ControlFlow', 0, 'Continue', [o.fields[0]])
        return Enum('ControlFlow', 1, 'Break', [Enum('Result', 1, 'Err', [o.fields[0]])])
    if o.variant == 1:
        return Enum('ControlFlow', 0, 'Continue', [o.fields[0]])
    return Enum('ControlFlow', 1, 'Break', [Enum('Option', 0, 'None', [])])


@model(r'^<(Result|Option)<.*> as FromResidual<.*>>::from_residual$')
def m_from_residual(ex, m, args, callee):
    o = val(args[0])
    if m.group(1) == 'Result':
        e = o.fields[0]
        # From<E> conversion: identity unless a rink From impl applies
        mm = re.search(r'FromResidual<Result<Infallible,(.*)>>>::from_residual$', norm_type(callee))
        tgt = re.match(r'^<Result<(.*)> as FromResidual', norm_type(callee))
        if mm and tgt:
            src_e = mm.group(1)
            parts = split_top_simple(tgt.group(1))
            dst_e = parts[-1] if parts else src_e
            if src_e != dst_e:
                f = None
                try:
                    f = ex.prog.lookup('<%s as From<%s>>::from' % (dst_e, src_e))
                except Exception:
                    f = None
                if f is not None:
                    e = ex.exec_fn(f, [e])
                elif dst_e == 'String' and isinstance(val(e), str):
                    pass
                else:
                    raise Unmodelled('error conversion %s -> %s' % (src_e, dst_e))
        return err(e)
    return none(ex)


def split_top_simple(s):
    from .parse import split_top
    return split_top(s)


# ----------------------------------------------------------------------------- Clone / Eq / Ord / conversions

@model(r'^<(.*) as Clone>::clone$')
def m_clone(ex, m, args, callee):
    ty = m.group(1)
    if re.match(r'^(Arc|Rc|&)', ty) and isinstance(args[0], Ref):
        inner = load(args[0])
        if isinstance(inner, Ref):
            return inner          # shared pointer: clone shares the referent
    if ty.startswith('Box<') and isinstance(args[0], Ref):
        inner = load(args[0])
        if isinstance(inner, Ref):
            return new_box(clone_value(ex, inner))
    return clone_value(ex, args[0])


@model(r'^<(.*) as (PartialEq(<.*>)?)>::(eq|ne)$')
def m_eq(ex, m, args, callee):
    r = eq_dispatch(ex, args[0], args[1])
    return r if m.group(4) == 'eq' else b_not(r)


@model(r'^<(.*) as PartialOrd(<.*>)?>::(partial_cmp|lt|le|gt|ge)$')
def m_partial_ord(ex, m, args, callee):
    k = m.group(3)
    o = partial_cmp_dispatch(ex, args[0], args[1])
    if k == 'partial_cmp':
        return o
    if o.variant == 0:
        return False
    name = o.fields[0].vname
    return {'lt': name == 'Less', 'le': name != 'Greater', 'gt': name == 'Greater', 'ge': name != 'Less'}[k]


@model(r'^<(.*) as Ord>::(cmp|max|min)$')
def m_ord(ex, m, args, callee):
    k = m.group(2)
    if k == 'cmp':
        o = partial_cmp_dispatch(ex, args[0], args[1])
        return o.fields[0]
    a, b = args
    c = n_ge(a, b) if k == 'max' else n_le(a, b)
    if isinstance(c, bool):
        return a if c else b
    return b_ite(c, a, b)


@model(r'^(max|min)$')
def m_maxmin(ex, m, args, callee):
    a, b = args
    c = n_ge(b, a) if m.group(1) == 'max' else n_le(b, a)   # std::cmp::max returns b when equal
    if isinstance(c, bool):
        return b if c else a
    return b_ite(c, b, a)


@model(r'^Ordering::(is_lt|is_le|is_gt|is_ge|is_eq|is_ne|reverse)$')
def m_ordering(ex, m, args, callee):
    o = val(args[0])
    k = m.group(1)
    n = o.vname
    if k == 'reverse':
        return ordering({'Less': 'Greater', 'Equal': 'Equal', 'Greater': 'Less'}[n])
    return {'is_lt': n == 'Less', 'is_le': n != 'Greater', 'is_gt': n == 'Greater', 'is_ge': n != 'Less',
            'is_eq': n == 'Equal', 'is_ne': n != 'Equal'}[k]


@model(r'^<(.*) as Deref(Mut)?>::deref(_mut)?$')
def m_deref(ex, m, args, callee):
    r = args[0]
    t = load(r) if isinstance(r, Ref) else r
    if isinstance(t, Ref):
        return t          # &Box<T>/&Arc<T>/&&T -> &T
    if isinstance(t, (str, SymStr, Opaque)):
        return t          # &String -> &str (strings are values)
    if isinstance(t, Arr):
        return r          # &Vec<T> -> &[T]
    if isinstance(t, Enum) and t.ty == 'Cow':
        return val(t.fields[0])
    raise Unmodelled('Deref of %r' % (t,))


@model(r'^<(.*) as (Borrow|AsRef|BorrowMut|AsMut)<(.*)>>::(borrow|as_ref|borrow_mut|as_mut)$')
def m_borrow(ex, m, args, callee):
    r = args[0]
    t = val(r)
    if isinstance(t, (str, SymStr, Opaque)):
        return t
    return r


@model(r'^<BigInt as From<impl Into<BigInt>>>::from$|^<impl Into<BigInt> as Into<BigInt>>::into$')
def m_into_bigint(ex, m, args, callee):
    v = val(args[0])
    if isinstance(v, Struct) and v.name == 'BigInt':
        return v
    if is_conc(v) or is_z3(v):
        f = ex.prog.lookup('<BigInt as From<i64>>::from')
        return ex.exec_fn(f, [v])
    raise Unmodelled('Into<BigInt> for %r' % (v,))


@model(r'^<(.*) as Into<(.*)>>::into$')
def m_into(ex, m, args, callee):
    src, dst = m.group(1), m.group(2)
    f = None
    try:
        f = ex.prog.lookup('<%s as From<%s>>::from' % (dst, src))
    except Exception:
        f = None
    if f is not None:
        return ex.exec_fn(f, [args[0]])
    if src == dst:
        return args[0]
    return ex.lib.call(ex, None, '<%s as From<%s>>::from' % (dst, src), '<%s as From<%s>>::from' % (dst, src), args)


@model(r'^<Cow<.*> as From<.*>>::from$')
def m_cow_from(ex, m, args, callee):
    t = val(args[0])
    return Enum('Cow', 0 if isinstance(args[0], (str, Ref)) else 1, 'Borrowed' if isinstance(args[0], (str, Ref)) else 'Owned', [t])


@model(r'^RangeInclusive::(new|start|end|contains|is_empty)$|^<RangeInclusive<.*> as RangeBounds<.*>>::contains$|^Range::contains$')
def m_range_incl(ex, m, args, callee):
    k = m.group(1) or 'contains'
    if k == 'new':
        return Struct('RangeInclusive', [args[0], args[1], False])
    r = val(args[0])
    if k == 'start':
        return Ref(Cell(r.fields[0], 'tmp'))
    if k == 'end':
        return Ref(Cell(r.fields[1], 'tmp'))
    x = val(args[1])
    if r.name == 'Range':
        return b_and(n_le(r.fields[0], x), n_lt(x, r.fields[1]))
    return b_and(n_le(r.fields[0], x), n_le(x, r.fields[1]))


@model(r'^<(.*) as ToOwned>::to_owned$')
def m_to_owned(ex, m, args, callee):
    return clone_value(ex, args[0])


@model(r'^<str as Index<(.*)>>::index$|^<String as Index<(.*)>>::index$')
def m_str_index(ex, m, args, callee):
    s = val(args[0])
    idx = val(args[1])
    if isinstance(s, SymStr) and getattr(s, 'wide', False) and isinstance(idx, Struct) and idx.name in ('RangeTo', 'RangeFrom'):
        # a byte offset into text whose characters have symbolic widths: it must fall on a character boundary - one branch per
        # boundary, a panic if it falls inside a character or beyond the end
        off = idx.fields[0]
        acc = z3.IntVal(0)
        for kk in range(len(s.chars) + 1):
            if ex.branch(simp(acc == zint(off)) if True else None, 'byte offset is the boundary before character %d' % kk):
                return SymStr(s.chars[:kk], True) if idx.name == 'RangeTo' else SymStr(s.chars[kk:], True)
            if kk < len(s.chars):
                acc = acc + utf8_width(s.chars[kk])
        ex.panic('byte index is not a char boundary (or out of range) for string slice')
    if not isinstance(s, str):
        raise Unmodelled('slicing a non-concrete string')
    b = s.encode('utf-8')
    n = len(b)

    def cut(lo, hi):
        if lo > hi or hi > n:
            ex.panic('byte index out of range for string slice')
        try:
            return b[lo:hi].decode('utf-8')
        except UnicodeDecodeError:
            ex.panic('byte index is not a char boundary')
    if isinstance(idx, Struct):
        if idx.name == 'RangeFrom':
            return cut(ex.concretize_int(idx.fields[0], 'str slice start'), n)
        if idx.name == 'RangeTo':
            return cut(0, ex.concretize_int(idx.fields[0], 'str slice end'))
        if idx.name == 'Range':
            return cut(ex.concretize_int(idx.fields[0], 'str slice start'), ex.concretize_int(idx.fields[1], 'str slice end'))
        if idx.name == 'RangeFull':
            return s
    raise Unmodelled('str index by %r' % (idx,))


@model(r'^<(.*) as Default>::default$')
def m_default(ex, m, args, callee):
    t = m.group(1)
    if t.startswith('BTreeMap') or t.startswith('BTreeSet') or t.startswith('HashMap') or t.startswith('HashSet'):
        return MapV()
    if t.startswith('Vec'):
        return Arr([])
    if t == 'String':
        return ''
    if t.startswith('Option'):
        return none(ex)
    if t in INT_RANGES:
        return 0 if t != 'bool' else False
    raise Unmodelled('Default for ' + t)


# ----------------------------------------------------------------------------- closures / fn traits

@model(r'^<(.*) as (FnOnce|FnMut|Fn)<(.*)>>::(call_once|call_mut|call)$')
def m_fn_call(ex, m, args, callee):
    tup = args[1]
    return ex.call_value(args[0], list(tup.fields))


# ----------------------------------------------------------------------------- fmt / strings

def _decode_bytes_literal(text):
    """MIR `b"..."` literal -> bytes"""
    body = text[2:-1]
    out = bytearray()
    i = 0
    while i < len(body):
        c = body[i]
        if c == '\\':
            e = body[i + 1]
            if e == 'x':
                out.append(int(body[i + 2:i + 4], 16))
                i += 4
                continue
            out.append({'n': 10, 't': 9, 'r': 13, '0': 0, '\\': 92, '"': 34, "'": 39}.get(e, ord(e)))
            i += 2
            continue
        out.extend(c.encode('utf-8'))
        i += 1
    return bytes(out)


def _display_text(ex, v):
    """Display text of a formatting argument when it is fully determined, else None"""
    t = val(v)
    if isinstance(t, str):
        return t
    if isinstance(t, bool):
        return 'true' if t else 'false'
    if isinstance(t, int):
        return str(t)
    if isinstance(t, Struct) and t.name == 'BaseUnit':
        k = freeze(t)
        return k if isinstance(k, str) else None
    return None


@model(r'^Argument::(new_display|new_debug|new_lower_hex|new_upper_hex|new_lower_exp|new_binary|new_octal)$')
def m_fmt_arg(ex, m, args, callee):
    return Opaque('fmtarg', (m.group(1), args[0]))


@model(r'^Arguments::(new|new_const|new_v1|new_v1_formatted|from_str)$|^(Argument::(none|from_usize)|Placeholder::new|Count::\w+|UnsafeArg::new)$')
def m_fmt_args(ex, m, args, callee):
    k = m.group(1)
    if k == 'from_str' and isinstance(val(args[0]), str):
        return Opaque('fmtargs', ('literal', val(args[0])))
    if k == 'new' and len(args) == 2:
        tpl = val(args[0])
        arr = val(args[1])
        if isinstance(tpl, Opaque) and tpl.tag == 'bytes' and isinstance(arr, Arr):
            return Opaque('fmtargs', ('template', _decode_bytes_literal(tpl.info), list(arr.fields)))
    return Opaque('fmt', None)


@model(r'^<Vec<u8> as Write>::write_fmt$|^<Vec<u8> as io::Write>::write_fmt$')
def m_vec_write_fmt(ex, m, args, callee):
    """write!(vec, ...): the rendered text is appended as bytes; io::Result is always Ok for a Vec"""
    r = innermost_ref(args[0])
    buf = load(r)
    txt = m_format(ex, None, [args[1]], callee)
    rng = ex.env.get('fmt_int_range')
    if isinstance(txt, Opaque) and isinstance(txt.info, tuple) and txt.info[0] == 'pieces' and rng:
        # symbolic integers in the text: enumerate their (harness-bounded) values so that the text stays concrete
        out = []
        for pc in txt.info[1]:
            if isinstance(pc, str):
                out.append(pc)
                continue
            v = deref_all(pc[1])
            if is_z3(v) and z3.is_int(v):
                out.append(str(ex.concretize_int(v, 'formatted integer', rng[0], rng[1])))
            else:
                out = None
                break
        if out is not None:
            txt = ''.join(out)
    if isinstance(buf, Arr) and isinstance(txt, str) and all(is_conc(x) for x in buf.fields):
        store(r, Arr(list(buf.fields) + list(txt.encode('utf-8'))))
    else:
        store(r, Opaque('bytes-buffer', 'written'))
    return ex.make_variant('Result', 'Ok', [Tup([])])


@model(r'^String::from_utf8$')
def m_from_utf8(ex, m, args, callee):
    v = val(args[0])
    if isinstance(v, Arr) and all(is_conc(x) for x in v.fields):
        try:
            return ex.make_variant('Result', 'Ok', [bytes(int(x) for x in v.fields).decode('utf-8')])
        except UnicodeDecodeError:
            return ex.make_variant('Result', 'Err', [Opaque('FromUtf8Error')])
    return ex.make_variant('Result', 'Ok', [Opaque('string', 'from_utf8')])


@model(r'^(format|format_inner)$')
def m_format(ex, m, args, callee):
    a = val(args[0])
    if isinstance(a, Opaque) and a.tag == 'fmtargs':
        info = a.info
        if info[0] == 'literal':
            return info[1]
        tpl, fargs = info[1], info[2]
        out = []
        i = 0
        k = 0
        okk = True
        symbolic = False
        while i < len(tpl):
            b = tpl[i]
            if b == 0:
                break
            if b == 0xC0:
                if k >= len(fargs):
                    okk = False
                    break
                fa = val(fargs[k])
                k += 1
                is_disp = isinstance(fa, Opaque) and fa.tag == 'fmtarg' and fa.info[0] == 'new_display'
                txt = _display_text(ex, fa.info[1]) if is_disp else None
                if txt is None:
                    if not is_disp:
                        okk = False
                        break
                    # a Display argument whose text is not determined: keep the value itself as a piece
                    symbolic = True
                    out.append(('display', val(fa.info[1])))
                else:
                    out.append(txt)
                i += 1
                continue
            if b < 0x80:
                out.append(tpl[i + 1:i + 1 + b].decode('utf-8', 'replace'))
                i += 1 + b
                continue
            okk = False
            break
        if okk and not symbolic:
            return ''.join(out)
        if okk:
            # literal pieces and ('display', value) pieces in order: harness posts can read the structure
            return Opaque('string', ('pieces', out))
    return Opaque('string', 'formatted')


@model(r'^<(.*) as ToString>::to_string$|^<str as ToOwned>::to_owned$|^<impl str>::(to_owned|to_string)$|^<String as From<&str>>::from$|^<&str as Into<String>>::into$|^String::from$|^<str as ToString>::to_string$')
def m_to_string(ex, m, args, callee):
    t = val(args[0])
    if isinstance(t, (str, SymStr)):
        return t
    if isinstance(t, Opaque):
        return t
    if isinstance(t, Struct) and t.name == 'BaseUnit':
        ident = deref_all(t.fields[0])            # Display for BaseUnit writes its id
        if isinstance(ident, (str, SymStr)):
            return ident
    if isinstance(t, Enum) and not t.fields:
        return '<%s::%s>' % (t.ty, t.vname)      # stands for the Display text of a field-less enum (unique per variant)
    if isinstance(t, int) and not isinstance(t, bool) and re.match(r'^<(u|i)(8|16|32|64|128|size) as ToString>', m.group(0) or ''):
        return str(t)
    # the decimal text of a big integer: concrete when the value is, else a piece that keeps the value readable
    inner = t
    while isinstance(inner, Struct) and len(inner.fields) == 1 and inner.name in ('BigInt', 'NumInt'):
        inner = deref_all(inner.fields[0])
    if inner is not t:
        if is_conc(inner) and not isinstance(inner, bool):
            return str(int(inner))
        if is_z3(inner) and z3.is_int(inner):
            return Opaque('string', ('pieces', [('display', inner)]))
    return Opaque('string', 'to_string')


@model(r'^String::new$')
def m_string_new(ex, m, args, callee):
    return ''


@model(r'^String::(push|push_str)$')
def m_string_push(ex, m, args, callee):
    r = innermost_ref(args[0])
    s = load(r)
    x = val(args[1])
    if isinstance(s, str) and m.group(1) == 'push' and is_conc(x):
        store(r, s + chr(x))
    elif isinstance(s, str) and isinstance(x, str):
        store(r, s + x)
    elif m.group(1) == 'push' and isinstance(s, (str, SymStr)) and (is_z3(x) or is_conc(x)):
        chars = [ord(c) for c in s] if isinstance(s, str) else list(s.chars)
        store(r, SymStr(chars + [x]))
    elif m.group(1) != 'push' and isinstance(s, (str, SymStr)) and isinstance(x, (str, SymStr)):
        chars = [ord(c) for c in s] if isinstance(s, str) else list(s.chars)
        more = [ord(c) for c in x] if isinstance(x, str) else list(x.chars)
        store(r, SymStr(chars + more))
    else:
        store(r, Opaque('string', 'pushed'))
    return Tup([])


@model(r'^<impl str>::(chars|bytes|char_indices)$')
def m_str_chars(ex, m, args, callee):
    t = val(args[0])
    if isinstance(t, str):
        cs = [ord(c) for c in t]
    elif isinstance(t, SymStr):
        cs = list(t.chars)
    else:
        raise Unmodelled('chars of opaque string')
    if m.group(1) == 'char_indices':
        return VecIter([Tup([i, c]) for i, c in enumerate(cs)])
    return VecIter(cs)


@model(r'^String::(insert|insert_str)$')
def m_string_insert(ex, m, args, callee):
    r = innermost_ref(args[0])
    s_ = load(r)
    idx = ex.concretize_int(args[1], 'String::insert index')
    x = val(args[2])
    chars = [ord(c) for c in s_] if isinstance(s_, str) else list(s_.chars) if isinstance(s_, SymStr) else None
    if chars is None:
        store(r, Opaque('string', 'inserted'))
        return Tup([])
    ins = [ord(c) for c in x] if isinstance(x, str) else [x]
    if not (0 <= idx <= len(chars)):
        ex.panic('String::insert index out of bounds')
    new = chars[:idx] + ins + chars[idx:]
    store(r, ''.join(chr(c) for c in new) if all(is_conc(c) for c in new) else SymStr(new))
    return Tup([])


class SymSet:
    """IndexSet / HashSet whose elements are symbolic values: membership is decided by forking on equality"""
    is_model = True

    def __init__(self):
        self.items = []

    def dup(self):
        s_ = SymSet()
        s_.items = list(self.items)
        return s_


@model(r'^(?:IndexSet|HashSet|BTreeSet)::(new|insert_full|insert|len|contains|is_empty)$')
def m_indexset(ex, m, args, callee):
    """sets of *symbolic* values (IndexSet always; std sets when they hold BigRat remainders): membership by forking on
    equality.  std sets with concrete keys are handled by the map models below."""
    k = m.group(1)
    std = not callee.lstrip('<').startswith('IndexSet') and 'IndexSet' not in callee.split('::<')[0]
    if k == 'new':
        if std and 'BigRat' not in callee:
            raise Decline()
        return SymSet()
    st = val(args[0])
    if not isinstance(st, SymSet):
        raise Decline()
    if k == 'len':
        return len(st.items)
    if k == 'is_empty':
        return len(st.items) == 0
    x = args[1] if k != 'contains' else val(args[1])
    for i, it in enumerate(st.items):
        if ex.branch(eq_dispatch(ex, it, x), 'set element %d equal' % i):
            return Tup([i, False]) if k == 'insert_full' else (False if k == 'insert' else True)
    if k == 'contains':
        return False
    st.items.append(x)
    return Tup([len(st.items) - 1, True]) if k == 'insert_full' else True


@model(r'^<impl str>::is_ascii$|^<impl char>::is_ascii$')
def m_is_ascii(ex, m, args, callee):
    a = val(args[0])
    if isinstance(a, str):
        return a.isascii()
    if is_conc(a):
        return int(a) < 128
    if is_z3(a):
        return simp(zint(a) < 128)
    if isinstance(a, SymStr):
        c = True
        for ch in a.chars:
            c = b_and(c, (ch < 128) if is_conc(ch) else simp(zint(ch) < 128))
        return c
    raise Unmodelled('is_ascii on an opaque string')


@model(r'^<impl str>::eq_ignore_ascii_case$')
def m_str_eq_ignore_case(ex, m, args, callee):
    a, b = val(args[0]), val(args[1])
    if isinstance(a, str) and isinstance(b, str):
        fold = lambda t: ''.join(c.lower() if c.isascii() else c for c in t)
        return fold(a) == fold(b)
    raise Unmodelled('eq_ignore_ascii_case on non-concrete strings')


@model(r'^String::(is_empty|len)$|^<impl str>::(is_empty|len)$')
def m_str_len(ex, m, args, callee):
    t = val(args[0])
    k = m.group(1) or m.group(2)
    if isinstance(t, str):
        n = len(t.encode('utf-8'))
    elif isinstance(t, SymStr):
        n = len(t.chars)
        if getattr(t, 'wide', False) and k == 'len':
            return simp(sum_int([utf8_width(c) for c in t.chars]))
    else:
        raise Unmodelled('len of opaque string')
    return n if k == 'len' else n == 0


def utf8_width(c):
    if is_conc(c):
        return len(chr(int(c)).encode('utf-8'))
    return z3.If(c < 0x80, 1, z3.If(c < 0x800, 2, z3.If(c < 0x10000, 3, 4)))


def sum_int(xs):
    acc = z3.IntVal(0)
    for x in xs:
        acc = acc + (z3.IntVal(x) if is_conc(x) else x)
    return acc


@model(r'^String::(as_str|as_mut_str)$|^<impl str>::(trim|trim_start|trim_end)$')
def m_str_id(ex, m, args, callee):
    t = val(args[0])
    if m.group(2) and isinstance(t, str):
        return {'trim': t.strip(), 'trim_start': t.lstrip(), 'trim_end': t.rstrip()}[m.group(2)]
    return t


@model(r'^<impl str>::(trim_end_matches|trim_start_matches|trim_matches)$')
def m_str_trim_matches(ex, m, args, callee):
    s_ = val(args[0])
    p_ = val(args[1])
    if isinstance(p_, int) and not isinstance(p_, bool):
        p_ = chr(p_)
    if not (isinstance(s_, str) and isinstance(p_, str) and p_):
        raise Unmodelled('str::%s on non-concrete strings' % m.group(1))
    k = m.group(1)
    if k in ('trim_end_matches', 'trim_matches'):
        while s_.endswith(p_):
            s_ = s_[:len(s_) - len(p_)]
    if k in ('trim_start_matches', 'trim_matches'):
        while s_.startswith(p_):
            s_ = s_[len(p_):]
    return s_


@model(r'^<impl str>::(to_uppercase|to_lowercase|to_ascii_uppercase|to_ascii_lowercase)$')
def m_str_case(ex, m, args, callee):
    s_ = val(args[0])
    k = m.group(1)
    if not isinstance(s_, str):
        raise Unmodelled('str::%s on non-concrete text' % k)
    if 'ascii' in k:
        return ''.join((c.upper() if 'upper' in k else c.lower()) if ord(c) < 128 else c for c in s_)
    return s_.upper() if 'upper' in k else s_.lower()


@model(r'^<impl str>::(find|rfind|split_at|split_once|rsplit_once)$')
def m_str_find(ex, m, args, callee):
    """byte offsets; modelled for concrete ASCII text only (a byte offset is then a character offset)"""
    s_ = val(args[0])
    k = m.group(1)
    if not (isinstance(s_, str) and all(ord(c) < 128 for c in s_)):
        raise Unmodelled('str::%s on non-concrete / non-ASCII text' % k)
    if k == 'split_at':
        i = args[1]
        i = simp(i) if is_z3(i) else i
        if not is_conc(i):
            raise Unmodelled('str::split_at at a symbolic offset')
        if not (0 <= int(i) <= len(s_)):
            ex.panic('str::split_at: byte index out of bounds')
        return Tup([s_[:int(i)], s_[int(i):]])
    p_ = val(args[1])
    if isinstance(p_, int) and not isinstance(p_, bool):
        p_ = chr(p_)
    if not isinstance(p_, str):
        raise Unmodelled('str::%s with a non-concrete pattern' % k)
    if k in ('find', 'rfind'):
        i = s_.find(p_) if k == 'find' else s_.rfind(p_)
        return some(ex, i) if i >= 0 else none(ex)
    i = s_.find(p_) if k == 'split_once' else s_.rfind(p_)
    return some(ex, Tup([s_[:i], s_[i + len(p_):]])) if i >= 0 else none(ex)


@model(r'^(Cell|RefCell)::(new|get|set|replace|take|into_inner)$')
def m_cell(ex, m, args, callee):
    k = m.group(2)
    if k == 'new':
        return Struct('Cell', [args[0]])
    r = innermost_ref(args[0]) if isinstance(args[0], Ref) else None
    c = load(r) if r is not None else val(args[0])
    if k in ('get', 'into_inner'):
        return dup(c.fields[0])
    old = c.fields[0]
    if k == 'set':
        c.fields[0] = args[1]
        return Tup([])
    if k == 'replace':
        c.fields[0] = args[1]
        return old
    raise Unmodelled('Cell::' + k)


@model(r'^<impl str>::(starts_with|ends_with|contains|strip_prefix|strip_suffix)$')
def m_str_pred(ex, m, args, callee):
    s = val(args[0])
    p = val(args[1])
    k = m.group(1)
    if isinstance(p, int) and not isinstance(p, bool):
        p = chr(p)
    if isinstance(s, str) and isinstance(p, str):
        if k == 'starts_with':
            return s.startswith(p)
        if k == 'ends_with':
            return s.endswith(p)
        if k == 'contains':
            return p in s
        if k == 'strip_prefix':
            return some(ex, s[len(p):]) if s.startswith(p) else none(ex)
        if k == 'strip_suffix':
            return some(ex, s[:len(s) - len(p)]) if s.endswith(p) else none(ex)
    raise Unmodelled('str::%s on %r' % (k, s))


# ----------------------------------------------------------------------------- Box / Rc / Arc

@model(r'^(Box|Rc|Arc)::new$')
def m_box_new(ex, m, args, callee):
    return new_box(args[0])


@model(r'^(Rc|Arc)::(ptr_eq)$')
def m_ptr_eq(ex, m, args, callee):
    return val(args[0]) is val(args[1])


# ----------------------------------------------------------------------------- integer helpers

@model(r'^<impl (i8|i16|i32|i64|i128|isize|u8|u16|u32|u64|u128|usize)>::(max_value|min_value)$')
def m_int_minmax(ex, m, args, callee):
    lo, hi = INT_RANGES[m.group(1)]
    return hi if m.group(2) == 'max_value' else lo


@model(r'^<impl (i8|i16|i32|i64|i128|isize)>::(abs|unsigned_abs|signum|wrapping_abs)$')
def m_int_abs(ex, m, args, callee):
    x = args[0]
    ty = m.group(1)
    k = m.group(2)
    lo, hi = INT_RANGES[ty]
    if k == 'signum':
        if is_conc(x):
            return (x > 0) - (x < 0)
        return z3.If(x > 0, 1, z3.If(x < 0, -1, 0))
    if k == 'abs':
        if not ex.branch(b_not(n_eq(x, lo)), 'abs overflow'):
            ex.panic('attempt to negate with overflow (abs)')
    return i_abs(x)


@model(r'^<impl (i8|i16|i32|i64|i128|isize|u8|u16|u32|u64|u128|usize)>::pow$')
def m_int_pow(ex, m, args, callee):
    b, e = args
    ty = m.group(1)
    e = ex.concretize_int(e, 'pow exponent', 0, 20) if not is_conc(simp(e)) else int(simp(e))
    r = 1
    for _ in range(e):
        r = n_mul(r, b)
        if not ex.branch(in_range(r, ty), 'pow overflow'):
            ex.panic('attempt to multiply with overflow (pow)')
    return r


@model(r'^<impl (i8|i16|i32|i64|i128|isize|u8|u16|u32|u64|u128|usize)>::(checked_add|checked_sub|checked_mul|wrapping_add|wrapping_sub|wrapping_mul|saturating_sub|saturating_add)$')
def m_int_checked(ex, m, args, callee):
    a, b = args
    ty = m.group(1)
    k = m.group(2)
    f = {'add': n_add, 'sub': n_sub, 'mul': n_mul}[k.split('_')[1]]
    r = f(a, b)
    if k.startswith('checked'):
        if ex.branch(in_range(r, ty), k):
            return some(ex, r)
        return none(ex)
    if k.startswith('wrapping'):
        return wrap_int(r, ty)
    lo, hi = INT_RANGES[ty]
    if is_conc(r):
        return max(lo, min(hi, r))
    return z3.If(r < lo, lo, z3.If(r > hi, hi, r))


@model(r'^<(&?)(i8|i16|i32|i64|i128|isize|u8|u16|u32|u64|u128|usize) as (Add|Sub|Mul|Div|Rem)(<.*>)?>::(add|sub|mul|div|rem)$')
def m_int_ops(ex, m, args, callee):
    a, b = val(args[0]), val(args[1])
    ty = m.group(2)
    k = m.group(5)
    if k in ('div', 'rem'):
        if not ex.branch(b_not(n_eq(b, 0)), 'int div by zero'):
            ex.panic('attempt to divide by zero')
        return ex.divmod(a, b)[0 if k == 'div' else 1]
    r = {'add': n_add, 'sub': n_sub, 'mul': n_mul}[k](a, b)
    if not ex.branch(in_range(r, ty), 'int %s overflow' % k):
        ex.panic('attempt to %s with overflow' % k)
    return r


@model(r'^<(&?)(i8|i16|i32|i64|i128|isize) as Neg>::neg$')
def m_int_neg(ex, m, args, callee):
    a = val(args[0])
    lo, hi = INT_RANGES[m.group(2)]
    if not ex.branch(b_not(n_eq(a, lo)), 'neg overflow'):
        ex.panic('attempt to negate with overflow')
    return n_neg(a)


@model(r'^<(i8|i16|i32|i64|i128|isize|u8|u16|u32|u64|u128|usize|f64) as From<(i8|i16|i32|i64|u8|u16|u32|u64|usize|bool|char)>>::from$')
def m_int_from(ex, m, args, callee):
    v = args[0]
    if m.group(1) == 'f64':
        return float_cast(ex, 'IntToFloat', v, m.group(2), 'f64')
    if isinstance(v, bool):
        return int(v)
    return v


@model(r'^<(i8|i16|i32|i64|i128|isize|u8|u16|u32|u64|u128|usize) as TryFrom<(\w+)>>::try_from$')
def m_int_tryfrom(ex, m, args, callee):
    v = args[0]
    if ex.branch(in_range(v, m.group(1)), 'try_from in range'):
        return ok(v)
    return err(Opaque('TryFromIntError'))


def parse_digits(ex, s, radix, what):
    """digit string (concrete or symbolic) -> (valid Bool, value Int, negative?)"""
    if isinstance(s, str):
        chars = [ord(c) for c in s]
    elif isinstance(s, SymStr):
        chars = s.chars
    else:
        raise Unmodelled('%s of opaque string' % what)
    return chars


def digit_value(c, radix):
    """(valid, value) for a char code (concrete int or z3 Int)"""
    if is_conc(c):
        ch = chr(c)
        if ch.isdigit() and ch.isascii():
            d = ord(ch) - 48
        elif 'a' <= ch <= 'z':
            d = ord(ch) - 87
        elif 'A' <= ch <= 'Z':
            d = ord(ch) - 55
        else:
            return False, 0
        return d < radix, d
    d = z3.If(z3.And(c >= 48, c <= 57), c - 48, z3.If(z3.And(c >= 97, c <= 122), c - 87,
                                                      z3.If(z3.And(c >= 65, c <= 90), c - 55, z3.IntVal(99))))
    return simp(d < radix), d


def horner(ex, chars, radix, allow_sign, allow_underscore=False):
    """-> (valid Bool, value Int)   [std/num from_str_radix contract: optional sign, >=1 digit]"""
    neg = False
    i = 0
    if allow_sign and chars:
        c0 = chars[0]
        if is_conc(c0):
            if c0 == ord('-'):
                neg = True
                i = 1
            elif c0 == ord('+'):
                i = 1
        else:
            if ex.branch(n_eq(c0, ord('-')), 'sign -'):
                neg = True
                i = 1
            elif ex.branch(n_eq(c0, ord('+')), 'sign +'):
                i = 1
    digits = chars[i:]
    if not digits:
        return False, 0
    valid = True
    v = 0
    for c in digits:
        okd, d = digit_value(c, radix)
        valid = b_and(valid, okd)
        v = n_add(n_mul(v, radix), d)
    if neg:
        v = n_neg(v)
    return valid, v


@model(r'^<(i8|i16|i32|i64|i128|isize|u8|u16|u32|u64|u128|usize) as FromStr>::from_str$|^<impl (i8|i16|i32|i64|i128|isize|u8|u16|u32|u64|u128|usize)>::from_str_radix$')
def m_int_from_str(ex, m, args, callee):
    ty = m.group(1) or m.group(2)
    radix = 10 if m.group(1) else ex.concretize_int(args[1], 'radix')
    s = val(args[0])
    chars = parse_digits(ex, s, radix, 'from_str')
    signed = ty.startswith('i')
    if not signed and chars and is_conc(chars[0]) and chars[0] == ord('-'):
        return err(Opaque('ParseIntError', 'InvalidDigit'))
    valid, v = horner(ex, chars, radix, True)
    if not signed and not is_conc(chars[0] if chars else 0):
        pass
    if not ex.branch(valid, 'digits valid'):
        return err(Opaque('ParseIntError', 'InvalidDigit/Empty'))
    if not ex.branch(in_range(v, ty), 'parsed int fits ' + ty):
        return err(Opaque('ParseIntError', 'Overflow'))
    return ok(v)


@model(r'^<impl str>::parse$')
def m_str_parse(ex, m, args, callee):
    tm = re.search(r'::parse::<([A-Za-z0-9_:]+)>$', callee)
    ty = tm.group(1).split('::')[-1] if tm else None
    if ty in INT_RANGES and ty not in ('char', 'bool'):
        mm = re.match(r'^<(i8|i16|i32|i64|i128|isize|u8|u16|u32|u64|u128|usize) as FromStr>::from_str$', '<%s as FromStr>::from_str' % ty)
        return m_int_from_str(ex, mm, args, callee)
    if ty == 'f64':
        return m_f64_from_str(ex, m, args, callee)
    raise Unmodelled('str::parse::<%s>' % ty)


def string_chars(v):
    """code points (concrete ints or z3 Ints) of a string value: str, SymStr, or the pieces of a symbolic format!"""
    v = deref_all(v)
    if isinstance(v, str):
        return [ord(c) for c in v]
    if isinstance(v, SymStr):
        return list(v.chars)
    if isinstance(v, Opaque) and isinstance(v.info, tuple) and v.info and v.info[0] == 'pieces':
        out = []
        for pc in v.info[1]:
            if isinstance(pc, str):
                out += [ord(c) for c in pc]
            else:
                sub = string_chars(pc[1])
                if sub is None:
                    return None
                out += sub
        return out
    return None


@model(r'^<f64 as FromStr>::from_str$')
def m_f64_from_str(ex, m, args, callee):
    """decimal text `[-]ddd[.ddd]` -> the nearest double.  Concrete text: the exact value of that double (Python floats are
    IEEE doubles); symbolic digits: the decimal value within half an ulp (relative 2^-53)."""
    chars = string_chars(args[0])
    if chars is None:
        raise Unmodelled('f64::from_str of an opaque string')
    if all(is_conc(c) for c in chars):
        t = ''.join(chr(c) for c in chars)
        import re as _r
        if not _r.match(r'^[+-]?(\d+\.?\d*|\.\d+)([eE][+-]?\d+)?$', t):
            if t.lower().lstrip('+-') in ('inf', 'infinity', 'nan'):
                raise Unmodelled('f64::from_str of %r' % t)
            return err(Opaque('ParseFloatError'))
        f = float(t)
        if f != f or f in (float('inf'), float('-inf')):
            return ok(F64(Fraction(0), False, True))
        return ok(F64(Fraction(f)))
    neg = False
    i = 0
    if chars and is_conc(chars[0]) and chars[0] in (ord('-'), ord('+')):
        neg = chars[0] == ord('-')
        i = 1
    ip, fp, seen_dot = [], [], False
    for c in chars[i:]:
        if is_conc(c) and c == ord('.') and not seen_dot:
            seen_dot = True
            continue
        (fp if seen_dot else ip).append(c)
    if not ip and not fp:
        return err(Opaque('ParseFloatError'))
    valid = True
    val_ = z3.RealVal(0)
    for c in ip:
        okd, d = digit_value(c, 10)
        valid = b_and(valid, okd)
        val_ = val_ * 10 + z3.ToReal(zint(d))
    scale = Fraction(1)
    for c in fp:
        okd, d = digit_value(c, 10)
        valid = b_and(valid, okd)
        scale = scale / 10
        val_ = val_ + z3.ToReal(zint(d)) * zreal(scale)
    if not ex.branch(valid, 'decimal digits valid'):
        return err(Opaque('ParseFloatError'))
    if neg:
        val_ = -val_
    r = ex.fresh('parsed_f64', 'Real')
    a_ = z3.If(val_ >= 0, val_, -val_)
    bound = a_ * zreal(Fraction(1, 2 ** 53)) + zreal(Fraction(1, 2 ** 1074))
    ex.assume(z3.And(r - val_ <= bound, val_ - r <= bound))
    return ok(F64(r, False, False))


@model(r'^<impl char>::(to_digit|is_digit|is_ascii_digit|is_alphabetic|is_alphanumeric|is_whitespace|is_numeric|is_ascii_alphabetic|is_ascii_hexdigit|len_utf8)$|^char::methods::<impl char>::(\w+)$')
def m_char(ex, m, args, callee):
    k = m.group(1) or m.group(2)
    c = val(args[0])
    if is_conc(c):
        ch = chr(c)
        if k == 'to_digit':
            radix = ex.concretize_int(args[1], 'radix')
            okd, d = digit_value(c, radix)
            return some(ex, d) if okd else none(ex)
        if k == 'is_digit':
            radix = ex.concretize_int(args[1], 'radix')
            return digit_value(c, radix)[0]
        if k == 'is_ascii_digit':
            return ch.isascii() and ch.isdigit()
        if k == 'is_alphabetic':
            return ch.isalpha()
        if k == 'is_alphanumeric':
            return ch.isalnum()
        if k == 'is_whitespace':
            return ch.isspace()
        if k == 'is_numeric':
            return ch.isnumeric()
        if k == 'is_ascii_alphabetic':
            return ch.isascii() and ch.isalpha()
        if k == 'is_ascii_hexdigit':
            return ch in '0123456789abcdefABCDEF'
        if k == 'len_utf8':
            return len(ch.encode('utf-8'))
    if k == 'to_digit':
        radix = ex.concretize_int(args[1], 'radix')
        okd, d = digit_value(c, radix)
        if ex.branch(okd, 'char is digit'):
            return some(ex, d)
        return none(ex)
    if k == 'is_digit':
        radix = ex.concretize_int(args[1], 'radix')
        return digit_value(c, radix)[0]
    if k == 'is_ascii_digit':
        return simp(z3.And(c >= 48, c <= 57))
    if k == 'is_ascii_hexdigit':
        return simp(z3.Or(z3.And(c >= 48, c <= 57), z3.And(c >= 65, c <= 70), z3.And(c >= 97, c <= 102)))
    if k == 'is_ascii_alphabetic':
        return simp(z3.Or(z3.And(c >= 65, c <= 90), z3.And(c >= 97, c <= 122)))
    if k == 'len_utf8':
        return z3.If(c < 0x80, 1, z3.If(c < 0x800, 2, z3.If(c < 0x10000, 3, 4)))
    raise Unmodelled('char::%s on symbolic char' % k)


@model(r'^<impl char>::(to_ascii_lowercase|to_ascii_uppercase|to_lowercase|to_uppercase)$')
def m_char_case(ex, m, args, callee):
    c = val(args[0])
    k = m.group(1)
    if k not in ('to_ascii_lowercase', 'to_ascii_uppercase'):
        raise Unmodelled('char::' + k)
    if is_conc(c):
        ch = chr(c)
        return ord(ch.lower() if k == 'to_ascii_lowercase' and ch.isascii() else ch.upper() if ch.isascii() and k == 'to_ascii_uppercase' else ch)
    if k == 'to_ascii_lowercase':
        return z3.If(z3.And(c >= 65, c <= 90), c + 32, c)
    return z3.If(z3.And(c >= 97, c <= 122), c - 32, c)


@model(r'^(from_u32|char::from_u32)$')
def m_from_u32(ex, m, args, callee):
    v = args[0]
    okc = simp(z3.And(zint(v) >= 0, zint(v) <= 0x10FFFF, z3.Not(z3.And(zint(v) >= 0xD800, zint(v) <= 0xDFFF)))) if not is_conc(v) else (
        0 <= v <= 0x10FFFF and not (0xD800 <= v <= 0xDFFF))
    if ex.branch(okc, 'valid unicode scalar'):
        return some(ex, v)
    return none(ex)


@model(r'^(from_digit|char::from_digit)$')
def m_from_digit(ex, m, args, callee):
    d, radix = args
    radix = ex.concretize_int(radix, 'radix')
    if not (2 <= radix <= 36):
        ex.panic('from_digit: radix is too high')
    if is_conc(d):
        if d < radix:
            return some(ex, ord('0123456789abcdefghijklmnopqrstuvwxyz'[d]))
        return none(ex)
    if ex.branch(n_lt(d, radix), 'from_digit d<radix'):
        ex.assume(n_ge(d, 0))
        return some(ex, b_ite(n_lt(d, 10), n_add(d, 48), n_add(d, 87)))
    return none(ex)


# ----------------------------------------------------------------------------- num-bigint (NumInt = z3 Int)

@model(r'^<NumInt as (One|Zero)>::(one|zero)$')
def m_numint_const(ex, m, args, callee):
    return 1 if m.group(2) == 'one' else 0


@model(r'^<NumInt as From<(u64|i64|u32|i32|usize|u8|i128|u128)>>::from$')
def m_numint_from(ex, m, args, callee):
    return args[0]


@model(r'^<&NumInt as (Add|Sub|Mul)(<.*>)?>::(add|sub|mul)$')
def m_numint_arith(ex, m, args, callee):
    if m.group(3) == 'mul':
        # k * numer(v), usually divided by denom(v) next (long division): keep it lazy so that the quotient can be
        # answered by the identity trunc(k*numer(v) / denom(v)) = trunc(k*v), linear in v
        a0, b0 = deref_all(args[0]), deref_all(args[1])
        for x, k in ((a0, b0), (b0, a0)):
            if is_z3(x) and is_conc(k) and not isinstance(k, bool):
                q = ex.memo.get(('partof', x.get_id()))
                if q and q[1] == 'n' and ('deferred', x.get_id()) in ex.memo:
                    pr = ex.fresh('scaled_numer', 'Int')
                    ex.memo[('scaledof', pr.get_id())] = (q[0], int(k))
                    ex.memo[('deferred', pr.get_id())] = [pr == int(k) * x] + list(ex.memo[('deferred', x.get_id())])
                    return pr
    a, b = nv(ex, args[0]), nv(ex, args[1])
    return {'add': n_add, 'sub': n_sub, 'mul': n_mul}[m.group(3)](a, b)


@model(r'^<&NumInt as (Div|Rem)(<.*>)?>::(div|rem)$')
def m_numint_div(ex, m, args, callee):
    a, b = val(args[0]), val(args[1])
    if is_z3(a) and is_z3(b) and m.group(3) == 'div':
        # identity: numer(v) / denom(v) (truncating) = trunc(v)  -- keeps the term linear in v
        qa = ex.memo.get(('partof', a.get_id()))
        qb = ex.memo.get(('partof', b.get_id()))
        if qa and qb and qa[1] == 'n' and qb[1] == 'd' and qa[0].get_id() == qb[0].get_id():
            return r_trunc(qa[0])     # denom >= 1: never a division by zero
        sa = ex.memo.get(('scaledof', a.get_id()))
        if sa and qb and qb[1] == 'd' and sa[0].get_id() == qb[0].get_id():
            return r_trunc(n_mul(Fraction(sa[1]), sa[0]))
    a, b = force(ex, a), force(ex, b)
    if not ex.branch(b_not(n_eq(b, 0)), 'bigint divisor != 0'):
        ex.panic('attempt to divide by zero (BigInt)')
    return i_tdiv(a, b) if m.group(3) == 'div' else i_trem(a, b)


@model(r'^<&NumInt as (BitAnd|BitOr|BitXor)(<.*>)?>::(bitand|bitor|bitxor)$')
def m_numint_bits(ex, m, args, callee):
    a, b = nv(ex, args[0]), nv(ex, args[1])
    k = m.group(3)
    if is_conc(a) and is_conc(b):
        return {'bitand': a & b, 'bitor': a | b, 'bitxor': a ^ b}[k]
    # num-bigint's two's-complement bit operators are trusted library code: modelled as an
    # uninterpreted function of the two integer values (same symbol used by the oracle)
    f = z3.Function('bigint_' + k, z3.IntSort(), z3.IntSort(), z3.IntSort())
    return f(zint(a), zint(b))


@model(r'^<NumInt as Signed>::abs$')
def m_numint_abs(ex, m, args, callee):
    return i_abs(nv(ex, args[0]))


@model(r'^NumInt::pow$|^<NumInt as Pow<u32>>::pow$')
def m_numint_pow(ex, m, args, callee):
    b = val(args[0])
    e = simp(args[1])
    if not (is_z3(b) and ex.memo.get(('partof', b.get_id()))):
        force(ex, b)
    if is_conc(e):
        e = int(e)
        if is_conc(b):
            if e > 100000 and abs(b) >= 2:
                # not a panic but a resource blow-up: base^e has more than 10^5 bits
                ex.panic('RESOURCE: BigInt::pow computes %d^%d' % (b, e))
            return b ** e
        if e > 64:
            raise Unmodelled('symbolic base to large concrete power %d' % e)
        r = 1
        for _ in range(e):
            r = n_mul(r, b)
        if is_z3(r) and is_z3(b):
            ex.memo[('powof', r.get_id())] = (b, e)
        return r
    force(ex, b)
    if is_conc(b):
        # concrete base, symbolic but provably small exponent: exact table instead of an uninterpreted power
        ez = zint(e)
        if ex.check(z3.Or(ez < 0, ez > 128)) == z3.unsat:
            r = z3.IntVal(b ** 128)
            for k in range(127, -1, -1):
                r = z3.If(ez == k, z3.IntVal(b ** k), r)
            return r
    return ex.sym_pow(b, e)


@model(r'^<NumInt as ToPrimitive>::to_i64$')
def m_numint_to_i64(ex, m, args, callee):
    v = nv(ex, args[0])
    if ex.branch(in_range(v, 'i64'), 'bigint fits i64'):
        return some(ex, v)
    return none(ex)


@model(r'^NumInt::bits$')
def m_numint_bits_len(ex, m, args, callee):
    v = nv(ex, args[0])
    if is_conc(v):
        return abs(v).bit_length()
    r = ex.fresh('bits', 'Int')
    ex.assume(r >= 0)
    # bits(v) = b  <=>  2^(b-1) <= |v| < 2^b   (stated for b up to 16; beyond that only "b > 16")
    a = z3.If(zint(v) >= 0, zint(v), -zint(v))
    ex.assume((r == 0) == (a == 0))
    for b in range(1, 17):
        ex.assume((r == b) == z3.And(a >= 2 ** (b - 1), a < 2 ** b))
    return r


@model(r'^<NumInt as Signed>::(is_positive|is_negative)$')
def m_numint_sign_test(ex, m, args, callee):
    v = nv(ex, args[0])
    return n_gt(v, 0) if m.group(1) == 'is_positive' else n_lt(v, 0)


@model(r'^NumInt::trailing_zeros$')
def m_numint_trailing_zeros(ex, m, args, callee):
    """Some(k) with 2^k the largest power of two dividing v, None for 0; symbolic v: k is enumerated up to 12"""
    v = nv(ex, args[0])
    if is_conc(v):
        if v == 0:
            return none(ex)
        k = 0
        while v % 2 == 0:
            v //= 2
            k += 1
        return some(ex, k)
    if ex.branch(n_eq(v, 0), 'trailing_zeros of zero'):
        return none(ex)
    for k in range(0, 13):
        if ex.branch(z3.And(zint(v) % (2 ** k) == 0, zint(v) % (2 ** (k + 1)) != 0), 'trailing_zeros = %d' % k):
            return some(ex, k)
    raise Unmodelled('trailing_zeros above 12 of a symbolic integer')


@model(r'^<&?NumInt as Shr<(u8|u16|u32|u64|usize|i32|i64)>>::shr$')
def m_numint_shr(ex, m, args, callee):
    """num-bigint's >> rounds towards negative infinity"""
    a = nv(ex, args[0])
    k = simp(val(args[1]))
    if not is_conc(k):
        raise Unmodelled('big integer shifted by a symbolic amount')
    k = int(k)
    if is_conc(a):
        return int(a) >> k
    return zint(a) / (2 ** k)        # SMT integer division by a positive constant is the floor


@model(r'^<NumInt as Num>::from_str_radix$')
def m_numint_from_str(ex, m, args, callee):
    s = val(args[0])
    radix = ex.concretize_int(args[1], 'radix')
    chars = parse_digits(ex, s, radix, 'BigInt::from_str_radix')
    # num-bigint: optional sign, then digits; '_' allowed between digits (not leading)
    cs = list(chars)
    # num-bigint 0.4: '_' between digits is skipped, a leading '_' (after the sign) is rejected
    body = cs[1:] if (cs and is_conc(cs[0]) and cs[0] in (43, 45)) else cs
    if body and is_conc(body[0]) and body[0] == 95:
        return err(Opaque('ParseBigIntError'))
    kept = []
    for c in cs:
        if is_conc(c):
            if c != 95:
                kept.append(c)
        elif not ex.branch(n_eq(c, 95), 'char is an underscore'):
            kept.append(c)
    cs = kept
    valid, v = horner(ex, cs, radix, True)
    if ex.branch(valid, 'bigint digits valid'):
        return ok(v)
    return err(Opaque('ParseBigIntError'))


@model(r'^<NumInt as (Display|Debug)>::fmt$|^<NumRat as (Display|Debug)>::fmt$')
def m_num_fmt(ex, m, args, callee):
    return ok(Tup([]))


# ----------------------------------------------------------------------------- num-rational (NumRat = z3 Real)

@model(r'^<NumRat as (One|Zero)>::(one|zero)$')
def m_numrat_const(ex, m, args, callee):
    return Fraction(1) if m.group(2) == 'one' else Fraction(0)


@model(r'^NumRat::new$')
def m_numrat_new(ex, m, args, callee):
    n, d = val(args[0]), val(args[1])
    # algebraic identity  numer(v)^e / denom(v)^e = v^e  (keeps the term polynomial in v; denom >= 1
    # so the new denominator cannot be zero)
    if is_z3(n) and is_z3(d):
        pn = ex.memo.get(('powof', n.get_id()))
        pd = ex.memo.get(('powof', d.get_id()))
        if pn and pd and pn[1] == pd[1]:
            qn = ex.memo.get(('partof', pn[0].get_id()))
            qd = ex.memo.get(('partof', pd[0].get_id()))
            if qn and qd and qn[1] == 'n' and qd[1] == 'd' and qn[0].get_id() == qd[0].get_id():
                v = qn[0]
                r = z3.RealVal(1)
                for _ in range(pn[1]):
                    r = r * v
                return r
        for x in (n, d):
            p = ex.memo.get(('powof', x.get_id()))
            force(ex, p[0] if p else x)
    if not ex.branch(b_not(n_eq(d, 0)), 'Ratio::new denom != 0'):
        ex.panic('Ratio::new: denominator == 0')
    if is_conc(n) and is_conc(d):
        return Fraction(n, d)
    return simp(r_div(n, d))


def rat_parts(ex, v):
    """numer/denom of a reduced rational as Ints, with the structural facts rink relies on"""
    if is_conc(v):
        v = Fraction(v)
        return v.numerator, v.denominator
    key = ('parts', v.get_id())
    c = ex.memo.get(key)
    if c is not None:
        return c
    n = ex.fresh('numer', 'Int')
    d = ex.fresh('denom', 'Int')
    # defining facts are deferred until n or d is actually inspected (see force()): the common use
    # numer/denom (truncating) is answered by the identity trunc(n/d) = trunc(v) without them
    cons = [d >= 1,
            z3.ToReal(n) == v * z3.ToReal(d),
            (d == 1) == z3.IsInt(v),
            z3.Implies(d == 1, z3.ToReal(n) == v),
            z3.Implies(n == 1, v > 0),
            z3.Implies(n == -1, v < 0),
            z3.Implies(z3.And(v != 0, z3.IsInt(1 / v)), z3.Or(n == 1, n == -1)),
            z3.Implies(z3.Or(n == 1, n == -1), z3.ToReal(d) * v * z3.ToReal(n) == 1)]
    ex.memo[('deferred', n.get_id())] = cons
    ex.memo[('deferred', d.get_id())] = cons
    ex.memo[key] = (n, d)
    ex.memo[('partof', n.get_id())] = (v, 'n')
    ex.memo[('partof', d.get_id())] = (v, 'd')
    return n, d


@model(r'^NumRat::(numer|denom)$')
def m_numrat_parts(ex, m, args, callee):
    v = val(args[0])
    n, d = rat_parts(ex, v)
    x = n if m.group(1) == 'numer' else d
    return Ref(Cell(x, 'ratpart'))


@model(r'^<&NumRat as (Add|Sub|Mul)(<.*>)?>::(add|sub|mul)$')
def m_numrat_arith(ex, m, args, callee):
    a, b = val(args[0]), val(args[1])
    a = Fraction(a) if is_conc(a) else a
    b = Fraction(b) if is_conc(b) else b
    return {'add': n_add, 'sub': n_sub, 'mul': n_mul}[m.group(3)](a, b)


@model(r'^<&NumRat as Div(<.*>)?>::div$')
def m_numrat_div(ex, m, args, callee):
    a, b = val(args[0]), val(args[1])
    if not ex.branch(b_not(n_eq(b, 0)), 'rational divisor != 0'):
        ex.panic('Ratio division by zero ("denominator == 0")')
    return r_div(a, b)


@model(r'^<&NumRat as Rem(<.*>)?>::rem$')
def m_numrat_rem(ex, m, args, callee):
    a, b = val(args[0]), val(args[1])
    if not ex.branch(b_not(n_eq(b, 0)), 'rational modulus != 0'):
        ex.panic('Ratio remainder by zero ("attempt to divide by zero")')
    q = r_trunc(r_div(a, b))
    if is_conc(a) and is_conc(b):
        return Fraction(a) - Fraction(b) * q
    return n_sub(a, n_mul(b, zreal(q) if not is_conc(q) else Fraction(q)))


@model(r'^NumRat::from_integer$|^<NumRat as From<NumInt>>::from$')
def m_numrat_from_integer(ex, m, args, callee):
    n = val(args[0])
    while isinstance(n, Struct) and len(n.fields) == 1:
        n = deref_all(n.fields[0])
    if is_conc(n):
        return Fraction(int(n))
    return z3.ToReal(n) if z3.is_int(n) else n


@model(r'^NumRat::is_integer$')
def m_numrat_is_integer(ex, m, args, callee):
    v = val(args[0])
    if is_conc(v):
        return Fraction(v).denominator == 1
    v = zreal(v)
    return z3.IsInt(v)


@model(r'^NumRat::(floor|ceil|trunc|round|fract)$')
def m_numrat_rounding(ex, m, args, callee):
    # num-rational: floor / ceil toward -inf / +inf, trunc toward zero, round half away from zero, fract = self - trunc;
    # each result is again a ratio
    v = val(args[0])
    op = m.group(1)
    if is_conc(v):
        f = Fraction(v)
        fl = f.numerator // f.denominator
        tr = fl if f >= 0 or f.denominator == 1 else fl + 1
        if op == 'floor':
            return Fraction(fl)
        if op == 'ceil':
            return Fraction(-((-f.numerator) // f.denominator))
        if op == 'trunc':
            return Fraction(tr)
        if op == 'fract':
            return f - tr
        a = abs(f) + Fraction(1, 2)
        r = a.numerator // a.denominator
        return Fraction(r if f >= 0 else -r)
    v = zreal(v)
    fl = z3.ToReal(z3.ToInt(v))
    ce = -z3.ToReal(z3.ToInt(-v))
    tr = z3.If(v >= 0, fl, ce)
    if op == 'floor':
        return fl
    if op == 'ceil':
        return ce
    if op == 'trunc':
        return tr
    if op == 'fract':
        return v - tr
    return z3.If(v >= 0, z3.ToReal(z3.ToInt(v + z3.RealVal('1/2'))), -z3.ToReal(z3.ToInt(-v + z3.RealVal('1/2'))))


@model(r'^<&NumRat as Neg>::neg$')
def m_numrat_neg(ex, m, args, callee):
    return n_neg(val(args[0]))


@model(r'^<NumRat as Signed>::abs$')
def m_numrat_abs(ex, m, args, callee):
    v = val(args[0])
    if is_conc(v):
        return abs(v)
    return z3.If(v >= 0, v, -v)


@model(r'^<NumRat as ToPrimitive>::to_f64$')
def m_numrat_to_f64(ex, m, args, callee):
    v = val(args[0])
    # num-rational's to_f64 always yields Some; the float is the rational's value up to rounding.  The value
    # model keeps the exact value (rounding is ignored - stated in DESIGN.md) and flags overflow to infinity.
    tiny = Fraction(1, 2 ** 1075)          # below half the smallest subnormal the nearest float is 0.0
    if is_conc(v):
        big = abs(v) >= 2 ** 1024
        vv = Fraction(v)
        if abs(vv) < tiny:
            vv = Fraction(0)
        return some(ex, F64(vv if not big else Fraction(v), False, big))
    under = z3.And(v > -zreal(tiny), v < zreal(tiny))
    return some(ex, F64(z3.If(under, z3.RealVal(0), v), False, inf_of(v)))


@model(r'^NumRat::from_float$')
def m_numrat_from_float(ex, m, args, callee):
    f = val(args[0])
    bad = b_or(f.nan, f.inf)
    if ex.branch(bad, 'float is NaN/inf'):
        return none(ex)
    v = f.val
    return some(ex, Fraction(v) if is_conc(v) else v)


# ----------------------------------------------------------------------------- f64

@model(r'^<impl f64>::(\w+)$')
def m_f64(ex, m, args, callee):
    k = m.group(1)
    f = val(args[0])
    if k == 'is_nan':
        return f.nan
    if k == 'is_infinite':
        return b_and(f.inf, b_not(f.nan))
    if k == 'is_finite':
        return b_not(b_or(f.nan, f.inf))
    if k in ('is_sign_positive', 'is_sign_negative'):
        pos = n_ge(f.val, 0)
        return pos if k == 'is_sign_positive' else b_not(pos)
    if k == 'abs':
        v = f.val
        return F64(abs(v) if is_conc(v) else z3.If(v >= 0, v, -v), f.nan, f.inf)
    if k == 'classify':
        if ex.branch(f.nan, 'classify nan'):
            return Enum('FpCategory', 0, 'Nan', [])
        if ex.branch(f.inf, 'classify inf'):
            return Enum('FpCategory', 1, 'Infinite', [])
        if ex.branch(n_eq(f.val, 0), 'classify zero'):
            return Enum('FpCategory', 2, 'Zero', [])
        return Enum('FpCategory', 4, 'Normal', [])
    if k in ('powf', 'powi', 'ln', 'log', 'log2', 'log10', 'exp', 'sqrt', 'sin', 'cos', 'tan', 'asin', 'acos', 'atan',
             'atan2', 'sinh', 'cosh', 'tanh', 'asinh', 'acosh', 'atanh', 'hypot', 'floor', 'ceil', 'round', 'trunc',
             'fract', 'exp2', 'cbrt', 'mul_add', 'recip', 'to_degrees', 'to_radians', 'max', 'min', 'signum',
             'copysign', 'rem_euclid', 'div_euclid', 'ln_1p', 'exp_m1'):
        return fresh_f64(ex, k)
    raise Unmodelled('f64::' + k)


@model(r'^<f64 as (Add|Sub|Mul|Div|Rem)(<.*>)?>::(add|sub|mul|div|rem)$')
def m_f64_ops(ex, m, args, callee):
    return float_binop(ex, m.group(1), val(args[0]), val(args[1]))


# ----------------------------------------------------------------------------- BTreeMap / BTreeSet / HashSet

@model(r'^(BTreeMap|BTreeSet|HashMap|HashSet)::new$')
def m_map_new(ex, m, args, callee):
    return MapV()


def map_of(a):
    m = val(a)
    if not isinstance(m, MapV):
        raise Unmodelled('expected a map, got %r' % (m,))
    return m


@model(r'^(BTreeMap|HashMap)::insert$')
def m_map_insert(ex, m, args, callee):
    mp = map_of(args[0])
    fk = freeze(args[1])
    old = mp.ent.get(fk)
    mp.ent[fk] = [args[1], True, args[2]]
    if old is None:
        return none(ex)
    if ex.branch(old[1], 'insert replaces %r' % (fk,)):
        return some(ex, old[2])
    return none(ex)


@model(r'^(BTreeSet|HashSet)::insert$')
def m_set_insert(ex, m, args, callee):
    cur = val(args[0])
    try:
        fk0 = freeze(args[1])
    except Unmodelled:
        fk0 = None
    if isinstance(cur, SymSet) or (fk0 is None and isinstance(cur, MapV) and not cur.ent):
        # a set of symbolic values: membership by forking on equality
        if not isinstance(cur, SymSet):
            cur = SymSet()
            store(innermost_ref(args[0]), cur)
        for i, it in enumerate(cur.items):
            if ex.branch(eq_dispatch(ex, it, args[1]), 'set element %d equal' % i):
                return False
        cur.items.append(args[1])
        return True
    mp = map_of(args[0])
    fk = freeze(args[1])
    old = mp.ent.get(fk)
    mp.ent[fk] = [args[1], True, Tup([])]
    if old is None:
        return True
    return b_not(old[1])


@model(r'^(BTreeMap|HashMap|BTreeSet|HashSet)::(get|get_mut|contains_key|contains|remove)$')
def m_map_get(ex, m, args, callee):
    mp = map_of(args[0])
    k = m.group(2)
    try:
        fk = freeze(args[1])
    except Unmodelled:
        fk = _symbolic_dim_key(ex, mp, args[1])
    e = mp.ent.get(fk)
    present = e[1] if e is not None else False
    if k in ('contains_key', 'contains'):
        return present
    if not ex.branch(present, 'map get %r' % (fk,)):
        return none(ex)
    r = innermost_ref(args[0])
    if k == 'remove':
        v = e[2]
        e[1] = False
        return some(ex, v) if m.group(1) in ('BTreeMap', 'HashMap') else True
    if m.group(1) in ('BTreeSet', 'HashSet'):
        return some(ex, Ref(r.cell, r.path + (('k', fk),)))
    return some(ex, Ref(r.cell, r.path + (('v', fk),)))


def _symbolic_dim_key(ex, mp, keyarg):
    """a Dimensionality with symbolic entries used as a key into a map with concrete Dimensionality keys: fork on equality
    with each stored key (exponent-wise); returns the frozen stored key that equals it, or a key that is not in the map"""
    kv = deref_all(keyarg)
    if not (isinstance(kv, Struct) and kv.name == 'Dimensionality' and isinstance(kv.fields[0], MapV)):
        raise Unmodelled('non-concrete container key %r' % (kv,))
    mine = kv.fields[0].ent
    for fk, (stored, present, _v) in sorted(mp.ent.items()):
        sk = deref_all(stored)
        if not (isinstance(sk, Struct) and sk.name == 'Dimensionality'):
            raise Unmodelled('symbolic key against a map of %r' % (sk,))
        theirs = sk.fields[0].ent
        conds = []
        for name in sorted(set(mine) | set(theirs)):
            mp_, me = (mine[name][1], mine[name][2]) if name in mine else (False, 0)
            tp_, te = (theirs[name][1], theirs[name][2]) if name in theirs else (False, 0)
            # effective exponent (0 when absent) must agree; entries never carry 0 (representation invariant)
            conds.append(n_eq(b_ite(mp_, me, 0) if not isinstance(mp_, bool) else (me if mp_ else 0),
                              b_ite(tp_, te, 0) if not isinstance(tp_, bool) else (te if tp_ else 0)))
        c = True
        for x in conds:
            c = b_and(c, x)
        if ex.branch(c, 'dimensionality key equals %r' % (fk,)):
            return fk
    return ('no-such-key',)


class EntryV:
    is_model = True

    def __init__(self, mapref, fk, keyval):
        self.mapref = mapref
        self.fk = fk
        self.keyval = keyval

    def dup(self):
        return self


@model(r'^(BTreeMap|HashMap)::entry$')
def m_map_entry(ex, m, args, callee):
    r = innermost_ref(args[0])
    map_of(r)
    return EntryV(r, freeze(args[1]), args[1])


@model(r'^Entry::(or_insert|or_insert_with|or_default|and_modify)$')
def m_entry(ex, m, args, callee):
    e = val(args[0])
    mp = load(e.mapref)
    k = m.group(1)
    ent = mp.ent.get(e.fk)
    present = ent[1] if ent is not None else False
    if k == 'and_modify':
        if ex.branch(present, 'entry present'):
            ex.call_value(args[1], [Ref(e.mapref.cell, e.mapref.path + (('v', e.fk),))])
        return e
    if not ex.branch(present, 'entry present'):
        if k == 'or_insert':
            v = args[1]
        elif k == 'or_insert_with':
            v = ex.call_value(args[1], [])
        else:
            v = 0
        mp.ent[e.fk] = [e.keyval, True, v]
    return Ref(e.mapref.cell, e.mapref.path + (('v', e.fk),))


@model(r'^(BTreeMap|HashMap|BTreeSet|HashSet)::(len|is_empty)$')
def m_map_len(ex, m, args, callee):
    if isinstance(val(args[0]), SymSet):
        n = len(val(args[0]).items)
        return n if m.group(2) == 'len' else n == 0
    mp = map_of(args[0])
    n = mp.count()
    if m.group(2) == 'len':
        return n
    return n_eq(n, 0)


@model(r'^(BTreeMap|HashMap|BTreeSet|HashSet)::(iter|iter_mut|values|keys|values_mut|into_keys|into_values)$')
def m_map_iter(ex, m, args, callee):
    k = m.group(2)
    if k in ('into_keys', 'into_values'):
        return MapIter(Ref(Cell(val(args[0]), 'map')), k)
    r = innermost_ref(args[0])
    map_of(r)
    if m.group(1) in ('BTreeSet', 'HashSet'):
        return MapIter(r, 'keys')
    return MapIter(r, {'values_mut': 'values'}.get(k, k))


@model(r'^<Vec(<.*>)? as Extend<.*>>::extend$')
def m_vec_extend(ex, m, args, callee):
    r = innermost_ref(args[0])
    v = load(r)
    if not isinstance(v, Arr):
        raise Unmodelled('Vec::extend on %r' % (v,))
    for item in collect_items(ex, args[1]):
        v.fields.append(item)
    return Tup([])


@model(r'^<(BTreeMap|HashMap|BTreeSet|HashSet)<.*> as Extend<.*>>::extend$')
def m_map_extend(ex, m, args, callee):
    """insert every item of the iterator (later items overwrite earlier keys, as std does)"""
    mp = map_of(args[0])
    it = into_iter_value(ex, args[1])
    is_set = m.group(1) in ('BTreeSet', 'HashSet')
    while True:
        r = iter_next(ex, it)
        if r.variant == 0:
            break
        item = r.fields[0]
        if is_set:
            mp.ent[freeze(item)] = [item, True, Tup([])]
        else:
            kv = val(item)
            mp.ent[freeze(kv.fields[0])] = [kv.fields[0], True, kv.fields[1]]
    return Tup([])


@model(r'^<(BTreeMap|HashMap|BTreeSet|HashSet)<.*> as FromIterator<.*>>::from_iter$')
def m_map_from_iter(ex, m, args, callee):
    it = into_iter_value(ex, args[0])
    mp = MapV()
    is_set = m.group(1) in ('BTreeSet', 'HashSet')
    while True:
        r = iter_next(ex, it)
        if r.variant == 0:
            break
        item = r.fields[0]
        if is_set:
            mp.ent[freeze(item)] = [item, True, Tup([])]
        else:
            kv = val(item)
            mp.ent[freeze(kv.fields[0])] = [kv.fields[0], True, kv.fields[1]]
    return mp


# ----------------------------------------------------------------------------- iterators

@model(r'^(once|iter::once|empty|iter::empty)$')
def m_iter_once(ex, m, args, callee):
    return VecIter([args[0]] if m.group(1).endswith('once') else [])


@model(r'^<(.*) as IntoIterator>::into_iter$')
def m_into_iter(ex, m, args, callee):
    return into_iter_value(ex, args[0])


@model(r'^<(.*) as Iterator>::next$')
def m_iter_next(ex, m, args, callee):
    return iter_next(ex, args[0])


@model(r'^<(.*) as DoubleEndedIterator>::next_back$')
def m_iter_next_back(ex, m, args, callee):
    it = val(args[0])
    return it.next_back(ex)


@model(r'^<(.*) as Iterator>::(map|filter|filter_map|peekable|cloned|copied|rev|enumerate|skip|take|chain|zip)$')
def m_iter_adapt(ex, m, args, callee):
    k = m.group(2)
    inner = into_iter_value(ex, args[0]) if not hasattr(val(args[0]), 'next') else args[0]
    if k == 'map':
        return MapAdapter(inner, args[1])
    if k == 'filter':
        return FilterAdapter(inner, args[1])
    if k == 'filter_map':
        return FilterAdapter(inner, args[1], True)
    if k == 'peekable':
        return PeekableV(inner)
    if k in ('skip', 'take'):
        return SimpleAdapter(k, inner, ex.concretize_int(args[1], k))
    if k in ('chain', 'zip'):
        return SimpleAdapter(k, inner, into_iter_value(ex, args[1]))
    return SimpleAdapter(k, inner)


@model(r'^Peekable::(peek|next_if|next_if_eq|peek_mut)$')
def m_peek(ex, m, args, callee):
    p = val(args[0])
    if m.group(1) in ('peek', 'peek_mut'):
        return p.peek(ex)
    raise Unmodelled('Peekable::' + m.group(1))


def collect_items(ex, itv):
    it = into_iter_value(ex, itv) if not hasattr(val(itv), 'next') else itv
    out = []
    while True:
        r = iter_next(ex, it)
        if r.variant == 0:
            return out
        out.append(r.fields[0])


@model(r'^<(.*) as Iterator>::collect$')
def m_collect(ex, m, args, callee):
    tm = re.search(r'::collect::<(.*)>$', _LIFETIME.sub('', callee))
    target = norm_type(tm.group(1)) if tm else '?'
    base = strip_generics(target)
    f = None
    try:
        f = ex.prog.lookup('<%s as FromIterator>::from_iter' % base)
    except Exception:
        f = None
    if f is not None:
        return ex.exec_fn(f, [args[0]])
    if base == 'Vec':
        return Arr(collect_items(ex, args[0]))
    if base in ('BTreeMap', 'HashMap', 'BTreeSet', 'HashSet'):
        mp = MapV()
        for item in collect_items(ex, args[0]):
            if base.endswith('Set'):
                mp.ent[freeze(item)] = [item, True, Tup([])]
            else:
                kv = val(item)
                mp.ent[freeze(kv.fields[0])] = [kv.fields[0], True, kv.fields[1]]
        return mp
    if base == 'String':
        items = collect_items(ex, args[0])
        if all(is_conc(val(c)) for c in items):
            return ''.join(chr(val(c)) if not isinstance(val(c), str) else val(c) for c in items)
        return Opaque('string', 'collected')
    if base == 'Result':
        items = collect_items(ex, args[0])
        out = []
        for it in items:
            it = val(it)
            if it.variant == 1:
                return it
            out.append(it.fields[0])
        return ok(Arr(out))
    if base == 'Option':
        items = collect_items(ex, args[0])
        out = []
        for it in items:
            it = val(it)
            if it.variant == 0:
                return it
            out.append(it.fields[0])
        return some(ex, Arr(out))
    raise Unmodelled('collect into ' + target)


@model(r'^<(.*) as Iterator>::(fold|sum|count|all|any|find|find_map|position|last|for_each|max|min|nth|max_by_key|min_by_key)$')
def m_iter_consume(ex, m, args, callee):
    k = m.group(2)
    if k == 'fold':
        acc = args[1]
        for item in collect_items(ex, args[0]):
            acc = ex.call_value(args[2], [acc, item])
        return acc
    if k == 'sum':
        acc = 0
        tm = re.search(r'::sum::<(.*)>$', callee)
        ty = tm.group(1).strip() if tm else 'i64'
        for item in collect_items(ex, args[0]):
            acc = n_add(acc, val(item))
            if ty in INT_RANGES and not ex.branch(in_range(acc, ty), 'sum overflow'):
                ex.panic('attempt to add with overflow (sum)')
        return acc
    if k == 'count':
        return len(collect_items(ex, args[0]))
    if k in ('all', 'any'):
        it = args[0]
        while True:
            r = iter_next(ex, it)
            if r.variant == 0:
                return k == 'all'
            b = ex.call_value(args[1], [r.fields[0]])
            if ex.branch(b, k) != (k == 'all'):
                return k == 'any'
    if k == 'for_each':
        for item in collect_items(ex, args[0]):
            ex.call_value(args[1], [item])
        return Tup([])
    if k == 'last':
        items = collect_items(ex, args[0])
        return some(ex, items[-1]) if items else none(ex)
    if k == 'find':
        it = args[0]
        while True:
            r = iter_next(ex, it)
            if r.variant == 0:
                return r
            b = ex.call_value(args[1], [Ref(Cell(r.fields[0], 'tmp'))])
            if ex.branch(b, 'find'):
                return r
    if k in ('max_by_key', 'min_by_key'):
        # std: the last element of maximal key / the first of minimal key; keys must come out concrete here
        items = collect_items(ex, args[0])
        best, bk = None, None
        for item in items:
            key = val(ex.call_value(args[1], [Ref(Cell(item, 'tmp'))]))
            key = simp(key) if is_z3(key) else key
            if not is_conc(key):
                raise Unmodelled('Iterator::%s with a symbolic key' % k)
            if best is None or (k == 'max_by_key' and key >= bk) or (k == 'min_by_key' and key < bk):
                best, bk = item, key
        return some(ex, best) if best is not None else none(ex)
    if k == 'find_map':
        it = args[0]
        while True:
            r = iter_next(ex, it)
            if r.variant == 0:
                return r
            o = val(ex.call_value(args[1], [r.fields[0]]))
            if o.variant == 1:
                return o
    if k == 'position':
        it = args[0]
        idx = 0
        while True:
            r = iter_next(ex, it)
            if r.variant == 0:
                return r
            b = ex.call_value(args[1], [r.fields[0]])
            if ex.branch(b, 'position'):
                return some(ex, idx)
            idx += 1
    if k == 'nth':
        n = ex.concretize_int(args[1], 'nth')
        r = none(ex)
        for _ in range(n + 1):
            r = iter_next(ex, args[0])
            if r.variant == 0:
                return r
        return r
    raise Unmodelled('Iterator::' + k)


# ----------------------------------------------------------------------------- Vec / slices

@model(r'^Vec::(new|with_capacity)$')
def m_vec_new(ex, m, args, callee):
    return Arr([])


@model(r'^Vec::(push|pop|len|is_empty|clear|first|last|iter|remove|insert|as_slice|truncate|reverse|extend_from_slice|get|first_mut|last_mut|iter_mut|swap_remove|drain)$|^<impl \[.*\]>::(len|is_empty|first|last|iter|get|iter_mut|reverse|to_vec|into_vec|contains|first_mut|last_mut|split_first|join|concat|chunks|windows|chunks_exact)$')
def m_vec(ex, m, args, callee):
    k = m.group(1) or m.group(2)
    r = innermost_ref(args[0])
    v = load(r)
    if not isinstance(v, Arr):
        raise Unmodelled('Vec::%s on %r' % (k, v))
    n = len(v.fields)
    if k == 'push':
        v.fields.append(args[1])
        return Tup([])
    if k == 'pop':
        return some(ex, v.fields.pop()) if n else none(ex)
    if k == 'len':
        return n
    if k == 'is_empty':
        return n == 0
    if k == 'clear':
        v.fields[:] = []
        return Tup([])
    if k in ('first', 'first_mut'):
        return some(ex, Ref(r.cell, r.path + (0,))) if n else none(ex)
    if k in ('last', 'last_mut'):
        return some(ex, Ref(r.cell, r.path + (n - 1,))) if n else none(ex)
    if k in ('iter', 'iter_mut'):
        return VecIter([Ref(r.cell, r.path + (i,)) for i in range(n)])
    if k == 'get':
        i = ex.concretize_int(args[1], 'Vec::get index')
        return some(ex, Ref(r.cell, r.path + (i,))) if 0 <= i < n else none(ex)
    if k == 'remove':
        i = ex.concretize_int(args[1], 'Vec::remove index')
        if not (0 <= i < n):
            ex.panic('Vec::remove index out of bounds')
        return v.fields.pop(i)
    if k == 'insert':
        i = ex.concretize_int(args[1], 'Vec::insert index')
        if not (0 <= i <= n):
            ex.panic('Vec::insert index out of bounds')
        v.fields.insert(i, args[2])
        return Tup([])
    if k == 'as_slice':
        return r
    if k == 'truncate':
        i = ex.concretize_int(args[1], 'truncate')
        del v.fields[i:]
        return Tup([])
    if k == 'reverse':
        v.fields.reverse()
        return Tup([])
    if k in ('to_vec', 'into_vec'):
        return Arr([clone_value(ex, f) for f in v.fields]) if k == 'to_vec' else v
    if k == 'extend_from_slice':
        o = val(args[1])
        v.fields.extend(clone_value(ex, f) for f in o.fields)
        return Tup([])
    if k == 'contains':
        c = False
        for f in v.fields:
            c = b_or(c, eq_dispatch(ex, f, args[1]))
        return c
    if k == 'drain':
        rng = val(args[1])
        if isinstance(rng, Struct) and rng.name == 'RangeFull':
            items = list(v.fields)
            v.fields[:] = []
            return VecIter(items)
        raise Unmodelled('Vec::drain with a partial range')
    if k in ('chunks', 'windows', 'chunks_exact'):
        size = ex.concretize_int(args[1], k + ' size')
        if size == 0:
            ex.panic('%s: size must be non-zero' % k)
        refs = [Ref(r.cell, r.path + (i,)) for i in range(n)]
        groups = []
        if k == 'windows':
            for i in range(0, n - size + 1):
                groups.append(Arr([load(x) for x in refs[i:i + size]]))
        else:
            for i in range(0, n, size):
                g = refs[i:i + size]
                if k == 'chunks_exact' and len(g) < size:
                    break
                groups.append(Arr([load(x) for x in g]))
        return VecIter([Ref(Cell(g, 'chunk')) for g in groups])
    if k in ('join', 'concat'):
        items = [val(f) for f in v.fields]
        sep = val(args[1]) if len(args) > 1 else ''
        if all(isinstance(i, str) for i in items) and isinstance(sep, str):
            return sep.join(items)
        return Opaque('string', 'joined')
    raise Unmodelled('Vec::' + k)


@model(r'^<impl \[.*\]>::(sort_by|sort|sort_by_key|sort_unstable|sort_unstable_by|sort_unstable_by_key|sort_by_cached_key)$|^Vec::(sort_by|sort|sort_by_key|sort_unstable|sort_unstable_by|sort_unstable_by_key|dedup)$')
def m_sort(ex, m, args, callee):
    """stable insertion sort driven by the real comparator (contract of slice::sort*: a permutation ordered by cmp)"""
    k = m.group(1) or m.group(2)
    r = innermost_ref(args[0])
    v = load(r)
    items = list(v.fields)
    if k == 'dedup':
        out = []
        for it in items:
            if out and ex.branch(eq_dispatch(ex, out[-1], it), 'dedup equal'):
                continue
            out.append(it)
        v.fields[:] = out
        return Tup([])

    def less(a, b):
        if k in ('sort_by', 'sort_unstable_by'):
            o = ex.call_value(args[1], [Ref(Cell(a, 'tmp')), Ref(Cell(b, 'tmp'))])
            return deref_all(o).vname == 'Less'
        if k in ('sort_by_key', 'sort_unstable_by_key', 'sort_by_cached_key'):
            ka = ex.call_value(args[1], [Ref(Cell(a, 'tmp'))])
            kb = ex.call_value(args[1], [Ref(Cell(b, 'tmp'))])
            return cmp_values(ex, ka, kb) == 'Less'
        return cmp_values(ex, a, b) == 'Less'
    out = []
    for it in items:
        pos = len(out)
        while pos > 0 and less(it, out[pos - 1]):
            pos -= 1
        out.insert(pos, it)
    v.fields[:] = out
    return Tup([])


@model(r'^box_assume_init_into_vec_unsafe$|^<impl \[.*\]>::into_vec$|^into_vec$')
def m_vec_macro(ex, m, args, callee):
    a = val(args[0])
    # Box<MaybeUninit<[T; N]>> written through its wrapper fields: unwrap single-field shells
    while isinstance(a, (Tup, Struct)) and len(a.fields) == 1:
        a = val(a.fields[0])
    if isinstance(a, Arr):
        return a
    raise Unmodelled('vec! macro payload %r' % (a,))


@model(r'^Box::new_uninit$')
def m_box_new_uninit(ex, m, args, callee):
    return new_box(None)


@model(r'^(Box::new_uninit|Box::<\[.*\]>::new_uninit)$')
def m_box_uninit(ex, m, args, callee):
    return new_box(None)


@model(r'^<(Vec<.*>|\[.*\]) as Index<(.*)>>::index$|^<(Vec<.*>|\[.*\]) as IndexMut<(.*)>>::index_mut$')
def m_vec_index(ex, m, args, callee):
    r = innermost_ref(args[0])
    v = load(r)
    idx = val(args[1])
    n = len(v.fields)
    if isinstance(idx, Struct):
        if idx.name == 'RangeFrom':
            s = ex.concretize_int(idx.fields[0], 'slice start')
            if s > n:
                ex.panic('slice start index out of range')
            return Ref(Cell(SliceView(r, s, n), 'slice'))
        if idx.name == 'Range':
            s = ex.concretize_int(idx.fields[0], 'slice start')
            e = ex.concretize_int(idx.fields[1], 'slice end')
            if s > e or e > n:
                ex.panic('slice index out of range')
            return Ref(Cell(SliceView(r, s, e), 'slice'))
        if idx.name == 'RangeTo':
            e = ex.concretize_int(idx.fields[0], 'slice end')
            if e > n:
                ex.panic('slice end index out of range')
            return Ref(Cell(SliceView(r, 0, e), 'slice'))
        if idx.name == 'RangeFull':
            return r
        raise Unmodelled('index by ' + idx.name)
    i = ex.concretize_int(idx, 'Vec index')
    if not (0 <= i < n):
        ex.panic('index out of bounds: the len is %d but the index is %d' % (n, i))
    return Ref(r.cell, r.path + (i,))


def SliceView(r, s, e):
    """a sub-slice: materialised as an Arr of the same element objects (shared, not copied)"""
    v = load(r)
    return Arr(v.fields[s:e])


# ============================================================================= chrono (documented contract, 0.4.38)
# TimeDelta  = Int nanoseconds, |t| <= i64::MAX milliseconds
# DateTime<Tz> = Struct('DateTime', [instant_ns, offset_token]); instants range over [DT_MIN, DT_MAX] (abstract bounds)

TD_MAX_NS = (2 ** 63 - 1) * 10 ** 6
DT_MIN = z3.Int('chrono_DT_MIN_ns')
DT_MAX = z3.Int('chrono_DT_MAX_ns')


def dt_bounds_axioms():
    return [DT_MIN <= -10 ** 18, DT_MAX >= 10 ** 18]


def td_in_range(t):
    if is_conc(t):
        return -TD_MAX_NS <= t <= TD_MAX_NS
    return simp(z3.And(zint(t) >= -TD_MAX_NS, zint(t) <= TD_MAX_NS))


@model(r'^TimeDelta::(milliseconds|nanoseconds|seconds|microseconds)$')
def m_td_new(ex, m, args, callee):
    k = m.group(1)
    v = args[0]
    scale = {'milliseconds': 10 ** 6, 'nanoseconds': 1, 'seconds': 10 ** 9, 'microseconds': 1000}[k]
    t = n_mul(v, scale)
    if k in ('milliseconds', 'seconds'):
        if not ex.branch(td_in_range(t), 'TimeDelta::%s in range' % k):
            ex.panic('TimeDelta::%s out of bounds' % k)
    return t


@model(r'^TimeDelta::(new|try_seconds|try_milliseconds)$')
def m_td_new2(ex, m, args, callee):
    k = m.group(1)
    if k == 'new':
        secs, nanos = args[0], args[1]
        # chrono: None unless nanos < 1_000_000_000 (u32) and the total is within +-i64::MAX ms
        okn = n_lt(nanos, 10 ** 9)
        t = n_add(n_mul(secs, 10 ** 9), nanos)
        if ex.branch(b_and(okn, td_in_range(t)), 'TimeDelta::new in range'):
            return some(ex, t)
        return none(ex)
    t = n_mul(args[0], 10 ** 9 if k == 'try_seconds' else 10 ** 6)
    if ex.branch(td_in_range(t), 'TimeDelta::%s in range' % k):
        return some(ex, t)
    return none(ex)


@model(r'^<TimeDelta as (Add|Sub)(<.*>)?>::(add|sub)$')
def m_td_arith(ex, m, args, callee):
    a, b = val(args[0]), val(args[1])
    r = n_add(a, b) if m.group(3) == 'add' else n_sub(a, b)
    if not ex.branch(td_in_range(r), 'TimeDelta %s in range' % m.group(3)):
        ex.panic('`TimeDelta %s TimeDelta` overflowed' % ('+' if m.group(3) == 'add' else '-'))
    return r


@model(r'^TimeDelta::(num_milliseconds|num_nanoseconds|num_seconds|subsec_nanos)$')
def m_td_get(ex, m, args, callee):
    t = val(args[0])
    k = m.group(1)
    if k == 'num_milliseconds':
        return i_tdiv(t, 10 ** 6)
    if k == 'num_seconds':
        return i_tdiv(t, 10 ** 9)
    if k == 'subsec_nanos':
        return i_trem(t, 10 ** 9)
    if ex.branch(in_range(t, 'i64'), 'num_nanoseconds fits i64'):
        return some(ex, t)
    return none(ex)


def mk_datetime(instant, offset):
    return Struct('DateTime', [instant, offset])


def dt_in_range(i):
    return simp(z3.And(zint(i) >= DT_MIN, zint(i) <= DT_MAX))


@model(r'^DateTime::(checked_add_signed|checked_sub_signed)$')
def m_dt_checked(ex, m, args, callee):
    d = val(args[0])
    t = val(args[1])
    i = n_add(d.fields[0], t) if m.group(1) == 'checked_add_signed' else n_sub(d.fields[0], t)
    if ex.branch(dt_in_range(i), 'DateTime stays in range'):
        return some(ex, mk_datetime(i, d.fields[1]))
    return none(ex)


@model(r'^<DateTime<.*> as Sub(<.*>)?>::sub$')
def m_dt_sub(ex, m, args, callee):
    a, b = val(args[0]), val(args[1])
    if isinstance(b, Struct) and b.name == 'DateTime':
        # signed_duration_since: always representable (DateTime range << TimeDelta range)
        return n_sub(a.fields[0], b.fields[0])
    raise Unmodelled('DateTime - %r' % (b,))


@model(r'^DateTime::(with_timezone|fixed_offset)$')
def m_dt_with_tz(ex, m, args, callee):
    d = val(args[0])
    if m.group(1) == 'fixed_offset':
        return mk_datetime(d.fields[0], d.fields[1])
    return mk_datetime(d.fields[0], dup(val(args[1])))


@model(r'^DateTime::(offset|timezone)$')
def m_dt_offset(ex, m, args, callee):
    r = innermost_ref(args[0])
    if m.group(1) == 'offset':
        return Ref(r.cell, r.path + (1,))
    return dup(load(r).fields[1])


def zone_offset_ns(ex, zone, instant):
    """UTC offset (ns) in force in `zone` at `instant`: constant for a FixedOffset, an uninterpreted function of the instant
    for a named zone (daylight saving), bounded by one day"""
    zone = deref_all(zone)
    if isinstance(zone, Struct) and zone.name == 'FixedOffset':
        return n_mul(zone.fields[0], 10 ** 9)
    tag = 'tz'
    if isinstance(zone, Struct) and zone.fields and isinstance(deref_all(zone.fields[0]), Opaque):
        tag = str(deref_all(zone.fields[0]).tag)
    f = z3.Function('tz_offset_ns_' + tag, z3.IntSort(), z3.IntSort())
    o = f(zint(instant))
    ex.assume(z3.And(o > -86400 * 10 ** 9, o < 86400 * 10 ** 9))
    return o


@model(r'^DateTime::naive_local$')
def m_dt_naive_local(ex, m, args, callee):
    d = val(args[0])
    return Struct('NaiveDateTime', [n_add(d.fields[0], zone_offset_ns(ex, d.fields[1], d.fields[0]))])


@model(r'^NaiveDateTime::(checked_add_signed|checked_sub_signed)$')
def m_naive_checked(ex, m, args, callee):
    nd = val(args[0])
    t = val(args[1])
    v = n_add(nd.fields[0], t) if m.group(1) == 'checked_add_signed' else n_sub(nd.fields[0], t)
    if ex.branch(dt_in_range(v), 'NaiveDateTime stays in range'):
        return some(ex, Struct('NaiveDateTime', [v]))
    return none(ex)


@model(r'^<(FixedOffset|Tz|Z|T) as TimeZone>::from_local_datetime$')
def m_from_local_datetime(ex, m, args, callee):
    zone = dup(val(args[0]))
    naive = val(args[1])
    if not (isinstance(naive, Struct) and naive.name == 'NaiveDateTime'):
        raise Unmodelled('from_local_datetime of %r' % (naive,))
    if isinstance(zone, Struct) and zone.name == 'FixedOffset':
        return Struct('LocalResult', [some(ex, mk_datetime(n_sub(naive.fields[0], zone_offset_ns(ex, zone, 0)), zone))])
    # named zone: the local time may not exist (gap); otherwise some instant whose local time it is
    if ex.choose(2, 'local time exists in the zone') == 1:
        ex.env['tz_gap_taken'] = True
        return Struct('LocalResult', [none(ex)])
    t = ex.fresh('instant', 'Int')
    ex.assume(n_eq(n_add(t, zone_offset_ns(ex, zone, t)), naive.fields[0]))
    return Struct('LocalResult', [some(ex, mk_datetime(t, zone))])


@model(r'^<(Tz|FixedOffset|Z|T) as TimeZone>::offset_from_utc_datetime$')
def m_offset_from_utc(ex, m, args, callee):
    """the offset in force in the zone at the given *UTC* reading"""
    zone = dup(val(args[0]))
    naive = val(args[1])
    if not (isinstance(naive, Struct) and naive.name == 'NaiveDateTime'):
        raise Unmodelled('offset_from_utc_datetime of %r' % (naive,))
    if isinstance(zone, Struct) and zone.name == 'FixedOffset':
        return zone
    return Struct('TzOffset', [zone, zone_offset_ns(ex, zone, naive.fields[0])])


@model(r'^<TzOffset as Offset>::fix$|^<FixedOffset as Offset>::fix$')
def m_offset_fix(ex, m, args, callee):
    o = val(args[0])
    if isinstance(o, Struct) and o.name == 'FixedOffset':
        return o
    ns = o.fields[1]
    ex.assume(zint(ns) % 10 ** 9 == 0)           # zone offsets are whole seconds
    return Struct('FixedOffset', [zint(ns) / 10 ** 9])


@model(r'^<NaiveDateTime as (Sub|Add)<FixedOffset>>::(sub|add)$')
def m_naive_shift(ex, m, args, callee):
    nd, off = val(args[0]), val(args[1])
    d = n_mul(off.fields[0], 10 ** 9)
    v = n_sub(nd.fields[0], d) if m.group(2) == 'sub' else n_add(nd.fields[0], d)
    if not ex.branch(dt_in_range(v), 'NaiveDateTime stays in range'):
        ex.panic('`NaiveDateTime - FixedOffset` out of range')
    return Struct('NaiveDateTime', [v])


@model(r'^<(Tz|FixedOffset|Z|T) as TimeZone>::from_utc_datetime$')
def m_from_utc_datetime(ex, m, args, callee):
    zone = dup(val(args[0]))
    naive = val(args[1])
    if not (isinstance(naive, Struct) and naive.name == 'NaiveDateTime'):
        raise Unmodelled('from_utc_datetime of %r' % (naive,))
    return mk_datetime(naive.fields[0], zone)


@model(r'^DateTime::timestamp_millis$')
def m_dt_timestamp_millis(ex, m, args, callee):
    """whole milliseconds since the epoch, rounded toward minus infinity (chrono: secs * 1000 + subsec_millis)"""
    d = val(args[0])
    t = d.fields[0]
    return int(t) // 10 ** 6 if is_conc(t) else zint(t) / 10 ** 6      # z3 integer division floors for a positive divisor


@model(r'^<(FixedOffset|Tz|Z|T) as TimeZone>::(timestamp_millis_opt|timestamp_nanos|timestamp_opt)$')
def m_tz_from_timestamp(ex, m, args, callee):
    zone = dup(val(args[0]))
    k = m.group(2)
    if k == 'timestamp_millis_opt':
        t = n_mul(args[1], 10 ** 6)
    elif k == 'timestamp_nanos':
        return mk_datetime(args[1], zone)
    else:
        t = n_add(n_mul(args[1], 10 ** 9), args[2])
    if ex.branch(dt_in_range(t), 'timestamp within chrono range'):
        return Struct('LocalResult', [some(ex, mk_datetime(t, zone))])
    return Struct('LocalResult', [none(ex)])


@model(r'^LocalResult::(earliest|latest|single)$')
def m_local_result(ex, m, args, callee):
    return dup(val(args[0]).fields[0])


@model(r'^<TimeDelta as Neg>::neg$')
def m_td_neg(ex, m, args, callee):
    return n_neg(val(args[0]))


DAY_NS = 86400 * 10 ** 9


@model(r'^DateTime::date_naive$')
def m_dt_date_naive(ex, m, args, callee):
    """the calendar day (a day number) of the instant in its own zone"""
    d = val(args[0])
    local = n_add(d.fields[0], zone_offset_ns(ex, d.fields[1], d.fields[0]))
    return Struct('NaiveDate', [zint(local) / DAY_NS if is_z3(local) else int(local) // DAY_NS])


@model(r'^NaiveDate::and_time$')
def m_naive_and_time(ex, m, args, callee):
    date, time = val(args[0]), val(args[1])
    if not (isinstance(date, Struct) and date.name == 'NaiveDate' and isinstance(time, Struct) and time.name == 'NaiveTime'):
        return Opaque('NaiveDateTime')
    return Struct('NaiveDateTime', [n_add(n_mul(date.fields[0], DAY_NS), time.fields[0])])


@model(r'^NaiveDate::and_hms_opt$')
def m_naive_and_hms_opt(ex, m, args, callee):
    date = val(args[0])
    h, mi, se = args[1], args[2], args[3]
    if not (isinstance(date, Struct) and date.name == 'NaiveDate'):
        return some(ex, Opaque('NaiveDateTime'))
    okc = b_and(n_lt(h, 24), b_and(n_lt(mi, 60), n_lt(se, 60)))
    if ex.branch(okc, 'hms in range'):
        tod = n_mul(n_add(n_add(n_mul(h, 3600), n_mul(mi, 60)), se), 10 ** 9)
        return some(ex, Struct('NaiveDateTime', [n_add(n_mul(date.fields[0], DAY_NS), tod)]))
    return none(ex)


@model(r'^DateTime::with_time$')
def m_dt_with_time(ex, m, args, callee):
    """same calendar day in the value's zone, the given time of day"""
    d, time = val(args[0]), val(args[1])
    if not (isinstance(time, Struct) and time.name == 'NaiveTime'):
        return Struct('LocalResult', [some(ex, mk_datetime(ex.fresh('instant', 'Int'), d.fields[1]))])
    off = zone_offset_ns(ex, d.fields[1], d.fields[0])
    local = n_add(d.fields[0], off)
    day = zint(local) / DAY_NS if is_z3(local) else int(local) // DAY_NS
    naive = n_add(n_mul(day, DAY_NS), time.fields[0])
    zone = dup(d.fields[1])
    if isinstance(zone, Struct) and zone.name == 'FixedOffset':
        return Struct('LocalResult', [some(ex, mk_datetime(n_sub(naive, off), zone))])
    t = ex.fresh('instant', 'Int')
    ex.assume(n_eq(n_add(t, zone_offset_ns(ex, zone, t)), naive))
    return Struct('LocalResult', [some(ex, mk_datetime(t, zone))])


@model(r'^LocalResult::unwrap$')
def m_local_result_unwrap(ex, m, args, callee):
    o = val(args[0]).fields[0]
    o = deref_all(o)
    if o.variant == 0:
        ex.panic('LocalResult::unwrap on None')
    return o.fields[0]


@model(r'^FixedOffset::(east_opt|west_opt)$')
def m_fixed_offset(ex, m, args, callee):
    s = args[0]
    okc = simp(z3.And(zint(s) > -86400, zint(s) < 86400)) if not is_conc(s) else (-86400 < s < 86400)
    if ex.branch(okc, 'offset within +-24h'):
        return some(ex, Struct('FixedOffset', [s if m.group(1) == 'east_opt' else n_neg(s)]))
    return none(ex)


# ============================================================================= atomics / allocator surface (alloc.rs)

def _yield(ex, what):
    sched = ex.env.get('sched')
    if sched is not None:
        sched.yield_point(what)


@model(r'^Atomic::new$|^AtomicUsize::new$')
def m_atomic_new(ex, m, args, callee):
    return Struct('Atomic', [args[0]])


@model(r'^(Atomic|AtomicUsize)::(load|store|fetch_add|fetch_sub|fetch_max|fetch_min|swap)$')
def m_atomic_op(ex, m, args, callee):
    k = m.group(2)
    _yield(ex, k)
    r = innermost_ref(args[0])
    a = load(r)
    old = a.fields[0]
    if k == 'load':
        return old
    v = args[1]
    if k == 'store':
        a.fields[0] = v
        return Tup([])
    if k == 'swap':
        a.fields[0] = v
        return old
    def wrap_usize(x):
        if is_conc(x):
            return wrap_int(x, 'usize')
        okr = in_range(x, 'usize')
        return x if okr is True else b_ite(okr, x, wrap_int(x, 'usize'))
    if k == 'fetch_add':
        a.fields[0] = wrap_usize(n_add(old, v))
    elif k == 'fetch_sub':
        a.fields[0] = wrap_usize(n_sub(old, v))
    elif k == 'fetch_max':
        c = n_ge(old, v)
        a.fields[0] = (old if c else v) if isinstance(c, bool) else b_ite(c, old, v)
    elif k == 'fetch_min':
        c = n_le(old, v)
        a.fields[0] = (old if c else v) if isinstance(c, bool) else b_ite(c, old, v)
    return old


@model(r'^Layout::(pad_to_align|align_to|padding_needed_for)$')
def m_layout_pad(ex, m, args, callee):
    k = m.group(1)
    l = val(args[0])
    size, align = l.fields[0], l.fields[1]
    if not is_conc(simp(align)):
        raise Unmodelled('Layout::%s with a symbolic alignment' % k)
    al = int(simp(align))
    if k == 'pad_to_align':
        if al == 1:
            return Struct('Layout', [size, align])
        if is_conc(size):
            return Struct('Layout', [-(-int(size) // al) * al, align])
        rem = zint(size) % al
        return Struct('Layout', [z3.If(rem == 0, zint(size), zint(size) + (al - rem)), align])
    raise Unmodelled('Layout::' + k)


@model(r'^Layout::(size|align|from_size_align_unchecked|from_size_align)$')
def m_layout(ex, m, args, callee):
    k = m.group(1)
    if k == 'from_size_align_unchecked':
        return Struct('Layout', [args[0], args[1]])
    if k == 'from_size_align':
        return ok(Struct('Layout', [args[0], args[1]]))
    l = val(args[0])
    return l.fields[0] if k == 'size' else l.fields[1]


@model(r'^<System as GlobalAlloc>::(alloc|alloc_zeroed|realloc|dealloc)$')
def m_system_alloc(ex, m, args, callee):
    k = m.group(1)
    _yield(ex, 'System::' + k)
    if k == 'dealloc':
        return Tup([])
    # the parent allocator may fail: nondeterministic null / fresh non-null block
    if ex.choose(2, 'System::%s fails?' % k) == 1:
        return Struct('Ptr', [0])
    ex.nfresh += 1
    return Struct('Ptr', [ex.nfresh + 1000])


@model(r'^null_mut$|^null$')
def m_null(ex, m, args, callee):
    return Struct('Ptr', [0])


@model(r'^<impl \*(mut|const) \w+>::is_null$')
def m_is_null(ex, m, args, callee):
    p = val(args[0])
    return p.fields[0] == 0
