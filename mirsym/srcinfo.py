"""Reads struct/enum declarations and impl headers from the *current* source tree.

MIR uses field indices, variant indices and `<impl at FILE:L:C: L:C>` spans; the names behind them
come from here, so they follow every edit of the source.
"""
import os
import re

from .parse import split_top, scan_balanced


def strip_comments(src):
    out = []
    i = 0
    n = len(src)
    while i < n:
        c = src[i]
        if c == '"':
            j = i + 1
            while j < n and src[j] != '"':
                if src[j] == '\\':
                    j += 1
                j += 1
            out.append(src[i:j + 1])
            i = j + 1
            continue
        if src.startswith('//', i):
            j = src.find('\n', i)
            if j < 0:
                j = n
            out.append(' ' * (j - i))
            i = j
            continue
        if src.startswith('/*', i):
            j = src.find('*/', i)
            j = n if j < 0 else j + 2
            out.append(re.sub(r'[^\n]', ' ', src[i:j]))
            i = j
            continue
        out.append(c)
        i += 1
    return ''.join(out)


def strip_attrs(s):
    # remove #[...] attributes (balanced)
    out = []
    i = 0
    n = len(s)
    while i < n:
        if s.startswith('#[', i):
            depth = 0
            j = i + 1
            while j < n:
                if s[j] == '[':
                    depth += 1
                elif s[j] == ']':
                    depth -= 1
                    if depth == 0:
                        break
                j += 1
            i = j + 1
            continue
        out.append(s[i])
        i += 1
    return ''.join(out)


class SrcInfo:
    def __init__(self, root):
        """root: crate dir containing src/ (e.g. /repo/core); file names in MIR are relative to the
        workspace root (core/src/...), so `ws` = parent."""
        self.root = root
        self.files = {}
        self.structs = {}   # name -> [field names] (tuple struct: ['0','1',..])
        self.enums = {}     # name -> [(variant name, [field names] or None)]
        self.struct_kind = {}
        self.enum_defs = {}
        self.struct_types = {}
        self.impl_cache = {}
        for dp, dn, fn in os.walk(os.path.join(root, 'src')):
            for f in fn:
                if f.endswith('.rs'):
                    p = os.path.join(dp, f)
                    self.files[p] = open(p, encoding='utf-8').read()
        for p, src in self.files.items():
            self._scan_decls(p, strip_comments(src))
        self.enums.setdefault('Option', [('None', []), ('Some', ['0'])])
        self.enums.setdefault('Result', [('Ok', ['0']), ('Err', ['0'])])
        self.enums.setdefault('Ordering', [('Less', []), ('Equal', []), ('Greater', [])])
        self.enums.setdefault('ControlFlow', [('Continue', ['0']), ('Break', ['0'])])
        self.enums.setdefault('Bound', [('Included', ['0']), ('Excluded', ['0']), ('Unbounded', [])])
        self.enums.setdefault('Cow', [('Borrowed', ['0']), ('Owned', ['0'])])
        self.enums.setdefault('FpCategory', [('Nan', []), ('Infinite', []), ('Zero', []), ('Subnormal', []), ('Normal', [])])
        self.enums.setdefault('Entry', [('Vacant', ['0']), ('Occupied', ['0'])])

    def resolve_enum(self, segs, variant=None):
        """segs: path segments ending with the enum name -> key into self.enums (module-qualified when ambiguous)"""
        name = segs[-1]
        defs = self.enum_defs.get(name, [])
        if len(defs) <= 1:
            return name if name in self.enums else None
        if len(segs) >= 2 and ('%s::%s' % (segs[-2], name)) in self.enums:
            return '%s::%s' % (segs[-2], name)
        if variant is not None:
            c = [d for d in defs if any(v == variant for v, _ in self.enums[d])]
            if len(c) == 1:
                return c[0]
        return name

    def _scan_decls(self, path, src):
        for m in re.finditer(r'\b(struct|enum)\s+([A-Za-z_]\w*)\s*(<[^{;(]*>)?\s*(where[^{;]*)?([{(;])', src):
            kind, name, _, _, opener = m.groups()
            if opener == ';':
                if kind == 'struct':
                    self.structs.setdefault(name, [])
                continue
            close = {'{': '}', '(': ')'}[opener]
            depth = 0
            j = m.end() - 1
            n = len(src)
            while j < n:
                if src[j] in '{([':
                    depth += 1
                elif src[j] in '})]':
                    depth -= 1
                    if depth == 0:
                        break
                j += 1
            body = strip_attrs(src[m.end():j])
            if kind == 'struct':
                if opener == '(':
                    k = len([x for x in split_top(body) if x.strip()])
                    self.structs.setdefault(name, [str(i) for i in range(k)])
                else:
                    self.structs.setdefault(name, self._field_names(body))
                    self.struct_types.setdefault(name, self._field_types(body))
            else:
                variants = []
                for part in split_top(body):
                    part = part.strip()
                    if not part:
                        continue
                    vm = re.match(r'^([A-Za-z_]\w*)\s*(.*)$', part, re.S)
                    vname, rest = vm.group(1), vm.group(2).strip()
                    if rest.startswith('('):
                        k = len([x for x in split_top(rest[1:rest.rfind(')')]) if x.strip()])
                        variants.append((vname, [str(i) for i in range(k)]))
                    elif rest.startswith('{'):
                        variants.append((vname, self._field_names(rest[1:rest.rfind('}')])))
                    else:
                        variants.append((vname, []))
                self.enums.setdefault(name, variants)
                stem = os.path.splitext(os.path.basename(path))[0]
                self.enums.setdefault('%s::%s' % (stem, name), variants)
                self.enum_defs.setdefault(name, []).append('%s::%s' % (stem, name))

    @staticmethod
    def _field_types(body):
        types = []
        for part in split_top(body):
            part = part.strip()
            if not part:
                continue
            fm = re.match(r'^(?:pub(?:\([^)]*\))?\s+)?([A-Za-z_]\w*)\s*:\s*(.*)$', part, re.S)
            if fm:
                types.append(re.sub(r'\s+', ' ', fm.group(2).strip()))
        return types

    @staticmethod
    def _field_names(body):
        names = []
        for part in split_top(body):
            part = part.strip()
            if not part:
                continue
            fm = re.match(r'^(?:pub(?:\([^)]*\))?\s+)?([A-Za-z_]\w*)\s*:', part)
            if fm:
                names.append(fm.group(1))
        return names

    # ------------------------------------------------------------------ impl headers
    def impl_header(self, file_rel, line, col, eline, ecol, ws):
        """Return (trait or None, self type string) for `<impl at file:line:col: eline:ecol>`"""
        key = (file_rel, line, col, eline, ecol)
        if key in self.impl_cache:
            return self.impl_cache[key]
        path = os.path.join(ws, file_rel)
        src = self.files.get(path)
        if src is None:
            src = open(path, encoding='utf-8').read()
            self.files[path] = src
        lines = src.split('\n')
        if line == eline:
            text = lines[line - 1][col - 1:ecol - 1]
        else:
            text = '\n'.join([lines[line - 1][col - 1:]] + lines[line:eline - 1] + [lines[eline - 1][:ecol - 1]])
        text = text.strip()
        res = None
        if text.startswith('impl') or text.startswith('unsafe impl'):
            t = re.sub(r'^(unsafe\s+)?impl', '', text).strip()
            if t.startswith('<'):
                j, _ = scan_balanced(t, 1, ['>'])
                t = t[j + 1:].strip()
            t = re.split(r'\bwhere\b', t)[0].strip()
            if ' for ' in t:
                tr, ty = t.split(' for ', 1)
                res = (tr.strip(), ty.strip())
            else:
                res = (None, t.strip())
        else:
            # a derive: text is the trait name; the type is the next struct/enum after this line
            trait = text
            ty = None
            for k in range(line - 1, min(len(lines), line + 40)):
                mm = re.search(r'\b(?:struct|enum)\s+([A-Za-z_]\w*)', lines[k])
                if mm and not lines[k].strip().startswith('#') and not lines[k].strip().startswith('//'):
                    ty = mm.group(1)
                    break
            res = (trait, ty)
        self.impl_cache[key] = res
        return res
