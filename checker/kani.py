"""Engine K: run Kani harnesses on the allocator crate, replay counterexamples natively."""
import os
import re
import subprocess
import time
from concurrent.futures import ThreadPoolExecutor

from .build import BUILD, VERIF, ENV, BuildError

CRATE = os.path.join(VERIF, 'kani_alloc')


def run_harness(name, timeout_s, playback=False):
    tdir = os.path.join(BUILD, 'kani', name)
    os.makedirs(tdir, exist_ok=True)
    cmd = ['cargo', 'kani', '--harness', name, '--target-dir', tdir]
    if playback:
        cmd += ['-Z', 'concrete-playback', '--concrete-playback=print']
    t0 = time.time()
    try:
        p = subprocess.run('ulimit -v 25165824; exec ' + ' '.join(cmd), shell=True, cwd=CRATE, env=ENV,
                           stdout=subprocess.PIPE, stderr=subprocess.STDOUT, timeout=timeout_s)
        out = p.stdout.decode(errors='replace')
        rc = p.returncode
    except subprocess.TimeoutExpired as e:
        out = (e.stdout or b'').decode(errors='replace') + '\nTIMEOUT'
        rc = -9
    dt = time.time() - t0
    return {'name': name, 'rc': rc, 'out': out, 'wall': dt}


def parse(out):
    r = {}
    m = re.search(r'\*\* (\d+) of (\d+) failed', out)
    if m:
        r['failed'] = int(m.group(1))
        r['checks'] = int(m.group(2))
    m = re.search(r'\*\* (\d+) of (\d+) cover properties satisfied', out)
    if m:
        r['covers_sat'] = int(m.group(1))
        r['covers'] = int(m.group(2))
    r['successful'] = 'VERIFICATION:- SUCCESSFUL' in out
    r['verification_failed'] = 'VERIFICATION:- FAILED' in out
    m = re.search(r'Verification Time: ([0-9.]+)s', out)
    if m:
        r['solver_s'] = float(m.group(1))
    r['failures'] = re.findall(r'Status: FAILURE\s*\n\s*- Description: "+([^"\n]*)', out)
    r['unwinding_failed'] = any('unwinding assertion' in f for f in r['failures'])
    m = re.search(r'(\d+) variables, (\d+) clauses', out)
    if m:
        r['vars'] = int(m.group(1))
        r['clauses'] = int(m.group(2))
    return r


def playback_tests(out):
    """-> list of (description, [bytes...]) from Kani's printed concrete playback tests"""
    tests = []
    for blk in re.findall(r'```\n(.*?)```', out, re.S):
        desc = re.search(r'/// Check for `(\w+)`: "?(.*?)"?\n', blk)
        vals = re.findall(r'vec!\[([0-9, ]*)\]', blk)
        vecs = []
        for v in vals[0:]:
            nums = [int(x) for x in v.replace(' ', '').split(',') if x != '']
            vecs.append(nums)
        # the first vec![ is the outer `vec![` of the list only when it contains inner vec!s; our regex
        # matches only flat byte lists, so all entries are values
        tests.append(((desc.group(1), desc.group(2)) if desc else ('?', '?'), vecs))
    return tests


def native_bin():
    env = dict(ENV, CARGO_TARGET_DIR=os.path.join(BUILD, 'kani_native'))
    outs = {}
    for rel in (False, True):
        p = subprocess.run(['cargo', 'build', '--offline'] + (['--release'] if rel else []), cwd=CRATE, env=env,
                           stdout=subprocess.PIPE, stderr=subprocess.STDOUT)
        if p.returncode != 0:
            raise BuildError('native allocator replay build failed:\n' + p.stdout.decode()[-2000:])
        outs['release' if rel else 'debug'] = os.path.join(BUILD, 'kani_native', 'release' if rel else 'debug', 'replay_alloc')
    return outs


def native_replay(bins, harness, vecs):
    hexes = [''.join('%02x' % b for b in v) for v in vecs]
    res = {}
    for prof, b in bins.items():
        p = subprocess.run([b, harness] + hexes, stdout=subprocess.PIPE, stderr=subprocess.STDOUT, timeout=60)
        res[prof] = p.stdout.decode(errors='replace').strip()
    return res


def run_all(names, timeout_s, workers=8):
    with ThreadPoolExecutor(max_workers=workers) as ex:
        return list(ex.map(lambda n: run_harness(n, timeout_s), names))
