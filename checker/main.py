"""/verif/check entry point.

  check <ID> [--tier quick|thorough]      decide one property on /repo's current working tree
  check replay <case.json>                replay a recorded counterexample natively
"""
import sys as _sys
if hasattr(_sys, 'set_int_max_str_digits'):
    _sys.set_int_max_str_digits(0)      # exact fractions with thousands of digits are ordinary here

import json
import multiprocessing
import os
import random
import subprocess
import sys
import time
import traceback
from fractions import Fraction

VERIF = os.path.dirname(os.path.dirname(os.path.abspath(__file__)))
sys.path.insert(0, VERIF)

from checker import build  # noqa
from checker.build import BuildError  # noqa

EVID = os.path.join(VERIF, 'evidence')
CASES = os.path.join(VERIF, 'cases')
KNOWN = os.path.join(VERIF, 'known_findings.json')

QUICK_QUERY_MS = 10000
THOROUGH_QUERY_MS = 120000

_PROG = None
_PROG_KEY = None


def load_prog(kind='core'):
    global _PROG, _PROG_KEY
    from mirsym.program import Program
    if kind == 'core':
        path, hsh = build.core_mir()
        key = ('core', hsh)
        if _PROG_KEY != key:
            _PROG = Program(open(path).read(), os.path.join(build.REPO, 'core'), build.REPO)
            _PROG_KEY = key
        return _PROG, hsh
    path, hsh = build.alloc_mir()
    key = ('alloc', hsh)
    if _PROG_KEY != key:
        _PROG = Program(open(path).read(), os.path.join(build.REPO, 'sandbox'), build.REPO)
        _PROG_KEY = key
    return _PROG, hsh


_HARNESS_CACHE = {}


def _explore_one(arg):
    """one slice of one harness: explores from the given decision prefixes for about `slice_s` seconds and returns the
    summary of what it covered plus the prefixes it did not get to"""
    modname, hname, tier, timeout_ms, deadline, work, slice_s, seen_before = arg
    import importlib
    from mirsym.driver import explore
    try:
        key = (modname, hname, tier)
        h = _HARNESS_CACHE.get(key)
        if h is None:
            mod = importlib.import_module(modname)
            h = [x for x in mod.harnesses(tier) if x.name == hname][0]
            _HARNESS_CACHE[key] = h
        prog, hsh = load_prog(getattr(h, 'program', 'core'))
        dump = []
        res = explore(prog, h, timeout_ms=timeout_ms, dump_smt=dump, deadline=deadline, initial_work=work, slice_s=slice_s,
                      seen_before=seen_before)
        s_ = summarize(h, res, dump)
        s_['remaining'] = res.remaining
        return s_
    except Exception as e:
        return {'harness': hname, 'fatal': '%s\n%s' % (e, traceback.format_exc()), 'remaining': []}


def merge_summaries(a, b):
    """combine the summaries of two disjoint slices of the same harness"""
    if 'fatal' in a or 'fatal' in b:
        a['fatal'] = a.get('fatal') or b.get('fatal')
        return a
    a['paths'] += b['paths']
    for k in ('n_paths', 'nontrivial', 'queries', 'solver_ms', 'unknown', 'wall'):
        a[k] += b[k]
    a['max_query_ms'] = max(a['max_query_ms'], b['max_query_ms'])
    a['violations'] += b['violations']
    a['errors'] += b['errors']
    a['bound_hits'] += b['bound_hits']
    for k in ('fns', 'models', 'stubs', 'bound_notes'):
        a[k] = sorted(set(a[k]) | set(b[k]))
    for k, v in b['outcome_classes'].items():
        a['outcome_classes'][k] = a['outcome_classes'].get(k, 0) + v
    a['smt'] = (a['smt'] + b['smt'])[:8]
    return a


def explore_all(hs, tier, timeout_ms, budget_s, nproc):
    """every harness, sliced: a worker explores a subtree for a few seconds and returns the rest of its frontier, which is
    queued again - so that one harness with thousands of paths is spread over all cores instead of pinning one"""
    slice_s = 6 if tier == 'quick' else 15
    t_start = time.time()
    merged = {}
    seen = {}
    dead = set()
    pending = []
    queue = [(m, h.name, [[]]) for m, h in hs]
    with multiprocessing.Pool(nproc) as pool:
        while queue or pending:
            while queue and len(pending) < nproc * 2:
                m, hn, work = queue.pop(0)
                if hn in dead:
                    continue
                deadline = t_start + budget_s
                pending.append((hn, m, pool.apply_async(_explore_one, ((m, hn, tier, timeout_ms, deadline, work, slice_s, seen.get(hn, 0)),))))
            still = []
            progressed = False
            for hn, m, fut in pending:
                if not fut.ready():
                    still.append((hn, m, fut))
                    continue
                progressed = True
                s_ = fut.get()
                s_.setdefault('harness', hn)
                rem = s_.pop('remaining', [])
                if hn in merged:
                    merged[hn] = merge_summaries(merged[hn], s_)
                else:
                    merged[hn] = s_
                seen[hn] = merged[hn].get('n_paths', 0)
                if 'fatal' in s_ or any(e.startswith(('time budget', 'path budget')) for e in s_.get('errors', [])):
                    dead.add(hn)
                    continue
                # split the leftover frontier into a few jobs
                if rem:
                    k = max(1, min(len(rem), 4))
                    for i in range(k):
                        part = rem[i::k]
                        if part:
                            queue.append((m, hn, part))
            pending = still
            if not progressed:
                time.sleep(0.05)
    out = []
    for m, h in hs:
        s_ = merged.get(h.name) or {'harness': h.name, 'fatal': 'no result'}
        if 'errors' in s_:
            # one budget message per harness is enough
            seen_msgs = set()
            errs = []
            for e in s_['errors']:
                key = e.split(' after ')[0] if e.startswith('time budget') else e
                if key in seen_msgs:
                    continue
                seen_msgs.add(key)
                errs.append(e)
            s_['errors'] = errs
        out.append(s_)
    return out


def summarize(h, res, dump):
    paths = []
    nontrivial = set()
    for pr in res.paths:
        sig = ''.join(map(str, pr.decisions))
        sym_obl = [o for o in pr.obligations]
        if pr.status == 'ok' and (pr.decisions or sym_obl):
            nontrivial.add(sig + '|' + (pr.outcome[0] if pr.outcome else ''))
        paths.append({'decisions': sig, 'status': pr.status, 'detail': pr.detail[:300],
                      'outcome': (pr.outcome[0] + (': ' + pr.outcome[1] if pr.outcome[0] == 'panic' else '')) if pr.outcome else None,
                      'notes': pr.notes[:12],
                      'obligations': [[l, v, round(ms, 2)] for l, v, ms in pr.obligations]})
    return {
        'harness': h.name, 'props': list(h.props), 'describe': h.describe, 'entry': h.entry if isinstance(h.entry, str) else getattr(h, 'entry_name', 'composite'),
        'paths': paths, 'n_paths': len(res.paths), 'nontrivial': len(nontrivial),
        'queries': res.queries, 'solver_ms': res.solver_ms, 'max_query_ms': res.max_query_ms, 'unknown': res.unknown,
        'violations': [{'label': l, 'case': c} for l, c in res.violations],
        'errors': res.errors, 'bound_hits': res.bound_hits,
        'fns': sorted(res.fns), 'models': sorted(res.models), 'stubs': sorted(res.stubs),
        'bound_notes': sorted(res.bound_notes) + list(getattr(h, 'bounds', [])),
        'assumptions': list(getattr(h, 'assumptions', [])),
        'outcome_classes': res.outcome_classes, 'wall': res.wall,
        'expect_classes': list(getattr(h, 'expect_classes', [])),
        'smt': [list(d) for d in dump[:8]],
    }


def _run_replay(binp, reqs, timeout_s):
    os.makedirs(os.path.join(build.BUILD, 'tmp'), exist_ok=True)
    path = os.path.join(build.BUILD, 'tmp', 'req-%d-%d.json' % (os.getpid(), random.randrange(1 << 30)))
    with open(path, 'w') as fh:
        json.dump(reqs, fh)
    try:
        p = subprocess.run('ulimit -v 8388608; exec %s %s' % (binp, path), shell=True, stdout=subprocess.PIPE,
                           stderr=subprocess.PIPE, timeout=timeout_s)
        if p.returncode != 0:
            return None
        return json.loads(p.stdout.decode())
    except subprocess.TimeoutExpired:
        return None
    finally:
        try:
            os.remove(path)
        except OSError:
            pass


def native_observe(requests, release=False):
    """run requests through the native observer; a request that hangs or kills the process is
    reported as {'outcome': 'timeout'} (re-run one by one under a short limit)"""
    if not requests:
        return []
    if any(str(r.get('mode', '')).startswith('alloc_') for r in requests):
        return [alloc_observe(r) for r in requests]
    binp = build.replay_bin(release)
    for i, r in enumerate(requests):
        r['id'] = i
    out = _run_replay(binp, requests, 20 + 0.05 * len(requests))
    if out is not None and len(out) == len(requests):
        return out
    res = []
    for r in requests:
        o = _run_replay(binp, [r], 8)
        if o is None:
            res.append({'outcome': 'timeout', 'id': r['id']})
        else:
            res.append(o[0])
    return res


_ALLOC_BINS = None


def alloc_observe(r):
    """C19 native replay: one step from a reachable state, or a two-thread stress run (release build)"""
    global _ALLOC_BINS
    from checker import kani
    if _ALLOC_BINS is None:
        _ALLOC_BINS = kani.native_bin()
    b = _ALLOC_BINS['release' if r['mode'] == 'alloc_stress' else 'debug']
    if r['mode'] == 'alloc_step':
        cmd = [b, 'step', str(r['limit']), str(r['used']), r['op'], str(r['size']), str(r['old']), str(r.get('align', 1))]
    elif r['mode'] == 'alloc_helper':
        cmd = [b, 'helper', str(r['limit']), str(r['used']), str(r['peak']), r['which'], str(r['new_limit'])]
    else:
        cmd = [b, 'stress', r['op1'], r['op2'], str(r.get('iters', 300000))] + ([str(r['limit'])] if 'limit' in r else [])
    try:
        p = subprocess.run(cmd, stdout=subprocess.PIPE, stderr=subprocess.PIPE, timeout=120)
        out = p.stdout.decode().strip().splitlines()
        return json.loads(out[-1]) if out and p.returncode == 0 else {'outcome': 'panic', 'panic': p.stderr.decode()[-300:]}
    except subprocess.TimeoutExpired:
        return {'outcome': 'timeout'}


def parse_inputs(d):
    out = {}
    for k, v in d.items():
        if isinstance(v, str) and ('/' in v or v.lstrip('-').isdigit()):
            try:
                out[k] = Fraction(v)
                if '/' not in v:
                    out[k] = int(v)
                continue
            except ValueError:
                pass
        out[k] = v
    return out


def load_known():
    if not os.path.exists(KNOWN):
        return []
    return json.load(open(KNOWN)).get('findings', [])


def match_known(known, pid, harness, label, inputs_text):
    import re
    for k in known:
        if k.get('status') != 'open':
            continue
        if pid not in k.get('properties', [k.get('property')]):
            continue
        if k.get('harness') and not re.search(k['harness'], harness):
            continue
        if k.get('label') and not re.search(k['label'], label):
            continue
        return k
    return None


def get_harnesses(pid, tier):
    import importlib
    import harness.registry as reg
    out = []
    for modname in reg.MODULES:
        mod = importlib.import_module(modname)
        for h in mod.harnesses(tier):
            if pid in h.props:
                out.append((modname, h))
    return out


def check_mirsym(pid, tier, seed):
    t0 = time.time()
    timeout_ms = QUICK_QUERY_MS if tier == 'quick' else THOROUGH_QUERY_MS
    if os.environ.get('VERIF_QUERY_MS'):
        timeout_ms = int(os.environ['VERIF_QUERY_MS'])      # for exercising the undecided / retry paths
    # wall-clock budgets per property: generous, because the machine may be shared; the path budgets bound the work
    budget_s = 900 if tier == 'quick' else 7200
    hs = get_harnesses(pid, tier)
    if not hs:
        print('no harness registered for %s' % pid)
        return 2
    # make sure the dumps exist before forking workers
    kinds = set(getattr(h, 'program', 'core') for _, h in hs)
    hashes = {}
    for k in kinds:
        _, hashes[k] = load_prog(k)
    sums = explore_all(hs, tier, timeout_ms, budget_s, 14)
    hmap = {h.name: h for _, h in hs}
    inconclusive = []
    all_viol = []
    for s in sums:
        if 'fatal' in s:
            inconclusive.append('%s: internal error: %s' % (s['harness'], s['fatal'][:1500]))
            continue
        for e in s['errors']:
            inconclusive.append('%s: %s' % (s['harness'], e[:1200]))
        for b in s['bound_hits']:
            inconclusive.append('%s: BOUND-HIT %s' % (s['harness'], b))
        missing = [c for c in s['expect_classes'] if c not in s['outcome_classes']]
        if missing:
            inconclusive.append('%s: VACUOUS - expected outcome classes never reached: %s (saw %s)' % (
                s['harness'], missing, s['outcome_classes']))
        for v in s['violations']:
            h = hmap[s['harness']]
            if not getattr(h, 'reports_for', None) or pid in h.reports_for(v['label']):
                all_viol.append((s['harness'], v['label'], v['case']))
    # at most three candidates per (harness, obligation) are replayed: the rest are the same site on other paths
    seen_cnt = {}
    trimmed = []
    for hn, label, case in all_viol:
        k = (hn, label)
        seen_cnt[k] = seen_cnt.get(k, 0) + 1
        if seen_cnt[k] <= 3:
            trimmed.append((hn, label, case))
    all_viol = trimmed
    # ---- replay every candidate natively (dev profile; thorough: also release)
    confirmed = []
    spurious = []
    kernel_only = []
    reqs = []
    owners = []
    for hn, label, case in all_viol:
        h = hmap[hn]
        inputs = parse_inputs(case['inputs'])
        rs = h.native(inputs, label) or []
        for r in rs:
            reqs.append(r)
        case['_n_native'] = len(rs)
    obs_dev = native_observe([dict(r) for r in reqs]) if reqs else []
    obs_rel = native_observe([dict(r) for r in reqs], release=True) if (reqs and tier == 'thorough') else None
    pos = 0
    for hn, label, case in all_viol:
        h = hmap[hn]
        n = case.pop('_n_native')
        inputs = parse_inputs(case['inputs'])
        o_dev = obs_dev[pos:pos + n]
        o_rel = obs_rel[pos:pos + n] if obs_rel is not None else None
        case['native_requests'] = reqs[pos:pos + n]
        pos += n
        if n == 0:
            spurious.append((hn, label, case, 'harness has no native replay for this obligation'))
            continue
        rep, what = h.judge(inputs, label, o_dev)
        case['native_observations'] = o_dev
        case['profile'] = 'dev'
        if not rep and o_rel is not None:
            rep, what = h.judge(inputs, label, o_rel)
            case['profile'] = 'release-only'
        if rep == 'kernel-only':
            # reproduced natively by calling the public function the harness encodes, with no query-level form of the
            # same arguments: still a reproduced violation of the code the property is anchored in
            case['level'] = 'unit (public function called directly)'
            kernel_only.append((hn, label, case, what))
            confirmed.append((hn, label, case, 'unit level: ' + what))
        elif rep:
            confirmed.append((hn, label, case, what))
        else:
            spurious.append((hn, label, case, what))
    # ---- second solver (thorough tier): re-decide dumped queries with cvc5
    cross = cross_check(sums) if tier == 'thorough' else {'checked': 0, 'agree': 0, 'undecided': 0, 'disagree': []}
    for d in cross['disagree']:
        inconclusive.append('CROSS-SOLVER-DISAGREEMENT ' + d)
    # ---- translator validation: concrete vectors through MIR interpretation and the real build
    tv_total, tv_bad = translator_validation(hs, seed)
    for b in tv_bad:
        inconclusive.append('TRANSLATOR-MISMATCH ' + b)
    # ---- classify against known findings
    known = load_known()
    new_viol = []
    known_hits = []
    seen_keys = set()
    for hn, label, case, what in confirmed:
        k = match_known(known, pid, hn, label, json.dumps(case['inputs']))
        if k:
            key = k.get('id')
            if key not in seen_keys:
                seen_keys.add(key)
                known_hits.append((k, hn, label, what))
        else:
            new_viol.append((hn, label, case, what))
    for hn, label, case, what in spurious:
        inconclusive.append('SPURIOUS %s [%s]: model %s did not reproduce natively: %s' % (hn, label, json.dumps(case['inputs'])[:300], what))
    for k, hn, label, what in known_hits:
        print('KNOWN-FINDING: property=%s %s (harness %s: %s)' % (pid, k['what'], hn, what[:200]))
    os.makedirs(os.path.join(CASES, pid), exist_ok=True)
    vlines = []
    dedup = set()
    per_harness = {}
    suppressed = 0
    for hn, label, case, what in new_viol:
        key = (hn, label)
        if key in dedup:
            continue
        dedup.add(key)
        per_harness[hn] = per_harness.get(hn, 0) + 1
        if per_harness[hn] > 8:
            suppressed += 1          # same harness, yet another obligation text: eight replay files per harness are enough
            continue
        path = os.path.join(CASES, pid, '%s-%d.json' % (hn.replace('/', '_'), len(dedup)))
        case['property'] = pid
        case['what'] = what
        with open(path, 'w') as fh:
            json.dump(case, fh, indent=1, default=str)
        vlines.append('VIOLATION property=%s replay=%s' % (pid, path))
        print('  %s [%s] %s :: %s' % (hn, label, json.dumps(case['inputs'])[:300], what[:300]))
    for ln in vlines:
        print(ln)
    if suppressed:
        print('NOTE %d further reproduced violations of the same harnesses are not listed (eight case files per harness)' % suppressed)
    for hn, label, case, what in kernel_only:
        print('NOTE reproduced at the unit level only (no query form of these arguments): %s [%s] %s' % (hn, label, what[:200]))
    for i in inconclusive:
        print('INCONCLUSIVE ' + i)
    wall = time.time() - t0
    write_evidence(pid, tier, seed, sums, hashes, confirmed, known_hits, new_viol, spurious, kernel_only, inconclusive,
                   tv_total, wall, cross)
    total_paths = sum(s.get('n_paths', 0) for s in sums)
    total_q = sum(s.get('queries', 0) for s in sums)
    print('%s tier=%s harnesses=%d paths=%d queries=%d solver=%.1fs wall=%.1fs translator-vectors=%d  new-violations=%d known=%d inconclusive=%d' % (
        pid, tier, len(sums), total_paths, total_q, sum(s.get('solver_ms', 0) for s in sums) / 1000.0, wall, tv_total,
        len(vlines), len(known_hits), len(inconclusive)))
    if vlines:
        return 1
    if inconclusive:
        return 2
    return 0


def cross_check(sums):
    """cvc5 on the SMT-LIB text of sampled obligation queries; a definite answer that differs from z3's is an alarm on
    the machinery (exit 2), unknown/timeouts are tolerated and counted"""
    from concurrent.futures import ThreadPoolExecutor
    jobs = []
    for s_ in sums:
        for d in s_.get('smt', [])[:4]:
            if len(d) >= 4 and d[3] in ('sat', 'unsat'):
                jobs.append(d)
    os.makedirs(os.path.join(build.BUILD, 'tmp'), exist_ok=True)

    def run(d):
        path = os.path.join(build.BUILD, 'tmp', 'q-%d-%d.smt2' % (os.getpid(), abs(hash(d[2])) % 10 ** 9))
        with open(path, 'w') as fh:
            fh.write('(set-logic ALL)\n' + d[2] + '\n')
        try:
            p = subprocess.run(['cvc5', '--lang', 'smt2', '--tlimit=20000', path], stdout=subprocess.PIPE, stderr=subprocess.PIPE, timeout=40)
            out = p.stdout.decode().strip().split('\n')[0] if p.stdout else 'unknown'
            if '(error' in (p.stdout.decode() + p.stderr.decode()):
                out = 'error'
        except subprocess.TimeoutExpired:
            out = 'unknown'
        finally:
            try:
                os.remove(path)
            except OSError:
                pass
        return d, out
    res = {'checked': 0, 'agree': 0, 'undecided': 0, 'disagree': []}
    with ThreadPoolExecutor(max_workers=8) as ex:
        for d, out in ex.map(run, jobs):
            res['checked'] += 1
            if out in ('sat', 'unsat'):
                if out == d[3]:
                    res['agree'] += 1
                else:
                    res['disagree'].append('%s [%s]: z3 %s, cvc5 %s' % (d[0], d[1][:80], d[3], out))
            else:
                res['undecided'] += 1
    return res


def translator_validation(hs, seed):
    """push concrete vectors through (a) the MIR interpretation + library models and (b) the real function"""
    from mirsym.driver import run_path
    from mirsym.lib import Lib
    total = 0
    bad = []
    lib = Lib()
    batch = []
    for modname, h in hs:
        if not hasattr(h, 'vectors'):
            continue
        rng = random.Random(seed * 7919 + hash(h.name) % 1000)
        prog, _ = load_prog(getattr(h, 'program', 'core'))
        for vec in h.vectors(rng):
            h._concrete = vec
            try:
                ex, pr = run_path(prog, lib, h, [], 5000)
            finally:
                h._concrete = None
            if pr.status == 'infeasible':
                continue
            if pr.status != 'ok':
                bad.append('%s: concrete run on %s ended %s %s' % (h.name, vec, pr.status, pr.detail))
                continue
            batch.append((h, vec, pr.outcome, h.native(vec, 'validate')))
    reqs = []
    for h, vec, outcome, rs in batch:
        reqs.extend(rs[:1])
    obs = native_observe([dict(r) for r in reqs]) if reqs else []
    i = 0
    for h, vec, outcome, rs in batch:
        if not rs:
            continue
        o = obs[i]
        i += 1
        total += 1
        try:
            okk, why = h.agree(vec, outcome, o)
        except Exception as e:
            okk, why = False, 'comparison failed: %r' % (e,)
        if not okk:
            bad.append('%s: inputs %s: MIR interpretation and native disagree: %s' % (h.name, {k: str(v) for k, v in vec.items()}, why))
    return total, bad


def write_evidence(pid, tier, seed, sums, hashes, confirmed, known_hits, new_viol, spurious, kernel_only, inconclusive, tv_total, wall, cross=None):
    os.makedirs(EVID, exist_ok=True)
    samples = []
    for s in sums:
        if 'fatal' in s:
            continue
        for p in s['paths'][:3]:
            samples.append({'harness': s['harness'], 'entry': s['entry'], 'decisions': p['decisions'], 'branch_notes': p['notes'],
                            'outcome': p['outcome'], 'status': p['status'], 'obligations': p['obligations']})
    smt = []
    for s in sums:
        for d in s.get('smt', [])[:1]:
            smt.append({'harness': d[0], 'obligation': d[1], 'smt2_head': d[2][:1500]})
    total_paths = sum(s.get('n_paths', 0) for s in sums)
    total_dec = sum(len(p['decisions']) for s in sums if 'paths' in s for p in s['paths'])
    total_q = sum(s.get('queries', 0) for s in sums)
    obligations = sum(len(p['obligations']) for s in sums if 'paths' in s for p in s['paths'])
    discharged = sum(1 for s in sums if 'paths' in s for p in s['paths'] for o in p['obligations'] if o[1] == 'unsat')
    ev = {
        'property_id': pid, 'tier': tier, 'seed': seed, 'level': 'model_checking',
        'coverage': {
            'evaluations': max(total_q, 1),
            'distinct_nontrivial': sum(s.get('nontrivial', 0) for s in sums),
            'rule': 'bounded symbolic execution of rustc MIR: every feasible path of each harness entry function is enumerated '
                    '(a path = sequence of solver-checked branch decisions); on each path every obligation is one SMT query '
                    'pc AND NOT(obligation). evaluations = solver queries; a path is non-trivial when it contains at least one '
                    'symbolic branch decision or symbolic obligation; distinct = distinct decision strings + outcome kind.',
            'samples': samples[:40],
            'states': max(total_paths, 1), 'transitions': max(total_dec, 1),
            'traces_validated_against_impl': tv_total,
            'obligations': obligations, 'discharged': discharged,
            'exhaustive': not inconclusive,
            'harnesses': [{k: s.get(k) for k in ('harness', 'describe', 'entry', 'n_paths', 'nontrivial', 'queries', 'solver_ms',
                                                 'max_query_ms', 'unknown', 'outcome_classes', 'wall', 'bound_notes', 'assumptions',
                                                 'stubs', 'bound_hits', 'errors')} for s in sums],
            'functions_encoded': sorted(set(f for s in sums for f in s.get('fns', []))),
            'library_models_used': sorted(set(f for s in sums for f in s.get('models', []))),
            'stubs': sorted(set(f for s in sums for f in s.get('stubs', []))),
            'solver': {'name': 'z3', 'version': z3_version(), 'total_s': round(sum(s.get('solver_ms', 0) for s in sums) / 1000.0, 3),
                       'max_query_ms': round(max([s.get('max_query_ms', 0) for s in sums] or [0]), 1)},
            'mir_hash': hashes,
            'smt_query_samples': smt[:4],
            'cross_solver': ({'solver': 'cvc5', 'queries_rechecked': cross['checked'], 'agree': cross['agree'], 'cvc5_undecided_or_error': cross['undecided'],
                              'disagreements': cross['disagree']} if cross else None),
            'confirmed_violations': [{'harness': a, 'label': b, 'inputs': c['inputs'], 'what': d[:300]} for a, b, c, d in confirmed][:30],
            'known_findings_matched': [k['id'] for k, _, _, _ in known_hits],
            'kernel_only': [{'harness': a, 'label': b, 'what': d[:200]} for a, b, c, d in kernel_only][:20],
            'inconclusive': inconclusive[:20],
        },
        'assumptions': sorted(set(a for s in sums for a in s.get('assumptions', []))) + [
            'rustc MIR (dev profile, overflow checks on) is the semantics of the source',
            'num-bigint / num-rational / chrono / std containers behave as documented (library-model table)',
        ],
        'wall_s': round(wall, 2),
        'violations': len(new_viol),
    }
    with open(os.path.join(EVID, pid + '.json'), 'w') as fh:
        json.dump(ev, fh, indent=1, default=str)


def z3_version():
    import z3
    return z3.get_version_string()


# ------------------------------------------------------------------------------------ C19 (Kani + mirsym)

def check_c19(tier, seed):
    from checker import kani
    t0 = time.time()
    names = ['usage_2', 'peak_2', 'usage_3', 'peak_3', 'set_limit_applies']
    tmo = 600
    if tier == 'thorough':
        names += ['usage_4', 'peak_4', 'usage_2_anylimit', 'peak_2_anylimit']
        tmo = 3000
    runs = kani.run_all(names, tmo)
    inconclusive = []
    viol = []
    known = load_known()
    known_hits = []
    samples = []
    total_checks = 0
    bins = None
    for r in runs:
        pr = kani.parse(r['out'])
        total_checks += pr.get('checks', 0)
        samples.append({'harness': r['name'], 'checks': pr.get('checks'), 'failed': pr.get('failed'), 'covers': pr.get('covers'),
                        'covers_satisfied': pr.get('covers_sat'), 'solver_s': pr.get('solver_s'), 'wall_s': round(r['wall'], 1),
                        'verdict': 'SUCCESSFUL' if pr['successful'] else ('FAILED' if pr['verification_failed'] else 'ERROR/TIMEOUT')})
        if pr['successful'] and r['rc'] == 0:
            if pr.get('covers') and pr.get('covers_sat') != pr.get('covers'):
                inconclusive.append('%s: VACUOUS cover properties %s/%s' % (r['name'], pr.get('covers_sat'), pr.get('covers')))
            continue
        if pr['verification_failed'] and not pr['unwinding_failed'] and pr.get('failures'):
            # counterexample: get concrete values and replay natively
            pb = kani.run_harness(r['name'], tmo, playback=True)
            tests = kani.playback_tests(pb['out'])
            if bins is None:
                bins = kani.native_bin()
            reproduced = None
            for (kind, desc), vecs in tests:
                nat = kani.native_replay(bins, r['name'], vecs)
                if any(v.startswith('NATIVE-PANIC') and 'ASSUME' not in v and 'FEED' not in v for v in nat.values()):
                    reproduced = (desc, vecs, nat)
                    break
            if reproduced:
                desc, vecs, nat = reproduced
                what = '%s: %s' % (r['name'], '; '.join(sorted(set(nat.values()))))
                k = match_known(known, 'C19', r['name'], what, '')
                if k:
                    known_hits.append(k)
                    print('KNOWN-FINDING: property=C19 %s' % k['what'])
                else:
                    os.makedirs(os.path.join(CASES, 'C19'), exist_ok=True)
                    path = os.path.join(CASES, 'C19', '%s.json' % r['name'])
                    with open(path, 'w') as fh:
                        json.dump({'property': 'C19', 'engine': 'kani', 'harness': r['name'], 'values': vecs, 'native': nat,
                                   'failures': pr['failures']}, fh, indent=1)
                    viol.append('VIOLATION property=C19 replay=%s' % path)
                    print('  kani %s: %s -> %s' % (r['name'], pr['failures'][:3], nat))
            else:
                inconclusive.append('%s: Kani reported %s but no counterexample reproduced natively' % (r['name'], pr['failures'][:3]))
        else:
            inconclusive.append('%s: Kani run did not complete (rc=%s, unwinding_failed=%s): %s' % (
                r['name'], r['rc'], pr.get('unwinding_failed'), r['out'][-400:].replace('\n', ' | ')))
    # engine M part: one-step inductive + interleavings on the MIR of alloc.rs
    rc_m = 0
    msum = None
    hs = get_harnesses('C19', tier)
    m_evidence = {}
    if hs:
        rc_m = check_mirsym('C19', tier, seed)
        try:
            m_evidence = json.load(open(os.path.join(EVID, 'C19.json')))
        except Exception:
            m_evidence = {}
    for v in viol:
        print(v)
    for i in inconclusive:
        print('INCONCLUSIVE ' + i)
    wall = time.time() - t0
    cov = m_evidence.get('coverage', {})
    ev = {
        'property_id': 'C19', 'tier': tier, 'seed': seed, 'level': 'model_checking',
        'coverage': {
            'evaluations': total_checks + cov.get('evaluations', 0),
            'distinct_nontrivial': len([s for s in samples if s['verdict'] == 'SUCCESSFUL']) + cov.get('distinct_nontrivial', 0),
            'rule': 'engine K: each Kani harness is one CBMC query over all operation histories of the stated length (symbolic op kind, '
                    'slot, size, limit) on the real alloc.rs, with unwinding assertions on; evaluations counts CBMC property checks; '
                    'engine M: see rule in mirsym part',
            'samples': samples + cov.get('samples', [])[:10],
            'states': max(1, len(samples) + cov.get('states', 0)), 'transitions': max(1, total_checks + cov.get('transitions', 0)),
            'traces_validated_against_impl': cov.get('traces_validated_against_impl', 0),
            'kani': samples,
            'mirsym': {k: cov.get(k) for k in ('harnesses', 'functions_encoded', 'library_models_used', 'stubs', 'solver', 'mir_hash', 'inconclusive')},
            'bounds': ['Kani: histories of 2..3 operations (thorough 4) over 2 block slots, limit <= 2^16 (anylimit harnesses: <= usize::MAX/4), sizes 1..2*limit, single thread, System allocator never fails (Kani malloc model)',
                       'mirsym: see harness bound notes'],
            'known_findings_matched': [k['id'] for k in known_hits],
            'inconclusive': inconclusive,
        },
        'assumptions': ['Kani/CBMC model of malloc/realloc/free stands for the System allocator and never returns null',
                        'sequentially consistent interleavings only (engine M)'] + m_evidence.get('assumptions', []),
        'wall_s': round(wall, 2),
        'violations': len(viol) + m_evidence.get('violations', 0),
    }
    with open(os.path.join(EVID, 'C19.json'), 'w') as fh:
        json.dump(ev, fh, indent=1, default=str)
    print('C19 tier=%s kani harnesses=%d checks=%d wall=%.1fs new-violations=%d inconclusive=%d' % (
        tier, len(runs), total_checks, wall, len(viol), len(inconclusive)))
    if viol or rc_m == 1:
        return 1
    if inconclusive or rc_m == 2:
        return 2
    return 0


def replay_case(path):
    case = json.load(open(path))
    if case.get('engine') == 'kani':
        from checker import kani
        bins = kani.native_bin()
        nat = kani.native_replay(bins, case['harness'], case['values'])
        print(json.dumps(nat, indent=1))
        return 1 if any(v.startswith('NATIVE-PANIC') for v in nat.values()) else 0
    reqs = case.get('native_requests', [])
    obs = native_observe([dict(r) for r in reqs])
    print(json.dumps(obs, indent=1)[:4000])
    hs = get_harnesses(case['property'], 'thorough')
    for _, h in hs:
        if h.name == case['harness']:
            rep, what = h.judge(parse_inputs(case['inputs']), case['label'], obs)
            print('reproduced=%s %s' % (rep, what))
            return 1 if rep else 0
    return 2


def main(argv):
    if len(argv) >= 2 and argv[0] == 'replay':
        return replay_case(argv[1])
    pid = argv[0]
    tier = os.environ.get('VERIF_TIER', 'quick')
    if '--tier' in argv:
        tier = argv[argv.index('--tier') + 1]
    seed = int(os.environ.get('VERIF_SEED', '0') or 0)
    try:
        if pid == 'C19':
            return check_c19(tier, seed)
        return check_mirsym(pid, tier, seed)
    except BuildError as e:
        print('INCONCLUSIVE build failed: %s' % e)
        return 2
    except Exception as e:      # a crash of the machinery is never a verdict
        print('INCONCLUSIVE internal error: %s\n%s' % (e, traceback.format_exc()))
        return 2


if __name__ == '__main__':
    sys.exit(main(sys.argv[1:]))
