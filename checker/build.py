"""Regenerates everything that depends on /repo: MIR dumps, replay binary.  Nothing is written under /repo."""
import fcntl
import hashlib
import os
import subprocess
import time

REPO = os.environ.get('VERIF_REPO', '/repo')
VERIF = os.path.dirname(os.path.dirname(os.path.abspath(__file__)))
BUILD = os.path.join(VERIF, '.build')
ENV = dict(os.environ, CARGO_NET_OFFLINE='true')


class BuildError(Exception):
    pass


def tree_hash(paths, exts=('.rs', '.toml', '.units', '.txt', '.lock')):
    h = hashlib.sha256()
    for root in paths:
        if os.path.isfile(root):
            files = [root]
        else:
            files = []
            for dp, dn, fn in os.walk(root):
                dn[:] = [d for d in dn if d not in ('target', '.git')]
                for f in fn:
                    if f.endswith(exts):
                        files.append(os.path.join(dp, f))
        for p in sorted(files):
            h.update(p.encode())
            with open(p, 'rb') as fh:
                h.update(fh.read())
    return h.hexdigest()[:20]


class Lock:
    def __init__(self, name):
        os.makedirs(BUILD, exist_ok=True)
        self.path = os.path.join(BUILD, name + '.lock')

    def __enter__(self):
        self.fh = open(self.path, 'w')
        fcntl.flock(self.fh, fcntl.LOCK_EX)
        return self

    def __exit__(self, *a):
        fcntl.flock(self.fh, fcntl.LOCK_UN)
        self.fh.close()


def core_mir():
    """-> (path to MIR text, hash).  Re-emitted whenever core sources change."""
    hsh = tree_hash([os.path.join(REPO, 'core', 'src'), os.path.join(REPO, 'core', 'Cargo.toml'),
                     os.path.join(REPO, 'Cargo.lock')])
    out = os.path.join(BUILD, 'mir', 'core-%s.mir' % hsh)
    with Lock('mir'):
        if os.path.exists(out) and os.path.getsize(out) > 100000:
            return out, hsh
        os.makedirs(os.path.dirname(out), exist_ok=True)
        tdir = os.path.join(BUILD, 'mir', 'target')
        env = dict(ENV, CARGO_TARGET_DIR=tdir)
        # force re-emission: an up-to-date crate prints no MIR
        subprocess.run(['cargo', '+nightly', 'clean', '--offline', '-p', 'rink-core'], cwd=REPO, env=env,
                       stdout=subprocess.DEVNULL, stderr=subprocess.DEVNULL)
        t0 = time.time()
        p = subprocess.run(['cargo', '+nightly', 'rustc', '--offline', '-p', 'rink-core', '--lib', '--',
                            '-Zunpretty=mir', '-C', 'debug-assertions=off', '-C', 'overflow-checks=on'],
                           cwd=REPO, env=env, stdout=subprocess.PIPE, stderr=subprocess.PIPE)
        if p.returncode != 0 or len(p.stdout) < 100000:
            raise BuildError('MIR dump of rink-core failed (exit %d):\n%s' % (p.returncode, p.stderr.decode()[-3000:]))
        tmp = out + '.tmp'
        with open(tmp, 'wb') as fh:
            fh.write(p.stdout)
        os.replace(tmp, out)
        # keep only the three newest dumps
        d = os.path.dirname(out)
        old = sorted((f for f in os.listdir(d) if f.endswith('.mir')), key=lambda f: os.path.getmtime(os.path.join(d, f)))
        for f in old[:-3]:
            os.remove(os.path.join(d, f))
        return out, hsh


def alloc_mir():
    """MIR of sandbox/src/alloc.rs through a two-line #[path] crate"""
    src = os.path.join(REPO, 'sandbox', 'src', 'alloc.rs')
    hsh = tree_hash([src])
    out = os.path.join(BUILD, 'mir', 'alloc-%s.mir' % hsh)
    with Lock('mir_alloc'):
        if os.path.exists(out) and os.path.getsize(out) > 1000:
            return out, hsh
        os.makedirs(os.path.dirname(out), exist_ok=True)
        crate = os.path.join(BUILD, 'alloc_mir_crate')
        os.makedirs(os.path.join(crate, 'src'), exist_ok=True)
        with open(os.path.join(crate, 'src', 'lib.rs'), 'w') as fh:
            fh.write('#![allow(dead_code)]\n#[path = "%s"]\npub mod alloc;\n' % src)
        p = subprocess.run(['rustc', '+nightly', '--crate-type', 'lib', '--edition', '2021', '-Zunpretty=mir',
                            '-C', 'debug-assertions=off', '-C', 'overflow-checks=on',
                            os.path.join(crate, 'src', 'lib.rs')], env=ENV, stdout=subprocess.PIPE, stderr=subprocess.PIPE)
        if p.returncode != 0 or len(p.stdout) < 1000:
            raise BuildError('MIR dump of alloc.rs failed:\n' + p.stderr.decode()[-3000:])
        with open(out, 'wb') as fh:
            fh.write(p.stdout)
        return out, hsh


def replay_bin(release=False):
    with Lock('replay'):
        env = dict(ENV, CARGO_TARGET_DIR=os.path.join(BUILD, 'replay'))
        cmd = ['cargo', 'build', '--offline'] + (['--release'] if release else [])
        p = subprocess.run(cmd, cwd=os.path.join(VERIF, 'replay'), env=env, stdout=subprocess.PIPE, stderr=subprocess.STDOUT)
        if p.returncode != 0:
            raise BuildError('replay crate failed to build:\n' + p.stdout.decode()[-3000:])
        return os.path.join(BUILD, 'replay', 'release' if release else 'debug', 'rink_replay')
