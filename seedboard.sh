#!/bin/bash
# Run every stored seeded change against the check that reports it (meta.json `verif_result`: the seed's own property, or the
# property named after "reported by"); one line per seed with the expectation next to the outcome.
# Patches /repo and undoes each patch: never run while another check, `vp check` or `vp run` is using /repo.
cd /verif
OUT=${1:-/verif/seeded/SCOREBOARD.txt}
: > $OUT
for d in seeded/*/; do
  n=$(basename $d)
  [ -f $d/patch.diff ] || continue
  read p want <<< $(python3 - "$d/meta.json" <<'PY'
import json,re,sys
m=json.load(open(sys.argv[1]))
own=m['property']
vr=m.get('verif_result','') or ''
if vr.startswith('missed') or 'not reported' in vr[:40]:
    print(own, 'missed')
else:
    r=re.search(r'reported by (C\d\d)', vr)
    print(r.group(1) if r else own, 'exit=1')
PY
)
  if ! git -C /repo apply --check /verif/$d/patch.diff 2>/dev/null; then echo "$n $p patch-does-not-apply" >> $OUT; continue; fi
  git -C /repo apply /verif/$d/patch.diff
  s=$(date +%s)
  ./check $p > /tmp/seedboard_$n.log 2>&1; rc=$?
  git -C /repo checkout -- .
  h=$(grep -E '^  [a-zA-Z_.0-9]+ \[|^  kani ' /tmp/seedboard_$n.log | sed -E 's/^  ([a-zA-Z_.0-9 ]+).*/\1/' | sort -u | head -4 | tr '\n' ',')
  verdict=OK
  if [ "$want" = "exit=1" ] && [ $rc -ne 1 ]; then verdict=REGRESSION; fi
  echo "$n check=$p expected=$want got=exit=$rc $verdict $(( $(date +%s)-s ))s viol=$(grep -c '^VIOLATION' /tmp/seedboard_$n.log) harnesses=$h inconclusive=$(grep -c '^INCONCLUSIVE' /tmp/seedboard_$n.log)" >> $OUT
done
git -C /repo status --short >> $OUT
echo DONE >> $OUT
