#!/bin/bash
# run every stored seeded change against the check of its own property; one line per seed
cd /verif
OUT=${1:-/verif/seeded/SCOREBOARD.txt}
: > $OUT
for d in seeded/*/; do
  n=$(basename $d)
  [ -f $d/patch.diff ] || continue
  p=$(python3 -c "import json;print(json.load(open('$d/meta.json'))['property'])")
  if ! git -C /repo apply --check /verif/$d/patch.diff 2>/dev/null; then echo "$n $p patch-does-not-apply" >> $OUT; continue; fi
  git -C /repo apply /verif/$d/patch.diff
  s=$(date +%s)
  ./check $p > /tmp/seedboard_$n.log 2>&1; rc=$?
  git -C /repo checkout -- .
  h=$(grep -E '^  [a-zA-Z_.0-9]+ \[|^  kani ' /tmp/seedboard_$n.log | sed -E 's/^  ([a-zA-Z_.0-9 ]+).*/\1/' | sort -u | head -4 | tr '\n' ',')
  echo "$n $p exit=$rc $(( $(date +%s)-s ))s viol=$(grep -c '^VIOLATION' /tmp/seedboard_$n.log) harnesses=$h inconclusive=$(grep -c '^INCONCLUSIVE' /tmp/seedboard_$n.log)" >> $OUT
done
echo DONE >> $OUT
