import json
"""C07 name resolution: Context::lookup / Registry::lookup* on a symbolic database over a universe of colliding names."""
import z3
from fractions import Fraction
from .common import *  # noqa
from mirsym.lib import MapV

# material chosen so that exact / prefix+unit / plural readings collide:  ks = k+s | K? ; ms = m+s ; mins = min+s | m+ins ;
# kin = k+in ; kis = ki+s | k+is ; min = min | m+in
PREFIXES = ['k', 'ki', 'm']
STEMS = ['s', 'm', 'in', 'ins', 'min', 'is', 'å', 'ks', 'ms', 'K']
QUERIES = ['s', 'ks', 'ms', 'kis', 'min', 'mins', 'kin', 'kins', 'kmin', 'mm', 'ss', 'K', 'Ks', 'kks', 'mis', 'x', 'ans', '_', 'ANS', 'Ans', 'aNs', '__', 'ås', 'kås', 'å']


def build_registry(ex, I, stems, prefixes, tag=''):
    """every stem may be a base unit and/or a unit (symbolic presence); every prefix has a symbolic value"""
    fields = ex.prog.src.structs['Registry']
    base = MapV()
    units = MapV()
    info = {'base': {}, 'unit': {}, 'prefix': []}
    for i, n in enumerate(stems):
        pb = I.bool('%sbase_%s' % (tag, n))
        pu = I.bool('%sunit_%s' % (tag, n))
        vu = I.real('%sval_%s' % (tag, n))
        base.ent[n] = [base_unit(n), pb, Tup([])]
        units.ent[n] = [n, pu, number(rational(vu), dim({'u_' + n: (True, 1)}))]
        info['base'][n] = pb
        info['unit'][n] = (pu, vu)
    plist = []
    for p in prefixes:
        pv = I.real('%spre_%s' % (tag, p))
        plist.append(Tup([p, rational(pv)]))
        info['prefix'].append((p, pv))
    return make_struct(ex, 'Registry', {'base_units': base, 'units': units, 'prefixes': Arr(plist)}), info


def spec_exact(info, name):
    """-> list of (condition, value, tag) alternatives in priority order (first true condition wins)"""
    alts = []
    if name in info['base']:
        alts.append((info['base'][name], z3.RealVal(1), 'base:' + name))
    if name in info['unit']:
        pu, vu = info['unit'][name]
        alts.append((pu, vu, 'unit:' + name))
    return alts


def spec_with_prefix(info, name):
    alts = list(spec_exact(info, name))
    for p, pv in info['prefix']:
        if name.startswith(p):
            for c, v, t in spec_exact(info, name[len(p):]):
                alts.append((c, v * pv, 'prefix:%s+%s' % (p, t)))
    return alts


def spec_lookup(info, name):
    alts = spec_with_prefix(info, name)
    if name.endswith('s'):
        alts += [(c, v, 'plural:' + t) for c, v, t in spec_with_prefix(info, name[:-1])]
    return alts


TAGS = {}


def tag_id(t):
    return TAGS.setdefault(t, len(TAGS) + 1)


class Lookup(Harness):
    props = ('C07', 'C04')
    entry = 'Context::lookup'
    loop_bound = 12
    _concrete = None

    def __init__(self, tier):
        self.name = 'context.lookup'
        self.stems = STEMS if tier == 'thorough' else STEMS[:7]
        self.prefixes = PREFIXES
        self.queries = QUERIES
        self.describe = ('Context::lookup(name) for %d names on a symbolic database: each of %d stems may or may not be a base unit / a unit '
                         '(2^%d configurations at once), %d prefixes with arbitrary values, previous answer present or not') % (
            len(self.queries), len(self.stems), 2 * len(self.stems), len(self.prefixes))
        self.bounds = ['name universe: stems %s x prefixes %s (+ plural s)' % (self.stems, self.prefixes), 'prefix list order fixed: %s' % (self.prefixes,)]
        self.expect_classes = ['Option::Some', 'Option::None']

    def build(self, ex, I):
        reg, info = build_registry(ex, I, self.stems, self.prefixes)
        q = self.queries[ex.choose(len(self.queries), 'queried name')]
        cf = ex.prog.src.structs['Context']
        has_prev = ex.choose(2, 'previous_result None/Some')
        pv = I.real('ans_value')
        vals = {'registry': reg, 'temporaries': MapV(), 'now': Opaque('now'), 'use_humanize': True, 'save_previous_result': True,
                'previous_result': some(ex, number(rational(pv), dim({'u_ans': (True, 1)}))) if has_prev else none(ex)}
        ctxv = make_struct(ex, 'Context', vals)
        return [ref(ctxv), q], {'info': info, 'q': q, 'has_prev': has_prev, 'pv': pv}

    def post(self, ex, ctx, outcome):
        info, q = ctx['info'], ctx['q']
        r = deref_all(outcome[1])
        if q in ('ans', 'ANS', '_'):
            if ctx['has_prev']:
                if not is_some(r):
                    return [('ans denotes the previous result', False)]
                val, d = number_parts(payload(r))
                return [('ans denotes the previous result', b_and(n_eq(numeric_parts(val)[1], ctx['pv']), 'u_ans' in d))]
            return [('ans is undefined without a previous result', is_none(r))]
        alts = spec_lookup(info, q)
        any_c = z3.Or(*[zbool(c) for c, v, t in alts]) if alts else z3.BoolVal(False)
        if is_none(r):
            return [('a name with an exact / prefix / plural reading resolves', z3.Not(any_c))]
        val, d = number_parts(payload(r))
        kind, x = numeric_parts(val)
        if kind != 'rational':
            return [('value is rational', False)]
        # which entry was used is visible in the unit tag
        tags = [k for k, (p, e) in d.items() if p is True or simp(p) is True]
        obs = [('a resolved name has some reading', any_c)]
        # specification: first alternative whose condition holds
        want_v = z3.RealVal(0)
        want_u = z3.IntVal(0)
        for c, v, t in reversed(alts):
            stem = t.split(':')[-1]
            want_v = z3.If(zbool(c), zreal(v), want_v)
            want_u = z3.If(zbool(c), z3.IntVal(tag_id(stem)), want_u)
        got_u = [tag_id(k[2:]) if k.startswith('u_') else tag_id(k) for k in tags]
        obs.append(('resolution order exact > prefix (list order) > plural: value', zreal(x) == want_v))
        obs.append(('resolution order exact > prefix (list order) > plural: entry', z3.IntVal(got_u[0] if len(got_u) == 1 else -1) == want_u))
        return obs

    def case(self, ctx, vals, label):
        c = Harness.case(self, ctx, vals, label)
        c['inputs']['q'] = ctx['q']
        c['inputs']['previous_result None/Some'] = int(ctx['has_prev'])
        return c

    def native(self, inputs, label):
        # the database the solver's model describes, built natively (Registry's fields are public), plus the same
        # collision shapes on the bundled database for the record
        db = synthetic_db(inputs, '', self.stems, self.prefixes)
        if inputs.get('previous_result None/Some'):
            db['prev'] = str(inputs.get('ans_value') or '1')
        return [dict(db, mode='lookup_seq', names=[inputs['q']])] + [{'mode': 'lookup', 'name': n} for n in ('ks', 'ms', 'min', 'kin')]

    def judge(self, inputs, label, obs):
        o = obs[0]
        if o.get('outcome') != 'ok':
            return True, 'lookup on the model database: %s %s' % (o.get('outcome'), o.get('panic', ''))
        got = o['lookups'][0]['lookup']
        q = inputs['q']
        db = synthetic_db(inputs, '', self.stems, self.prefixes)
        if q in ('ans', 'ANS', '_'):
            want = ({'value': frac_str(inputs.get('ans_value') or '1'), 'unit': {'u_ans': 1}}
                    if inputs.get('previous_result None/Some') else None)
        else:
            want = concrete_lookup(db, q)
        g = None if got is None else {'value': frac_str(got['value']), 'unit': got['unit']}
        if g != want:
            return True, '`%s` on database %s resolves to %s; exact > prefix in list order > plural gives %s' % (q, json.dumps(db), json.dumps(g), json.dumps(want))
        return False, '`%s` resolves to %s as specified' % (q, json.dumps(g))


def frac_str(s):
    f = Fraction(str(s))
    return '%d/%d' % (f.numerator, f.denominator)


def concrete_lookup(db, name):
    """the documented resolution order on a concrete database: exact (base unit, then unit), then prefix + exact in
    prefix-list order, then the same for the name without a trailing `s`"""
    def exact(n):
        if n in db['bases']:
            return Fraction(1), {n: 1}
        if n in db['units']:
            return Fraction(db['units'][n]), {'u_' + n: 1}
        return None

    def with_prefix(n):
        r = exact(n)
        if r:
            return r
        for p, pv in db['prefixes']:
            if n.startswith(p):
                r = exact(n[len(p):])
                if r:
                    return r[0] * Fraction(pv), r[1]
        return None
    r = with_prefix(name)
    if r is None and name.endswith('s'):
        r = with_prefix(name[:-1])
    if r is None:
        return None
    return {'value': '%d/%d' % (r[0].numerator, r[0].denominator), 'unit': r[1]}


def harnesses(tier):
    return [Lookup(tier)]


# --------------------------------------------------------------------------------------------------------------
class CanonicalizePreservesValue(Harness):
    """lookup(canonicalize(n)) = lookup(n) on a symbolic database with long/short prefix pairs and names that
    split in two ways (d+at vs da+t)."""
    name = 'context.canonicalize.value_preserved'
    props = ('C07', 'C04')
    entry_name = 'Context::canonicalize ; Context::lookup ; Context::lookup'
    loop_bound = 16
    _concrete = None
    PREFIXES = [('deci', 'x'), ('d', 'x'), ('deca', 'y'), ('da', 'y')]
    STEMS = ['at', 't', 'a', 'ts', 'te']
    QUERIES = ['dat', 'dt', 'da', 'dats', 'dts', 'decit', 'decaat', 'at', 'ats', 'daa', 'dda', 'atss', 'tss', 'dtss', 'tsss', 'ta', 'dta', 'tas',
               'tes', 'dtes', 'ates']
    # an alias (a unit whose definition is another unit's name) and quantity-like entries: the loader files a quantity
    # `name ? unit` under `definitions` but not under `units`, so `lookup` never sees it; their names here also have a
    # prefix+unit / plural reading (as `mass` = m+as+s has in the bundled file)
    ALIASES = [('ta', 't')]
    QDEFS = [('dat', 'a'), ('ats', 't'), ('dt', 'at')]

    def __init__(self):
        self.describe = ('canonicalize then lookup vs lookup for %d names over stems %s (each present or not) and prefixes %s with '
                         'equal values for the long/short pairs') % (len(self.QUERIES), self.STEMS, [p for p, _ in self.PREFIXES])
        self.assumptions = ['database well-formedness as the loader establishes it: every unit has a definition, an alias has the value of its '
                            'target, a quantity entry sits in `definitions` only and only when no unit has its name, long and short spellings of a '
                            'prefix carry the same value; no base-unit long names in this universe']
        self.bounds = ['universe: stems %s, aliases %s, quantity entries %s (each present or not), prefix list %s in this order' % (
            self.STEMS, self.ALIASES, self.QDEFS, self.PREFIXES)]
        self.expect_classes = ['canonical', 'no-canonical-name']

    def build(self, ex, I):
        fields = ex.prog.src.structs['Registry']
        units, defs = MapV(), MapV()
        info = {}
        for n in self.STEMS:
            p = I.bool('unit_%s' % n)
            v = I.real('val_%s' % n)
            ex.assume(v != 0)
            units.ent[n] = [n, p, number(rational(v), dim({'u_' + n: (True, 1)}))]
            defs.ent[n] = [n, p, expr_const(ex, rational(Fraction(1)))]
            info[n] = (p, v)
        for n, target in self.ALIASES:
            p = I.bool('unit_%s' % n)
            tp, tv = info[target]
            ex.assume(z3.Implies(p, tp))
            units.ent[n] = [n, p, number(rational(tv), dim({'u_' + target: (True, 1)}))]
            defs.ent[n] = [n, p, expr_unit(ex, target)]
        for n, target in self.QDEFS:
            p = I.bool('quantity_%s' % n)
            assert n not in units.ent
            defs.ent[n] = [n, p, expr_unit(ex, target)]
        pv = {'x': I.real('prefix_x'), 'y': I.real('prefix_y')}
        ex.assume(z3.And(pv['x'] != 0, pv['y'] != 0, pv['x'] != pv['y']))
        plist = Arr([Tup([p, rational(pv[k])]) for p, k in self.PREFIXES])
        vals = {f: MapV() for f in fields}
        vals['units'] = units
        vals['definitions'] = defs
        vals['prefixes'] = plist
        vals['datepatterns'] = Arr([])
        reg = make_struct(ex, 'Registry', {'units': units, 'definitions': defs, 'prefixes': plist})
        cf = ex.prog.src.structs['Context']
        cv = {'registry': reg, 'temporaries': MapV(), 'now': Opaque('now'), 'use_humanize': True, 'save_previous_result': False,
              'previous_result': none(ex)}
        ctxv = make_struct(ex, 'Context', cv)
        q = self.QUERIES[ex.choose(len(self.QUERIES), 'name')]
        return [ctxv, q], {'q': q}

    def entry(self, ex, args, ctx):
        ctxv, q = args
        c = ex.call(None, 'loader::context::Context::canonicalize', [ref(ctxv), q])
        cv = deref_all(c)
        l1 = ex.call(None, 'loader::context::Context::lookup', [ref(ctxv), q])
        if cv.variant == 0:
            return Tup([c, l1, none(ex)])
        cn = deref_all(cv.fields[0])
        ctx['canon'] = cn
        l2 = ex.call(None, 'loader::context::Context::lookup', [ref(ctxv), cn])
        return Tup([c, l1, l2])

    def classify(self, outcome):
        if outcome[0] == 'panic':
            return 'panic'
        return 'canonical' if deref_all(deref_all(outcome[1]).fields[0]).variant == 1 else 'no-canonical-name'

    def post(self, ex, ctx, outcome):
        t = deref_all(outcome[1])
        c, l1, l2 = (deref_all(x) for x in t.fields)
        if c.variant == 0:
            return []
        cn = ctx.get('canon')
        if not isinstance(cn, str):
            return [('canonical name is a concrete string', False)]
        obs = [('canonical name `%s` of `%s` resolves whenever the name does' % (cn, ctx['q']), l1.variant != 1 or l2.variant == 1)]
        if l1.variant == 1 and l2.variant == 1:
            v1, d1 = number_parts(l1.fields[0])
            v2, d2 = number_parts(l2.fields[0])
            obs.append(('`%s` and its canonical name `%s` denote the same value' % (ctx['q'], cn),
                        zreal(numeric_parts(v1)[1]) == zreal(numeric_parts(v2)[1])))
            obs.append(('... and the same unit', sorted(d1) == sorted(d2)))
        return obs

    def case(self, ctx, vals, label):
        c = Harness.case(self, ctx, vals, label)
        c['inputs']['q'] = ctx['q']
        return c

    NAMES = ['dat', 'dau', 'daA', 'dasb', 'daustbl', 'yoctodecillion', 'mm', 'km', 'dam', 'das', 'kg', 'ft', 'micron', 'feet', 'kft', 'mins', 'ks',
             'mss', 'kss', 'gausss', 'kilogausss', 'inchess', 'sss']

    def names(self):
        # every quantity the bundled file defines (`name ? expr`), with and without a plural s, joins the fixed list
        import os
        from checker.build import REPO
        out = list(self.NAMES)
        try:
            for line in open(os.path.join(REPO, 'core', 'definitions.units'), encoding='utf-8'):
                m = _re.match(r'^(\S+)\s+\?', line)
                if m:
                    out += [m.group(1), m.group(1) + 's']
        except OSError:
            pass
        return out

    def model_db(self, inputs):
        def val(x):
            return str(x) if x is not None else '1'
        units = {n: val(inputs.get('val_%s' % n)) for n in self.STEMS if inputs.get('unit_%s' % n)}
        defs = {n: None for n in units}
        dims = {}
        for n, t in self.ALIASES:
            if inputs.get('unit_%s' % n):
                units[n] = val(inputs.get('val_%s' % t))
                dims[n] = t
                defs[n] = t
        for n, t in self.QDEFS:
            if inputs.get('quantity_%s' % n):
                defs[n] = t
        pv = {'x': val(inputs.get('prefix_x')), 'y': val(inputs.get('prefix_y'))}
        return {'bases': [], 'units': units, 'unit_dims': dims, 'definitions': defs, 'prefixes': [[p, pv[k]] for p, k in self.PREFIXES]}

    def native(self, inputs, label):
        # the database the solver's model describes, built natively (Registry's fields are public); then the same question
        # on the bundled database, for the names that split in two ways there (d/da, y/yocto), ordinary ones, and the
        # quantity names
        return ([dict(self.model_db(inputs), mode='lookup_seq', names=[inputs['q']])]
                + [{'mode': 'canon_roundtrip', 'name': n} for n in self.names()])

    @staticmethod
    def _differs(o):
        return o.get('canonicalize') is not None and o.get('lookup') is not None and o.get('lookup') != o.get('lookup_canon')

    def judge(self, inputs, label, obs):
        bad = []
        o = obs[0]
        if o.get('outcome') != 'ok':
            bad.append('model database: %s %s' % (o.get('outcome'), o.get('panic', '')))
        else:
            r = o['lookups'][0]
            if self._differs(r):
                bad.append('on database %s: `%s` is %s, its canonical name `%s` is %s' % (
                    json.dumps(self.model_db(inputs)), r['name'], json.dumps(r['lookup']), r['canonicalize'], json.dumps(r['lookup_canon'])))
        for n, o in zip(self.names(), obs[1:]):
            if o.get('outcome') == 'panic':
                bad.append('bundled database: %s: panic %s' % (n, o.get('panic')))
            elif self._differs(o):
                bad.append('bundled database: %s -> %s: %s vs %s' % (n, o.get('canonicalize'), o.get('lookup'), o.get('lookup_canon')))
        return (bool(bad), '; '.join(bad) or 'model database and bundled database: canonical names keep their values')


def json_names(obs):
    return {o.get('id'): o.get('canonicalize') for o in obs}


class CanonicalizeOnDatabase(Harness):
    pass


_lookup_harnesses = harnesses


def harnesses(tier):   # noqa: F811
    return _lookup_harnesses(tier) + [CanonicalizePreservesValue()]


# --------------------------------------------------------------------------------------------------------------
import re as _re


class StaticDeterminism(Harness):
    """Not a solver query: the `deterministic` clause of C07 rests on name resolution being a pure function of the
    registry and on the registry being built in a fixed order.  std's HashMap/HashSet iterate in a per-process random
    order, so any rink-core code that iterates one is flagged (membership tests and insertion are fine)."""
    name = 'static.no_hash_iteration_order'
    props = ('C07',)
    describe = 'scan of the regenerated MIR: no iteration over std HashMap / HashSet anywhere in rink-core'
    expect_classes = ['return']
    _concrete = None

    def build(self, ex, I):
        return [], {}

    def entry(self, ex, args, ctx):
        pat = _re.compile(r'(hash_map|hash_set)::(Iter|IterMut|IntoIter|Keys|Values|ValuesMut|Drain|IntoKeys|IntoValues)\b|'
                          r'Hash(Map|Set)::<[^(]*>::(iter|iter_mut|into_iter|keys|values|values_mut|drain|into_keys|into_values|retain)\b|'
                          r'<(&(mut )?)?(std::collections::)?Hash(Map|Set)<.*> as IntoIterator>::into_iter')
        bad = []
        for f in ex.prog.order:
            for ln in f.lines:
                if 'Hash' in ln or 'hash_' in ln:
                    if pat.search(ln):
                        bad.append('%s: %s' % (f.name[:70], ln.strip()[:140]))
                        break
        ctx['bad'] = bad
        return Tup([])

    def post(self, ex, ctx, outcome):
        return [('no code in rink-core iterates a HashMap/HashSet %s' % ctx['bad'][:2], not ctx['bad'])]

    def native(self, inputs, label):
        return [{'mode': 'lookup', 'name': n} for n in ('dat', 'dau', 'yoctodecillion', 'km')]

    def judge(self, inputs, label, obs):
        # a static fact about the source: it is the violation; the native part only documents the ambiguous names
        return True, 'hash-order dependent iteration in rink-core (bundled database: %s)' % ', '.join(
            '%s=%s' % (o.get('id'), ((o.get('lookup') or {}).get('value'))) for o in obs)


_c07_all = harnesses


def harnesses(tier):   # noqa: F811
    return _c07_all(tier) + [StaticDeterminism()]


# --------------------------------------------------------------------------------------------------------------
class LookupTwice(Harness):
    """determinism across a history: looking another name up first must not change what a name denotes"""
    name = 'context.lookup.history_independent'
    props = ('C07', 'C15')
    entry_name = 'Context::lookup x2 vs Context::lookup on an identical fresh database'
    loop_bound = 12
    _concrete = None
    PAIRS = [('km', 'ks'), ('ks', 'kis'), ('mm', 'kin'), ('kis', 'ks'), ('ms', 'mins'), ('kmin', 'kis'), ('kim', 'kis'), ('kiin', 'kins'), ('kis', 'kim')]

    def __init__(self, tier='quick'):
        if tier == 'thorough':
            # every queried name first, every name with more than one reading second
            self.PAIRS = [(a, b) for a in QUERIES + ['kim', 'kiin', 'kis'] for b in ('kis', 'kins', 'mins', 'kin', 'ks', 'kim', 'kmin') if a != b]
        self.describe = 'lookup(first); lookup(second) on one context compared with lookup(second) on a fresh identical context, for %d name pairs over the colliding universe' % len(self.PAIRS)
        self.bounds = ['histories of length 2', 'universe as in context.lookup']
        self.expect_classes = ['return']

    def build(self, ex, I):
        first, second = self.PAIRS[ex.choose(len(self.PAIRS), 'pair')]
        regs = []
        for tag in ('a_', 'b_'):
            reg, info = build_registry(ex, I, STEMS[:7], ['k', 'ki', 'm'], tag)
            regs.append((reg, info))
        # the two databases are identical
        (ra, ia), (rb, ib) = regs
        for n in ia['base']:
            ex.assume(ia['base'][n] == ib['base'][n])
            ex.assume(ia['unit'][n][0] == ib['unit'][n][0])
            ex.assume(ia['unit'][n][1] == ib['unit'][n][1])
        for (p1, v1), (p2, v2) in zip(ia['prefix'], ib['prefix']):
            ex.assume(v1 == v2)
        cf = ex.prog.src.structs['Context']
        ctxs = []
        for reg in (ra, rb):
            cv = {'registry': reg, 'temporaries': MapV(), 'previous_result': none(ex)}
            ctxs.append(make_struct(ex, 'Context', cv))
        return [ctxs[0], ctxs[1], first, second], {'first': first, 'second': second}

    def entry(self, ex, args, ctx):
        c1, c2, first, second = args
        r1 = ref(c1)
        ex.call(None, 'loader::context::Context::lookup', [r1, first])
        a = ex.call(None, 'loader::context::Context::lookup', [r1, second])
        b = ex.call(None, 'loader::context::Context::lookup', [ref(c2), second])
        return Tup([a, b])

    def post(self, ex, ctx, outcome):
        a, b = (deref_all(x) for x in deref_all(outcome[1]).fields)
        obs = [('`%s` resolves the same way after looking `%s` up' % (ctx['second'], ctx['first']), a.variant == b.variant)]
        if a.variant == 1 and b.variant == 1:
            va, da = number_parts(a.fields[0])
            vb, db = number_parts(b.fields[0])
            obs.append(('... to the same value', zreal(numeric_parts(va)[1]) == zreal(numeric_parts(vb)[1])))
            obs.append(('... and the same entry', sorted(k[2:] for k in da) == sorted(k[2:] for k in db)))
        return obs

    def case(self, ctx, vals, label):
        c = Harness.case(self, ctx, vals, label)
        c['inputs']['first'] = ctx['first']
        c['inputs']['second'] = ctx['second']
        return c

    def native(self, inputs, label):
        db = synthetic_db(inputs, 'a_', STEMS[:7], ['k', 'ki', 'm'])
        first, second = inputs['first'], inputs['second']
        return [dict(db, mode='lookup_seq', names=[first, second]), dict(db, mode='lookup_seq', names=[second]),
                {'mode': 'query', 'text': '1 dat'}, {'mode': 'query', 'pre': ['3 dam -> m'], 'text': '1 dat'}]

    def judge(self, inputs, label, obs):
        bad = []
        if obs[0].get('outcome') == 'ok' and obs[1].get('outcome') == 'ok':
            after, fresh = obs[0]['lookups'][-1]['lookup'], obs[1]['lookups'][-1]['lookup']
            if after != fresh:
                bad.append('`%s` after looking `%s` up: %s; on a fresh identical database: %s' % (inputs['second'], inputs['first'], json.dumps(after), json.dumps(fresh)))
        else:
            bad.append('lookup outcome %s / %s' % (obs[0].get('outcome'), obs[1].get('outcome')))
        if obs[2].get('display') != obs[3].get('display'):
            bad.append('bundled database: `1 dat` fresh: %s; after `3 dam -> m`: %s' % (obs[2].get('display'), obs[3].get('display')))
        return (bool(bad), '; '.join(bad) or 'history independent natively')


def synthetic_db(inputs, tag, stems, prefixes):
    """the database a solver model describes, for the observer's lookup_seq mode"""
    def val(x):
        return str(x) if x is not None else '1'
    return {'bases': [n for n in stems if inputs.get('%sbase_%s' % (tag, n))],
            'units': {n: val(inputs.get('%sval_%s' % (tag, n))) for n in stems if inputs.get('%sunit_%s' % (tag, n))},
            'prefixes': [[p, val(inputs.get('%spre_%s' % (tag, p)))] for p in prefixes]}


_c07_prev2 = harnesses


def harnesses(tier):   # noqa: F811
    return _c07_prev2(tier) + [LookupTwice(tier)]


# --------------------------------------------------------------------------------------------------------------
class ExpandAliases(Harness):
    """`eval_query`'s definition arm follows aliases with `expand_aliases`, a `while let` loop over `definitions` and
    `canonicalize` guarded by three `assert!`s: on every database the loader can produce (alias graph acyclic, targets
    resolvable) it must return - no assert, and no more iterations than there are definitions."""
    name = 'eval_query.definition.expand_aliases'
    props = ('C04', 'C07')
    entry_name = 'can_show_definition ; expand_aliases'
    loop_bound = 14
    _concrete = None
    ALIASES = [('al', 'at', ('unit_at',)), ('bl', 'al', ('unit_al',)), ('cl', 'dat', ()), ('dl', 'ts', ()), ('el', 'tee', ('long_t',)),
               ('fl', 'dtee', ('long_t',)), ('gl', 'bls', ('unit_bl',)), ('hl', 'decaat', ('unit_at',))]
    QDEFS = [('ql', 't', ()), ('dal', 'at', ('unit_at',)), ('qm', 'al', ('unit_al',)), ('tes', 'el', ('unit_el',))]
    PREFIXES = [('deci', 'x'), ('d', 'x'), ('deca', 'y'), ('da', 'y')]
    QUERIES = ['al', 'bl', 'cl', 'dl', 'el', 'fl', 'gl', 'hl', 'ql', 'dal', 'qm', 'tes', 'dbl', 'bls', 'dbls', 'tee', 'tees', 't', 'ts', 'dat',
               'at', 'ats', 'dals', 'dql', 'decael', 'dgl', 'zz']

    def __init__(self):
        self.describe = ('the definition query of %d names on a symbolic database: base unit t (long name tee or none), unit at, %d aliases '
                         '%s and %d quantity entries %s, each present or not, prefixes %s') % (
            len(self.QUERIES), len(self.ALIASES), [(a, b) for a, b, _ in self.ALIASES], len(self.QDEFS), [(a, b) for a, b, _ in self.QDEFS],
            [p for p, _ in self.PREFIXES])
        self.assumptions = ['database as the loader leaves it: an alias or quantity entry is present only if what it refers to resolves; the alias '
                            'graph is acyclic (fixed here); a quantity entry is in `definitions` only']
        self.bounds = ['the name universe above; at most %d loop iterations (the database has at most %d definitions): running past that is '
                       'reported as not terminating and replayed natively under a time limit' % (self.loop_bound, len(self.ALIASES) + len(self.QDEFS) + 2)]
        self.expect_classes = ['shown', 'not-shown']

    def build(self, ex, I):
        base, longn, units, defs = MapV(), MapV(), MapV(), MapV()
        base.ent['t'] = [base_unit('t'), True, Tup([])]
        pl = I.bool('long_t')
        longn.ent['t'] = ['t', pl, 'tee']
        units.ent['tee'] = ['tee', pl, number(rational(Fraction(1)), dim({'t': (True, 1)}))]
        defs.ent['tee'] = ['tee', pl, expr_unit(ex, 't')]
        pres = {'long_t': pl}
        pa = I.bool('unit_at')
        pres['unit_at'] = pa
        units.ent['at'] = ['at', pa, number(rational(I.real('val_at')), dim({'t': (True, 1)}))]
        defs.ent['at'] = ['at', pa, expr_const(ex, rational(Fraction(3)))]
        for n, target, needs in self.ALIASES:
            p = I.bool('unit_%s' % n)
            pres['unit_%s' % n] = p
            for k in needs:
                ex.assume(z3.Implies(p, pres[k]))
            units.ent[n] = [n, p, number(rational(I.real('val_%s' % n)), dim({'t': (True, 1)}))]
            defs.ent[n] = [n, p, expr_unit(ex, target)]
        for n, target, needs in self.QDEFS:
            p = I.bool('quantity_%s' % n)
            for k in needs:
                ex.assume(z3.Implies(p, pres[k]))
            defs.ent[n] = [n, p, expr_unit(ex, target)]
        pv = {'x': I.real('prefix_x'), 'y': I.real('prefix_y')}
        ex.assume(z3.And(pv['x'] != 0, pv['y'] != 0, pv['x'] != pv['y']))
        plist = Arr([Tup([p, rational(pv[k])]) for p, k in self.PREFIXES])
        reg = make_struct(ex, 'Registry', {'base_units': base, 'base_unit_long_names': longn, 'units': units, 'definitions': defs,
                                           'prefixes': plist})
        ctxv = make_struct(ex, 'Context', {'registry': reg, 'temporaries': MapV(), 'now': Opaque('now'), 'use_humanize': True,
                                           'save_previous_result': False, 'previous_result': none(ex)})
        q = self.QUERIES[ex.choose(len(self.QUERIES), 'name')]
        return [ctxv, q], {'q': q}

    def entry(self, ex, args, ctx):
        from mirsym.exec import BoundHit, PanicEvent
        ctxv, q = args
        shown = ex.call(None, 'runtime::eval::can_show_definition', [ref(ctxv), q])
        if simp(shown) is not True:
            if simp(shown) is not False:
                raise Unmodelled('can_show_definition: symbolic result')
            return Tup([False, Tup([])])
        try:
            r = ex.call(None, 'runtime::eval::expand_aliases', [ref(ctxv), q])
        except BoundHit as e:
            raise PanicEvent('expand_aliases does not return: %s' % e, 'runtime::eval::expand_aliases')
        return Tup([True, r])

    def classify(self, outcome):
        if outcome[0] == 'panic':
            return 'panic'
        return 'shown' if deref_all(outcome[1]).fields[0] is True else 'not-shown'

    def post(self, ex, ctx, outcome):
        t = deref_all(outcome[1])
        if t.fields[0] is not True:
            return []
        name, canon = (deref_all(x) for x in deref_all(t.fields[1]).fields)
        return [('expand_aliases returns two names', isinstance(name, str) and isinstance(canon, str))]

    def case(self, ctx, vals, label):
        c = Harness.case(self, ctx, vals, label)
        c['inputs']['q'] = ctx['q']
        return c

    def model_db(self, inputs):
        def val(x):
            return str(x) if x is not None else '1'
        units, dims, defs, longs = {}, {}, {}, {}
        if inputs.get('long_t'):
            longs['t'] = 'tee'
        if inputs.get('unit_at'):
            units['at'] = val(inputs.get('val_at'))
            dims['at'] = 't'
            defs['at'] = None
        for n, t, _ in self.ALIASES:
            if inputs.get('unit_%s' % n):
                units[n] = val(inputs.get('val_%s' % n))
                dims[n] = 't'
                defs[n] = t
        for n, t, _ in self.QDEFS:
            if inputs.get('quantity_%s' % n):
                defs[n] = t
        pv = {'x': val(inputs.get('prefix_x')), 'y': val(inputs.get('prefix_y'))}
        return {'bases': ['t'], 'long_names': longs, 'units': units, 'unit_dims': dims, 'plain_dims': True, 'definitions': defs,
                'prefixes': [[p, pv[k]] for p, k in self.PREFIXES]}

    def native(self, inputs, label):
        return [dict(self.model_db(inputs), mode='lookup_seq', names=[], define=[inputs['q']])]

    def judge(self, inputs, label, obs):
        o = obs[0]
        db = json.dumps(self.model_db(inputs))
        if o.get('outcome') == 'timeout':
            return True, 'the query `%s` on database %s does not finish (time limit of the native replay)' % (inputs['q'], db)
        if o.get('outcome') == 'panic':
            return True, 'the query `%s` on database %s panics: %s' % (inputs['q'], db, o.get('panic'))
        if o.get('outcome') != 'ok':
            return False, 'native replay: %s' % json.dumps(o)[:300]
        d = o['defines'][0]
        if d.get('outcome') == 'panic':
            return True, 'the query `%s` on database %s panics: %s' % (inputs['q'], db, d.get('panic'))
        return False, 'the query `%s` on the model database answers %s' % (inputs['q'], json.dumps(d)[:200])


_c07_prev3 = harnesses


def harnesses(tier):   # noqa: F811
    return _c07_prev3(tier) + [ExpandAliases()]
