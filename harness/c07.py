"""C07 name resolution: Context::lookup / Registry::lookup* on a symbolic database over a universe of colliding names."""
import z3
from .common import *  # noqa
from mirsym.lib import MapV

# material chosen so that exact / prefix+unit / plural readings collide:  ks = k+s | K? ; ms = m+s ; mins = min+s | m+ins ;
# kin = k+in ; kis = ki+s | k+is ; min = min | m+in
PREFIXES = ['k', 'ki', 'm']
STEMS = ['s', 'm', 'in', 'ins', 'min', 'is', 'ks', 'ms', 'K']
QUERIES = ['s', 'ks', 'ms', 'kis', 'min', 'mins', 'kin', 'kins', 'kmin', 'mm', 'ss', 'K', 'Ks', 'kks', 'mis', 'x', 'ans', '_']


def build_registry(ex, I, stems, prefixes, tag=''):
    """every stem may be a base unit and/or a unit (symbolic presence); every prefix has a symbolic value"""
    fields = ex.prog.src.structs['Registry']
    base = MapV()
    units = MapV()
    info = {'base': {}, 'unit': {}, 'prefix': []}
    for i, n in enumerate(stems):
        pb = I.bool('%sbase_%s' % (tag, n))
        pu = I.bool('%sunit_%s' % (tag, n))
        vu = I.real('%sval_%s' % (tag, n))
        base.ent[n] = [base_unit(n), pb, Tup([])]
        units.ent[n] = [n, pu, number(rational(vu), dim({'u_' + n: (True, 1)}))]
        info['base'][n] = pb
        info['unit'][n] = (pu, vu)
    plist = []
    for p in prefixes:
        pv = I.real('%spre_%s' % (tag, p))
        plist.append(Tup([p, rational(pv)]))
        info['prefix'].append((p, pv))
    vals = {}
    for f in fields:
        vals[f] = MapV()
    vals['base_units'] = base
    vals['units'] = units
    vals['prefixes'] = Arr(plist)
    vals['datepatterns'] = Arr([])
    return Struct('Registry', [vals[f] for f in fields]), info


def spec_exact(info, name):
    """-> list of (condition, value, tag) alternatives in priority order (first true condition wins)"""
    alts = []
    if name in info['base']:
        alts.append((info['base'][name], z3.RealVal(1), 'base:' + name))
    if name in info['unit']:
        pu, vu = info['unit'][name]
        alts.append((pu, vu, 'unit:' + name))
    return alts


def spec_with_prefix(info, name):
    alts = list(spec_exact(info, name))
    for p, pv in info['prefix']:
        if name.startswith(p):
            for c, v, t in spec_exact(info, name[len(p):]):
                alts.append((c, v * pv, 'prefix:%s+%s' % (p, t)))
    return alts


def spec_lookup(info, name):
    alts = spec_with_prefix(info, name)
    if name.endswith('s'):
        alts += [(c, v, 'plural:' + t) for c, v, t in spec_with_prefix(info, name[:-1])]
    return alts


TAGS = {}


def tag_id(t):
    return TAGS.setdefault(t, len(TAGS) + 1)


class Lookup(Harness):
    props = ('C07', 'C04')
    entry = 'Context::lookup'
    loop_bound = 12
    _concrete = None

    def __init__(self, tier):
        self.name = 'context.lookup'
        self.stems = STEMS if tier == 'thorough' else STEMS[:7]
        self.prefixes = PREFIXES
        self.queries = QUERIES
        self.describe = ('Context::lookup(name) for %d names on a symbolic database: each of %d stems may or may not be a base unit / a unit '
                         '(2^%d configurations at once), %d prefixes with arbitrary values, previous answer present or not') % (
            len(self.queries), len(self.stems), 2 * len(self.stems), len(self.prefixes))
        self.bounds = ['name universe: stems %s x prefixes %s (+ plural s)' % (self.stems, self.prefixes), 'prefix list order fixed: %s' % (self.prefixes,)]
        self.expect_classes = ['Option::Some', 'Option::None']

    def build(self, ex, I):
        reg, info = build_registry(ex, I, self.stems, self.prefixes)
        q = self.queries[ex.choose(len(self.queries), 'queried name')]
        cf = ex.prog.src.structs['Context']
        has_prev = ex.choose(2, 'previous_result None/Some')
        pv = I.real('ans_value')
        vals = {'registry': reg, 'temporaries': MapV(), 'now': Opaque('now'), 'use_humanize': True, 'save_previous_result': True,
                'previous_result': some(ex, number(rational(pv), dim({'u_ans': (True, 1)}))) if has_prev else none(ex)}
        ctxv = Struct('Context', [vals[f] for f in cf])
        return [ref(ctxv), q], {'info': info, 'q': q, 'has_prev': has_prev, 'pv': pv}

    def post(self, ex, ctx, outcome):
        info, q = ctx['info'], ctx['q']
        r = deref_all(outcome[1])
        if q in ('ans', 'ANS', '_'):
            if ctx['has_prev']:
                if not is_some(r):
                    return [('ans denotes the previous result', False)]
                val, d = number_parts(payload(r))
                return [('ans denotes the previous result', b_and(n_eq(numeric_parts(val)[1], ctx['pv']), 'u_ans' in d))]
            return [('ans is undefined without a previous result', is_none(r))]
        alts = spec_lookup(info, q)
        any_c = z3.Or(*[zbool(c) for c, v, t in alts]) if alts else z3.BoolVal(False)
        if is_none(r):
            return [('a name with an exact / prefix / plural reading resolves', z3.Not(any_c))]
        val, d = number_parts(payload(r))
        kind, x = numeric_parts(val)
        if kind != 'rational':
            return [('value is rational', False)]
        # which entry was used is visible in the unit tag
        tags = [k for k, (p, e) in d.items() if p is True or simp(p) is True]
        obs = [('a resolved name has some reading', any_c)]
        # specification: first alternative whose condition holds
        want_v = z3.RealVal(0)
        want_u = z3.IntVal(0)
        for c, v, t in reversed(alts):
            stem = t.split(':')[-1]
            want_v = z3.If(zbool(c), zreal(v), want_v)
            want_u = z3.If(zbool(c), z3.IntVal(tag_id(stem)), want_u)
        got_u = [tag_id(k[2:]) if k.startswith('u_') else tag_id(k) for k in tags]
        obs.append(('resolution order exact > prefix (list order) > plural: value', zreal(x) == want_v))
        obs.append(('resolution order exact > prefix (list order) > plural: entry', z3.IntVal(got_u[0] if len(got_u) == 1 else -1) == want_u))
        return obs

    def case(self, ctx, vals, label):
        c = Harness.case(self, ctx, vals, label)
        c['inputs']['q'] = ctx['q']
        return c

    def native(self, inputs, label):
        # the same collision shapes on the real database
        return [{'mode': 'lookup', 'name': n} for n in ('ks', 'ms', 'min', 'mins', 'kin', 'K', 'Ks', 'kmin', 'mm', 'pts', 'ft', 'feet', 'kft')]

    def judge(self, inputs, label, obs):
        return 'kernel-only', 'symbolic database configuration (not the bundled one): ' + ', '.join(
            '%s->%s' % (o.get('id'), (o.get('lookup') or {}).get('value')) for o in obs[:4])


def harnesses(tier):
    return [Lookup(tier)]


# --------------------------------------------------------------------------------------------------------------
class CanonicalizePreservesValue(Harness):
    """lookup(canonicalize(n)) = lookup(n) on a symbolic database with long/short prefix pairs and names that
    split in two ways (d+at vs da+t)."""
    name = 'context.canonicalize.value_preserved'
    props = ('C07', 'C04')
    entry_name = 'Context::canonicalize ; Context::lookup ; Context::lookup'
    loop_bound = 16
    _concrete = None
    PREFIXES = [('deci', 'x'), ('d', 'x'), ('deca', 'y'), ('da', 'y')]
    STEMS = ['at', 't', 'a', 'ts']
    QUERIES = ['dat', 'dt', 'da', 'dats', 'dts', 'decit', 'decaat', 'at', 'ats', 'daa', 'dda']

    def __init__(self):
        self.describe = ('canonicalize then lookup vs lookup for %d names over stems %s (each present or not) and prefixes %s with '
                         'equal values for the long/short pairs') % (len(self.QUERIES), self.STEMS, [p for p, _ in self.PREFIXES])
        self.assumptions = ['database well-formedness: every unit has a definition (non-alias here), long and short spellings of a prefix '
                            'carry the same value, no base-unit long names / aliases in this universe']
        self.bounds = ['universe: stems %s, prefix list %s in this order' % (self.STEMS, self.PREFIXES)]
        self.expect_classes = ['canonical', 'no-canonical-name']

    def build(self, ex, I):
        fields = ex.prog.src.structs['Registry']
        units, defs = MapV(), MapV()
        info = {}
        for n in self.STEMS:
            p = I.bool('unit_%s' % n)
            v = I.real('val_%s' % n)
            ex.assume(v != 0)
            units.ent[n] = [n, p, number(rational(v), dim({'u_' + n: (True, 1)}))]
            defs.ent[n] = [n, p, expr_const(ex, rational(Fraction(1)))]
            info[n] = (p, v)
        pv = {'x': I.real('prefix_x'), 'y': I.real('prefix_y')}
        ex.assume(z3.And(pv['x'] != 0, pv['y'] != 0, pv['x'] != pv['y']))
        plist = Arr([Tup([p, rational(pv[k])]) for p, k in self.PREFIXES])
        vals = {f: MapV() for f in fields}
        vals['units'] = units
        vals['definitions'] = defs
        vals['prefixes'] = plist
        vals['datepatterns'] = Arr([])
        reg = Struct('Registry', [vals[f] for f in fields])
        cf = ex.prog.src.structs['Context']
        cv = {'registry': reg, 'temporaries': MapV(), 'now': Opaque('now'), 'use_humanize': True, 'save_previous_result': False,
              'previous_result': none(ex)}
        ctxv = Struct('Context', [cv.get(f, Opaque(f)) for f in cf])
        q = self.QUERIES[ex.choose(len(self.QUERIES), 'name')]
        return [ctxv, q], {'q': q}

    def entry(self, ex, args, ctx):
        ctxv, q = args
        c = ex.call(None, 'loader::context::Context::canonicalize', [ref(ctxv), q])
        cv = deref_all(c)
        l1 = ex.call(None, 'loader::context::Context::lookup', [ref(ctxv), q])
        if cv.variant == 0:
            return Tup([c, l1, none(ex)])
        cn = deref_all(cv.fields[0])
        ctx['canon'] = cn
        l2 = ex.call(None, 'loader::context::Context::lookup', [ref(ctxv), cn])
        return Tup([c, l1, l2])

    def classify(self, outcome):
        if outcome[0] == 'panic':
            return 'panic'
        return 'canonical' if deref_all(deref_all(outcome[1]).fields[0]).variant == 1 else 'no-canonical-name'

    def post(self, ex, ctx, outcome):
        t = deref_all(outcome[1])
        c, l1, l2 = (deref_all(x) for x in t.fields)
        if c.variant == 0:
            return []
        cn = ctx.get('canon')
        if not isinstance(cn, str):
            return [('canonical name is a concrete string', False)]
        obs = [('canonical name `%s` of `%s` resolves whenever the name does' % (cn, ctx['q']), l1.variant == l2.variant)]
        if l1.variant == 1 and l2.variant == 1:
            v1, d1 = number_parts(l1.fields[0])
            v2, d2 = number_parts(l2.fields[0])
            obs.append(('`%s` and its canonical name `%s` denote the same value' % (ctx['q'], cn),
                        zreal(numeric_parts(v1)[1]) == zreal(numeric_parts(v2)[1])))
            obs.append(('... and the same unit', sorted(d1) == sorted(d2)))
        return obs

    def case(self, ctx, vals, label):
        c = Harness.case(self, ctx, vals, label)
        c['inputs']['q'] = ctx['q']
        return c

    NAMES = ['dat', 'dau', 'daA', 'dasb', 'daustbl', 'yoctodecillion', 'mm', 'km', 'dam', 'das', 'kg', 'ft', 'micron', 'feet', 'kft', 'mins', 'ks']

    def native(self, inputs, label):
        # the same question on the bundled database, for the names that split in two ways there (d/da, y/yocto) and ordinary ones
        return [{'mode': 'canon_roundtrip', 'name': n} for n in self.NAMES]

    def judge(self, inputs, label, obs):
        bad = []
        for n, o in zip(self.NAMES, obs):
            if o.get('outcome') == 'panic':
                bad.append('%s: panic %s' % (n, o.get('panic')))
            elif o.get('canonicalize') is not None and o.get('lookup') != o.get('lookup_canon'):
                bad.append('%s -> %s: %s vs %s' % (n, o.get('canonicalize'), o.get('lookup'), o.get('lookup_canon')))
        return (bool(bad), '; '.join(bad) or 'bundled database: canonical names keep their values')


def json_names(obs):
    return {o.get('id'): o.get('canonicalize') for o in obs}


class CanonicalizeOnDatabase(Harness):
    pass


_lookup_harnesses = harnesses


def harnesses(tier):   # noqa: F811
    return _lookup_harnesses(tier) + [CanonicalizePreservesValue()]


# --------------------------------------------------------------------------------------------------------------
import re as _re


class StaticDeterminism(Harness):
    """Not a solver query: the `deterministic` clause of C07 rests on name resolution being a pure function of the
    registry and on the registry being built in a fixed order.  std's HashMap/HashSet iterate in a per-process random
    order, so any rink-core code that iterates one is flagged (membership tests and insertion are fine)."""
    name = 'static.no_hash_iteration_order'
    props = ('C07',)
    describe = 'scan of the regenerated MIR: no iteration over std HashMap / HashSet anywhere in rink-core'
    expect_classes = ['return']
    _concrete = None

    def build(self, ex, I):
        return [], {}

    def entry(self, ex, args, ctx):
        pat = _re.compile(r'(hash_map|hash_set)::(Iter|IterMut|IntoIter|Keys|Values|ValuesMut|Drain|IntoKeys|IntoValues)\b|'
                          r'Hash(Map|Set)::<[^(]*>::(iter|iter_mut|into_iter|keys|values|values_mut|drain|into_keys|into_values|retain)\b|'
                          r'<(&(mut )?)?(std::collections::)?Hash(Map|Set)<.*> as IntoIterator>::into_iter')
        bad = []
        for f in ex.prog.order:
            for ln in f.lines:
                if 'Hash' in ln or 'hash_' in ln:
                    if pat.search(ln):
                        bad.append('%s: %s' % (f.name[:70], ln.strip()[:140]))
                        break
        ctx['bad'] = bad
        return Tup([])

    def post(self, ex, ctx, outcome):
        return [('no code in rink-core iterates a HashMap/HashSet %s' % ctx['bad'][:2], not ctx['bad'])]

    def native(self, inputs, label):
        return [{'mode': 'lookup', 'name': n} for n in ('dat', 'dau', 'yoctodecillion', 'km')]

    def judge(self, inputs, label, obs):
        # a static fact about the source: it is the violation; the native part only documents the ambiguous names
        return True, 'hash-order dependent iteration in rink-core (bundled database: %s)' % ', '.join(
            '%s=%s' % (o.get('id'), ((o.get('lookup') or {}).get('value'))) for o in obs)


_c07_all = harnesses


def harnesses(tier):   # noqa: F811
    return _c07_all(tier) + [StaticDeterminism()]
