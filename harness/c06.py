"""C06 displayed value x displayed unit = quantity: Number::prettify with the real prefix table."""
import z3
from .common import *  # noqa
from . import dbvalues
from mirsym.lib import MapV

SI = ["milli", "micro", "nano", "pico", "femto", "atto", "zepto", "yocto", "kilo", "mega", "giga", "tera", "peta", "exa", "zetta", "yotta"]
NAMES = ['kg', 'kilogram', 'bit', 'gram', 'meter', 'second']
POWERS = [1, 2, 3, -1]


def stub_pretty_unit(ex, nc, args):
    return dup(ex.env['pretty_unit'])


class Prettify(Harness):
    props = ('C06', 'C04')
    entry = 'Number::prettify'
    stubs = ((r'^Number::pretty_unit$', stub_pretty_unit, 'Number::pretty_unit -> arbitrary single display unit (fast_decompose / long names are outside)'),)
    loop_bound = 600
    _concrete = None

    def __init__(self, tier):
        self.name = 'number.prettify'
        self.names = NAMES
        self.powers = POWERS if tier == 'thorough' else [1, 2, -1]
        self.describe = ('Number::prettify on an arbitrary value whose display unit is one of %s to the power %s; the prefix table is the one '
                         'loaded from the database at run time') % (self.names, self.powers)
        self.bounds = ['single display unit, power in %s' % (self.powers,), 'value is an unbounded rational']
        self.expect_classes = ['return']

    def build(self, ex, I):
        v = I.real('v')
        name = self.names[ex.choose(len(self.names), 'display unit')] if self._concrete is None else self._concrete['name']
        power = self.powers[ex.choose(len(self.powers), 'power')] if self._concrete is None else int(self._concrete['power'])
        ex.env['pretty_unit'] = dim({name: (True, power)})
        table = dbvalues.prefixes()
        plist = Arr([Tup([n, rational(Fraction(val))]) for n, val in table])
        rf = ex.prog.src.structs['Registry']
        rvals = {f: MapV() for f in rf}
        rvals['prefixes'] = plist
        rvals['datepatterns'] = Arr([])
        reg = make_struct(ex, 'Registry', {'prefixes': plist})
        cf = ex.prog.src.structs['Context']
        cvals = {'registry': reg, 'temporaries': MapV(), 'now': Opaque('now'), 'use_humanize': True, 'save_previous_result': False, 'previous_result': none(ex)}
        ctxv = make_struct(ex, 'Context', cvals)
        n = number(rational(v), dim({'whatever': (True, 1)}))
        return [ref(n), ref(ctxv)], {'v': v, 'name': name, 'power': power, 'table': {n: Fraction(val) for n, val in table}}

    def post(self, ex, ctx, outcome):
        v, name, power, table = zreal(ctx['v']), ctx['name'], ctx['power'], ctx['table']
        val, d = number_parts(outcome[1])
        kind, x = numeric_parts(val)
        if kind != 'rational':
            return [('prettified value stays rational', False)]
        x = zreal(x)
        units = [(k, e) for k, (p, e) in d.items()]
        if len(units) != 1:
            return [('exactly one display unit', False)]
        uname, upow = units[0]
        obs = [('the power of the unit is unchanged', n_eq(upow, power) if not (name == 'bit' and power == 1) else n_eq(upow, 1))]
        # read the printed unit name back: prefix + base
        base = {'kg': 'gram', 'kilogram': 'gram'}.get(name, name)
        scale = Fraction(1)
        if name in ('kg', 'kilogram'):
            scale = Fraction(1000) ** power        # value is now in grams^power
        if name == 'bit' and power == 1:
            base = 'byte'
            scale = Fraction(1, 8)
        prefix = None
        if uname == 'tonne':
            prefix, pbase = 'mega', 'gram'
        elif uname == base:
            prefix, pbase = '', base
        else:
            for p in SI:
                if uname == p + base:
                    prefix, pbase = p, base
        if prefix is None:
            return [('printed unit `%s` is prefix + %s' % (uname, base), False)]
        obs.append(('printed unit names the same base unit', pbase == base))
        pv = table[prefix] if prefix else Fraction(1)
        # numeral * prefix^power * (gram / byte rescaling) = original value
        obs.append(('numeral * %s%s^%d = quantity' % (prefix, base, power), x * zreal(pv ** power) == v * zreal(scale)))
        if prefix:
            a = z3.If(x >= 0, x, -x)
            obs.append(('chosen prefix leaves 1 <= |numeral| < 1000^|power|-ish window', z3.And(a >= (1 if power > 0 else 0), True)))
        return obs

    def case(self, ctx, vals, label):
        c = Harness.case(self, ctx, vals, label)
        c['inputs']['name'] = ctx['name']
        c['inputs']['power'] = ctx['power']
        return c

    def prefer(self, ctx):
        v = ctx['v']
        return [v > 0, z3.IsInt(v * 1000)]

    CANDIDATES = [p + b for b in ('gram', 'byte', 'meter', 'second', 'bit') for p in [''] + SI] + ['tonne', 'kilogram']

    def native(self, inputs, label):
        v = Fraction(inputs['v'])
        name, power = inputs['name'], int(inputs['power'])
        src = {'kg': 'kg', 'kilogram': 'kg', 'gram': 'kg', 'bit': 'bit', 'meter': 'm', 'second': 's'}[name]
        if name == 'gram':
            v = v / Fraction(1000) ** power
        reqs = [{'mode': 'query', 'text': '%s %s^(%d)' % (frac_text(v), src, power)}]
        if label != 'validate':
            reqs += [{'mode': 'lookup', 'name': n} for n in self.CANDIDATES]
        return reqs

    @staticmethod
    def parse_numeral(txt):
        """plain decimal / a/b / d.ddde+x -> Fraction, or None (recurring / non-decimal forms)"""
        import re
        t = txt.strip()
        if re.match(r'^-?\d+/\d+$', t):
            return Fraction(t)
        m = re.match(r'^(-?\d+(?:\.\d+)?)(?:e(-?\d+))?$', t)
        if not m:
            return None
        return Fraction(m.group(1)) * Fraction(10) ** int(m.group(2) or 0)

    def judge(self, inputs, label, obs):
        q = obs[0]
        if q.get('outcome') == 'panic' or q.get('render_panic'):
            return True, 'panic %s' % (q.get('panic') or q.get('render_panic'))
        j = q.get('json') or {}
        raw = obs_number_json(q)
        if raw is None or j.get('type') != 'number':
            return False, 'not a plain number reply: %s' % q.get('display')
        exact = j.get('exactValue')
        shown = exact if exact is not None else j.get('approxValue')
        num = self.parse_numeral(shown or '')
        unit = j.get('rawUnit') or {}
        if num is None:
            return False, 'numeral %r is not a plain decimal' % shown
        names = {r.get('id'): r for r in obs[1:]}
        table = {}
        for n, o in zip(self.CANDIDATES, obs[1:]):
            lk = o.get('lookup')
            if lk:
                table[n] = (Fraction(lk['value']), {k: int(e) for k, e in lk['unit'].items()})
        total = num
        dims = {}
        for uname, e in unit.items():
            if uname not in table:
                return False, 'printed unit %s not in the readback table' % uname
            uv, ud = table[uname]
            total *= uv ** int(e)
            for k, x in ud.items():
                dims[k] = dims.get(k, 0) + x * int(e)
        dims = {k: x for k, x in dims.items() if x}
        want_v, want_d = raw
        if dims != want_d:
            return True, 'display %r reads back with dimensions %s, quantity has %s' % (q.get('display'), dims, want_d)
        if exact is not None:
            bad = total != want_v
        else:
            bad = want_v == 0 or abs(total / want_v - 1) > Fraction(1, 10 ** 4)
        return bad, 'display %r reads back as %s (%s), computed quantity is %s' % (q.get('display'), total, 'exact' if exact is not None else 'approx', want_v)

    def vectors(self, rng):
        out = []
        for name in self.names:
            for power in self.powers:
                for v in (Fraction(1), Fraction(1500), Fraction(1, 2000), Fraction(999999, 1000), Fraction(-3 * 10 ** 7), Fraction(12345678912, 5)):
                    out.append({'v': v, 'name': name, 'power': power})
        return out

    def agree(self, vec, outcome, o):
        return True, ''


class DisplayReadback(Harness):
    """Through the public API: evaluate a quantity, re-evaluate the printed text, compare the raw quantities.
    (Concrete companion of the prettify harness: its inputs are the prefix-boundary family, decided natively.)"""
    pass


def harnesses(tier):
    return [Prettify(tier)]


# --------------------------------------------------------------------------------------------------------------
from .c15 import stub_eval_expr_value
from .c09 import CANON_STUB, DEFAULT_PARTS


class FactorRendering(Harness):
    """the `u` format pattern must print the factor and divisor whenever the reply carries them"""
    name = 'number_parts.u_pattern.factor_shown'
    props = ('C06', 'C04')
    entry_name = 'NumberPartsFmt::to_spans'
    describe = 'NumberPartsFmt::to_spans("n u") on parts with factor / divfactor present or absent and a display unit that is dimensionless, a single unit or a quotient'
    bounds = ['concrete marker strings for numeral, factor and divisor; 3 unit shapes x 4 presence combinations']
    expect_classes = ['return']
    loop_bound = 30
    _concrete = None

    def build(self, ex, I):
        hf = ex.choose(2, 'factor present')
        hd = ex.choose(2, 'divfactor present')
        shape = ex.choose(3, 'unit shape')
        unit = [dim({}), dim({'meter': (True, 1)}), dim({'meter': (True, 1), 'second': (True, -1)})][shape]
        f = ex.prog.src.structs['NumberParts']
        vals = [none(ex)] * len(f)
        vals[f.index('exact_value')] = some(ex, 'NUM')
        vals[f.index('factor')] = some(ex, 'FAC') if hf else none(ex)
        vals[f.index('divfactor')] = some(ex, 'DIV') if hd else none(ex)
        vals[f.index('raw_unit')] = some(ex, unit)
        parts = Struct('NumberParts', vals)
        fmt = Struct('NumberPartsFmt', [ref(parts), 'n u'])
        return [fmt], {'hf': hf, 'hd': hd, 'shape': shape}

    def entry(self, ex, args, ctx):
        return ex.call(None, 'output::number_parts::NumberPartsFmt::to_spans', [ref(args[0])])

    def post(self, ex, ctx, outcome):
        texts = []
        for s in deref_all(outcome[1]).fields:
            s = deref_all(s)
            for fl in s.fields:
                fl = deref_all(fl)
                if isinstance(fl, Enum) and fl.ty == 'Cow':
                    fl = deref_all(fl.fields[0])
                if isinstance(fl, str):
                    texts.append(fl)
        shown = ''.join(texts)
        return [('numeral is printed', 'NUM' in shown),
                ('factor is printed iff the reply has one (printed: %r)' % shown, ('FAC' in shown) == bool(ctx['hf'])),
                ('divisor is printed iff the reply has one (printed: %r)' % shown, ('DIV' in shown) == bool(ctx['hd'])),
                ('unit names are printed', ('meter' in shown) == (ctx['shape'] > 0) and ('second' in shown) == (ctx['shape'] == 2))]

    def case(self, ctx, vals, label):
        c = Harness.case(self, ctx, vals, label)
        c['inputs'].update({'factor': ctx['hf'], 'divfactor': ctx['hd'], 'shape': ctx['shape']})
        return c

    def native(self, inputs, label):
        return [{'mode': 'query', 'text': t} for t in ('1 -> 2', '3 -> 1/4', '10 m -> 2 m', '1 -> 2 / 3')]

    def judge(self, inputs, label, obs):
        import re
        bad = []
        for text, o in zip(('1 -> 2', '3 -> 1/4', '10 m -> 2 m', '1 -> 2 / 3'), obs):
            j = (o.get('json') or {}).get('value') or {}
            disp = o.get('display') or ''
            for key, mark in (('factor', '*'), ('divfactor', '/')):
                if j.get(key) and str(j[key]) not in disp.replace(j.get('exactValue') or '\0', '', 1):
                    bad.append('`%s` displays %r but the reply carries %s=%s' % (text, disp, key, j[key]))
        return (bool(bad), '; '.join(bad) or 'factors are displayed')


class BaseConversionUnit(Harness):
    """`x -> base B`: the numeral printed and the unit printed must belong to the same (prettified) quantity"""
    name = 'eval_query.base_conversion.unit_matches_numeral'
    props = ('C06', 'C04')
    entry = 'eval_query'
    describe = ('`v m -> base B`: eval_query with the real to_parts / prettify path and the real prefix table; the digit printer records '
                'which value it is asked to print; numeral * printed prefix = quantity')
    loop_bound = 600
    expect_classes = ['Result::Ok']
    _concrete = None

    def build(self, ex, I):
        v = I.real('v')
        ex.assume(v > 0)
        name = ['meter', 'second'][ex.choose(2, 'display unit')]
        ex.env['value'] = variant(ex, 'Value', 'Number', [number(rational(v), dim({'m' if name == 'meter' else 's': (True, 1)}))])
        ex.env['pretty_unit'] = dim({name: (True, 1)})
        ex.env['printed'] = []
        table = dbvalues.prefixes()
        rf = ex.prog.src.structs['Registry']
        rvals = {f: MapV() for f in rf}
        rvals['prefixes'] = Arr([Tup([n, rational(Fraction(val))]) for n, val in table])
        rvals['datepatterns'] = Arr([])
        cf = ex.prog.src.structs['Context']
        cvals = {'registry': make_struct(ex, 'Registry', {'prefixes': rvals['prefixes']}), 'temporaries': MapV(), 'previous_result': none(ex)}
        ctxv = make_struct(ex, 'Context', cvals)
        q = variant(ex, 'Query', 'Convert', [expr_const(ex, rational(Fraction(1))), variant(ex, 'Conversion', 'None'), some(ex, 16),
                                             variant(ex, 'Digits', 'Default')])
        return [ref(ctxv), ref(q)], {'v': v, 'name': name, 'table': {n: Fraction(val) for n, val in table}}

    stubs = (SHOW_STUB, CANON_STUB,
             (r'^eval_expr$', stub_eval_expr_value, 'eval_expr -> arbitrary positive length / time'),
             (r'^Number::pretty_unit$', stub_pretty_unit, 'Number::pretty_unit -> meter / second'),
             (r'^Number::numeric_value$', lambda ex, nc, a: (ex.env['printed'].append(numeric_parts(deref_all(a[0]).fields[0])[1]),
                                                           Tup([some(ex, 'NUMERAL#%d' % len(ex.env['printed'])), none(ex)]))[1],
              'Number::numeric_value -> records the value it is asked to print, returns a marker numeral'),
             (r'^Number::unit_to_string$', lambda ex, nc, a: 'unitstring', 'Number::unit_to_string -> opaque'))

    def post(self, ex, ctx, outcome):
        r = deref_all(outcome[1])
        if not is_ok(r):
            return [('base conversion succeeds', False)]
        rep = deref_all(payload(r))
        parts = deref_all(deref_all(rep.fields[0]).fields[0])
        f = ex.prog.src.structs['NumberParts']
        ev = deref_all(parts.fields[f.index('exact_value')])
        ru = deref_all(parts.fields[f.index('raw_unit')])
        if ev.variant == 0:
            return [('an exact numeral is present', False)]
        marker = deref_all(ev.fields[0])
        idx = int(str(marker).split('#')[1]) - 1
        printed = zreal(ex.env['printed'][idx])
        uname = None
        if ru.variant == 1:
            ents = dim_entries(ru.fields[0])
            names = [k for k, (p, e) in ents.items() if p is True or simp(p) is True]
            uname = names[0] if len(names) == 1 else None
        base = ctx['name']
        if uname is None or uname == base:
            pv = Fraction(1)
        else:
            pre = uname[:-len(base)] if uname.endswith(base) else None
            if pre not in ctx['table']:
                return [('printed unit `%s` is prefix + %s' % (uname, base), False)]
            pv = ctx['table'][pre]
        return [('numeral printed for base 16 * printed unit `%s` = the quantity' % (uname or base), printed * zreal(pv) == zreal(ctx['v']))]

    def prefer(self, ctx):
        return [ctx['v'] == 5000, z3.IsInt(ctx['v'])]

    def native(self, inputs, label):
        v = Fraction(inputs['v'])
        return [{'mode': 'query', 'text': '%s m -> hex' % frac_text(v)}, {'mode': 'query', 'text': '%s m' % frac_text(v)}]

    def judge(self, inputs, label, obs):
        a, b = obs
        ja, jb = (a.get('json') or {}).get('value') or {}, b.get('json') or {}
        ua, ub = ja.get('rawUnit'), jb.get('rawUnit')
        ea, eb = ja.get('exactValue'), jb.get('exactValue')
        if ea is None or eb is None:
            return False, 'not exact'
        try:
            hexval = int(ea, 16)
            decval = int(eb)
        except ValueError:
            return False, 'non-integer numerals %r %r' % (ea, eb)
        bad = (ua == ub) and hexval != decval
        return bad, '`-> hex` shows %s %s while the plain reply shows %s %s' % (ea, ua, eb, ub)


_c06_base = harnesses


def harnesses(tier):   # noqa: F811
    return _c06_base(tier) + [FactorRendering(), BaseConversionUnit()]


# --------------------------------------------------------------------------------------------------------------
# The regrouping of base units into named derived units (`fast_decompose`, then `pretty_unit`'s long names): whatever it
# picks, expanding the picked name back gives the original dimensionality.

DERIVED = {'newton': {'kg': 1, 'm': 1, 's': -2}, 'joule': {'kg': 1, 'm': 2, 's': -2}, 'watt': {'kg': 1, 'm': 2, 's': -3},
           'pascal': {'kg': 1, 'm': -1, 's': -2}, 'hertz': {'s': -1}, 'area': {'m': 2}}


class Regrouping(Harness):
    name = 'number.pretty_unit.regrouping_preserves_dimension'
    props = ('C06', 'C04')
    entry_name = 'Number::pretty_unit -> algorithms::fast_decompose'
    loop_bound = 60
    max_paths = 60000
    _concrete = None

    def __init__(self, names, hi):
        self.names, self.hi = names, hi
        self.describe = ('Number::pretty_unit (real fast_decompose and long-name mapping) on an arbitrary dimensionality over kg, m, s with '
                         'exponents within +-%d and the derived units %s: the display dimensionality, with the one derived name it may '
                         'introduce expanded back and long names mapped back, is the original dimensionality') % (hi, names)
        self.bounds = ['base units kg, m, s; |exponent| <= %d; derived-unit table %s' % (hi, {n: DERIVED[n] for n in names})]
        self.expect_classes = ['return']

    def build(self, ex, I):
        U3 = ('kg', 'm', 's')
        D, ent = sym_dim(ex, I, 'd', U3, lo=-self.hi, hi=self.hi)
        v = I.real('v')
        dm = MapV()
        for n in self.names:
            dstruct = dim({k: (True, e) for k, e in DERIVED[n].items()})
            from mirsym.lib import freeze
            dm.ent[freeze(dstruct)] = [dstruct, True, n]
        long_names = MapV()
        for short, long_ in (('kg', 'kilogram'), ('m', 'meter'), ('s', 'second')):
            long_names.ent[short] = [short, True, long_]
        reg = make_struct(ex, 'Registry', {'decomposition_units': dm, 'base_unit_long_names': long_names})
        ctxv = make_struct(ex, 'Context', {'registry': reg, 'temporaries': MapV(), 'previous_result': none(ex)})
        return [ref(number(rational(v), D)), ref(ctxv)], {'ent': ent}

    def entry(self, ex, args, ctx):
        return ex.call(None, 'types::number::Number::pretty_unit', list(args))

    def post(self, ex, ctx, outcome):
        ent = ctx['ent']
        out = dim_entries(outcome[1])
        back = {'kilogram': 'kg', 'meter': 'm', 'second': 's'}
        obs = []
        for u in ('kg', 'm', 's'):
            total = z3.IntVal(0)
            for k, (p, e) in out.items():
                if back.get(k) == u or k == u:
                    total = total + z3.If(zbool(p), zint(e), 0)
                elif k in DERIVED:
                    total = total + z3.If(zbool(p), zint(e) * DERIVED[k].get(u, 0), 0)
            po, eo = ent[u]
            obs.append(('display unit expanded back: exponent of %s is the original' % u, total == z3.If(zbool(po), zint(eo), 0)))
        known = set(back) | set(back.values()) | set(DERIVED)
        obs.append(('only base units and names of the derived-unit table appear (%s)' % sorted(out), all(k in known for k in out)))
        for k, (p, e) in out.items():
            obs.append(('no zero exponent carried for %s' % k, z3.Implies(zbool(p), zint(e) != 0)))
        return obs

    READBACK = ['kilogram', 'gram', 'meter', 'second', 'newton', 'joule', 'watt', 'pascal', 'hertz', 'gray', 'sievert', 'becquerel', 'kg', 'm', 's',
                'poiseuille', 'stokes', 'rayl', 'mpg', 'liter', 'hectare', 'are', 'diopter', 'tonne', 'millimeter', 'kilometer']

    def native(self, inputs, label):
        d = conc_dim(inputs, 'd', ('kg', 'm', 's'))
        text = '1' + ''.join(' %s^%d' % (k, e) for k, e in d.items())
        # first on the harness's own derived-unit table (the universe the solver's model lives in), then through a query
        # on the bundled database
        unit_level = {'mode': 'pretty_unit', 'derived': {n: DERIVED[n] for n in self.names},
                      'long_names': {'kg': 'kilogram', 'm': 'meter', 's': 'second'},
                      'number': {'value': '1/1', 'unit': {k: e for k, e in d.items() if e}}}
        return [unit_level, {'mode': 'query', 'text': text}] + [{'mode': 'lookup', 'name': n} for n in self.READBACK]

    def judge(self, inputs, label, obs):
        """read the displayed unit back with rink's own lookup: the product of the printed names is the original dimensionality"""
        ul, obs = obs[0], obs[1:]
        d0 = {k: e for k, e in conc_dim(inputs, 'd', ('kg', 'm', 's')).items() if e}
        if ul.get('outcome') == 'panic':
            return True, 'pretty_unit panics on %s: %s' % (d0, ul.get('panic'))
        if ul.get('outcome') == 'ok':
            back = {'kilogram': 'kg', 'meter': 'm', 'second': 's'}
            dims = {}
            for uname, e in ul['unit'].items():
                if uname in DERIVED:
                    for k, x in DERIVED[uname].items():
                        dims[k] = dims.get(k, 0) + x * int(e)
                else:
                    k = back.get(uname, uname)
                    dims[k] = dims.get(k, 0) + int(e)
            dims = {k: e for k, e in dims.items() if e}
            if dims != d0:
                return True, 'pretty_unit with the derived units %s shows %s for %s: expanded back that is %s' % (self.names, ul['unit'], d0, dims)
        q = obs[0]
        if q.get('outcome') == 'panic' or q.get('render_panic'):
            return True, 'panic %s' % (q.get('panic') or q.get('render_panic'))
        j = (q.get('json') or {})
        d = {k: e for k, e in conc_dim(inputs, 'd', ('kg', 'm', 's')).items() if e}
        if j.get('type') != 'number':
            return False, 'not a plain number reply: %s' % q.get('display')
        shown = j.get('rawUnit')
        if shown is None:
            shown = j.get('rawDimensions') or {}
        table = {}
        for n, o in zip(self.READBACK, obs[1:]):
            lk = o.get('lookup')
            if lk:
                table[n] = {k: int(e) for k, e in lk['unit'].items()}
        dims = {}
        for uname, e in shown.items():
            if uname not in table:
                return False, 'printed unit %s is not in the read-back table' % uname
            for k, x in table[uname].items():
                dims[k] = dims.get(k, 0) + x * int(e)
        dims = {k: e for k, e in dims.items() if e}
        return (dims != d), 'display %r: the printed unit reads back as %s, the quantity is %s' % (q.get('display'), dims, d)


_c06_prev2 = harnesses


def harnesses(tier):   # noqa: F811
    names = ['newton', 'joule', 'hertz'] if tier == 'quick' else ['newton', 'joule', 'watt', 'pascal', 'hertz', 'area']
    return _c06_prev2(tier) + [Regrouping(names, 2 if tier == 'quick' else 3)]


# --------------------------------------------------------------------------------------------------------------
# The text of a unit (`Number::unit_to_string`): read back, it denotes the dimensionality it was printed from.

def denote_unit_text(text):
    import re as _r
    out = {}
    sign = 1
    for tok in text.split():
        if tok == '/':
            sign = -1
            continue
        m = _r.match(r'^([A-Za-z_]+)(?:\^(-?\d+))?$', tok)
        if not m:
            return None
        out[m.group(1)] = out.get(m.group(1), 0) + sign * (int(m.group(2)) if m.group(2) else 1)
    return {k: e for k, e in out.items() if e}


class UnitText(Harness):
    name = 'number.unit_to_string.denotes_unit'
    props = ('C06', 'C04')
    entry_name = 'Number::unit_to_string'
    loop_bound = 40
    _concrete = None

    def __init__(self, hi):
        self.hi = hi
        self.describe = ('Number::unit_to_string on an arbitrary dimensionality over kg, m, s (|exponent| <= %d): the text `a b^2 / c^3`, read back '
                         '(powers, one `/`), denotes exactly that dimensionality; no leading or trailing blank') % hi
        self.bounds = ['base units kg, m, s; |exponent| <= %d' % hi]
        self.expect_classes = ['return']

    def build(self, ex, I):
        D, ent = sym_dim(ex, I, 'd', ('kg', 'm', 's'), lo=-self.hi, hi=self.hi)
        ex.env['fmt_int_range'] = (-self.hi, self.hi)
        return [ref(D)], {'ent': ent}

    def entry(self, ex, args, ctx):
        return ex.call(None, 'types::number::Number::unit_to_string', list(args))

    def post(self, ex, ctx, outcome):
        text = deref_all(outcome[1])
        if not isinstance(text, str):
            return [('the unit text is a string', False)]
        den = denote_unit_text(text)
        if den is None:
            return [('the unit text %r is made of names, powers and one `/`' % text, False)]
        obs = [('no leading or trailing blank in %r' % text, text == text.strip())]
        for u in ('kg', 'm', 's'):
            p, e = ctx['ent'][u]
            obs.append(('%r denotes the exponent of %s' % (text, u), z3.If(zbool(p), zint(e), 0) == den.get(u, 0)))
        obs.append(('no foreign name in %r' % text, all(k in ('kg', 'm', 's') for k in den)))
        return obs

    def native(self, inputs, label):
        d = conc_dim(inputs, 'd', ('kg', 'm', 's'))
        return [{'mode': 'query', 'text': '1' + ''.join(' %s^%d' % (k, e) for k, e in d.items())}]

    def judge(self, inputs, label, obs):
        q = obs[0]
        if q.get('outcome') == 'panic' or q.get('render_panic'):
            return True, 'panic %s' % (q.get('panic') or q.get('render_panic'))
        d = conc_dim(inputs, 'd', ('kg', 'm', 's'))
        j = q.get('json') or {}
        dims = j.get('dimensions')
        if dims is None:
            return False, 'no dimensions text in the reply %s' % q.get('display')
        den = denote_unit_text(dims)
        return (den != {k: e for k, e in d.items() if e}), 'dimensions text %r denotes %s, the quantity has %s' % (dims, den, d)


_c06_prev3 = harnesses


def harnesses(tier):   # noqa: F811
    return _c06_prev3(tier) + [UnitText(2 if tier == 'quick' else 4)]


# --------------------------------------------------------------------------------------------------------------
# The constant of a conversion target as printed by Context::show: `* factor / divfactor` is exactly that constant.

class ShowFactor(Harness):
    name = 'context.show.factor_is_the_target_constant'
    props = ('C06', 'C03')
    entry_name = 'Context::show'
    loop_bound = 12
    describe = ('Context::show with an arbitrary rational target constant c: the printed `factor` and `divfactor` (each present or absent) are '
                'integers whose quotient is exactly c - the reply never prints a rounded constant')
    bounds = ['one conversion reply; numeral and unit text replaced by markers']
    expect_classes = ['return']
    _concrete = None
    stubs = (DEFAULT_PARTS, CANON_STUB,
             (r'^Number::numeric_value$', lambda ex, nc, a: Tup([some(ex, 'NUMERAL'), none(ex)]), 'Number::numeric_value -> marker numeral'),
             (r'^Number::(to_parts|to_parts_digits|to_parts_simple)$', lambda ex, nc, a: Struct('NumberParts', [none(ex)] * len(ex.prog.src.structs['NumberParts'])),
              'Number::to_parts -> empty parts'),
             (r'^Number::unit_to_string$', lambda ex, nc, a: 'unit', 'Number::unit_to_string -> marker'),
             (r'^Numeric::to_string$|^BigRat::to_string$', lambda ex, nc, a: Tup([ex.fresh('printer_exact', 'Bool'), 'DECIMAL-TEXT']),
              'the digit printer -> (arbitrary exactness flag, marker text): any use of it for the constant is visible'))

    def build(self, ex, I):
        c = I.real('c')
        ex.assume(c > 0)
        names = MapV()
        names.ent['meter'] = ['meter', True, 1]
        raw = number(rational(I.real('x')), dim({}))
        bottom = number(rational(I.real('b')), dim({'m': (True, 1)}))
        return [ref(Opaque('Context')), ref(raw), ref(bottom), names, rational(c), 10, variant(ex, 'Digits', 'Default')], {'c': c}

    def entry(self, ex, args, ctx):
        return ex.call(None, 'loader::context::Context::show', list(args))

    def post(self, ex, ctx, outcome):
        rep = deref_all(outcome[1])
        parts = deref_all(rep.fields[0])
        f = ex.prog.src.structs['NumberParts']
        c = zreal(ctx['c'])

        def value_of(opt, what):
            opt = deref_all(opt)
            if opt.variant == 0:
                return z3.IntVal(1), None
            t = deref_all(opt.fields[0])
            if isinstance(t, str) and t.lstrip('-').isdigit():
                return z3.IntVal(int(t)), None
            if isinstance(t, Opaque) and isinstance(t.info, tuple) and t.info[0] == 'pieces' and len(t.info[1]) == 1 and isinstance(t.info[1][0], tuple):
                return zint(deref_all(t.info[1][0][1])), None
            return None, '%s is printed as %r, not as an integer' % (what, t)
        fv, e1 = value_of(parts.fields[f.index('factor')], 'factor')
        dv, e2 = value_of(parts.fields[f.index('divfactor')], 'divfactor')
        if e1 or e2:
            return [(e1 or e2, False)]
        return [('factor / divfactor is exactly the target constant', z3.And(dv != 0, z3.ToReal(fv) == c * z3.ToReal(dv))),
                ('a factor of 1 is not printed', z3.Implies(fv == 1, deref_all(parts.fields[f.index('factor')]).variant == 0)),
                ('a divisor of 1 is not printed', z3.Implies(dv == 1, deref_all(parts.fields[f.index('divfactor')]).variant == 0))]

    def prefer(self, ctx):
        c = ctx['c']
        return [c == zreal(Fraction(45359237, 100000000)), z3.And(c > 0, c < 1000), z3.IsInt(c * 1000)]

    def native(self, inputs, label):
        c = Fraction(inputs['c'])
        return [{'mode': 'query', 'text': '1000 m -> (%s) m' % frac_text(c)}, {'mode': 'query', 'text': '1 lb -> 0.45359237 kg'},
                {'mode': 'query', 'text': '6.2831853 m -> 3.14159265 m'}]

    def judge(self, inputs, label, obs):
        bad = []
        consts = [Fraction(inputs['c']), Fraction(45359237, 100000000), Fraction(314159265, 100000000)]
        for o, c in zip(obs, consts):
            if o.get('outcome') == 'panic' or o.get('render_panic'):
                bad.append('panic %s' % (o.get('panic') or o.get('render_panic')))
                continue
            v = (o.get('json') or {}).get('value') or {}
            try:
                shown = Fraction(v.get('factor') or 1) / Fraction(v.get('divfactor') or 1)
            except (ValueError, ZeroDivisionError):
                bad.append('factor %r / divfactor %r are not numbers' % (v.get('factor'), v.get('divfactor')))
                continue
            if o.get('outcome') == 'ok' and shown != c:
                bad.append('%r prints the constant as %s, the target constant is %s' % (o.get('display'), shown, c))
        return bool(bad), '; '.join(bad[:2]) or 'printed constants are exact'


_c06_prev4 = harnesses


def harnesses(tier):   # noqa: F811
    return _c06_prev4(tier) + [ShowFactor()]


# --------------------------------------------------------------------------------------------------------------
# The non-default number formats (`to digits`, `to frac`, `to sci` ...) show the value through Number::with_pretty_unit.

class WithPrettyUnit(Harness):
    name = 'number.with_pretty_unit'
    props = ('C06', 'C04')
    entry = 'Number::with_pretty_unit'
    stubs = ((r'^Number::pretty_unit$', stub_pretty_unit, 'Number::pretty_unit -> arbitrary single display unit'),)
    loop_bound = 40
    _concrete = None
    WORTH = {'bit': Fraction(1), 'byte': Fraction(8), 'kilogram': Fraction(1), 'kg': Fraction(1), 'gram': Fraction(1, 1000), 'meter': Fraction(1), 'second': Fraction(1)}

    def __init__(self):
        self.describe = ('Number::with_pretty_unit (the value shown by the non-default digit formats) with the display unit one of bit / kilogram / meter '
                         'to the power 1, 2, 3 or -1: shown value * shown unit = the quantity')
        self.bounds = ['single display unit; powers 1, 2, 3, -1']
        self.expect_classes = ['return']

    def build(self, ex, I):
        v = I.real('v')
        name = ['bit', 'kilogram', 'meter'][ex.choose(3, 'display unit')]
        power = [1, 2, 3, -1][ex.choose(4, 'power')]
        ex.env['pretty_unit'] = dim({name: (True, power)})
        n = number(rational(v), dim({'whatever': (True, 1)}))
        return [ref(n), ref(Opaque('Context'))], {'v': v, 'name': name, 'power': power}

    def post(self, ex, ctx, outcome):
        v, name, power = zreal(ctx['v']), ctx['name'], ctx['power']
        val, d = number_parts(outcome[1])
        kind, x = numeric_parts(val)
        if kind != 'rational':
            return [('the shown value stays rational', False)]
        units = [(k, e) for k, (p, e) in d.items() if p is True or simp(p) is True]
        if len(units) != 1 or units[0][0] not in self.WORTH or not is_conc(simp(units[0][1])):
            return [('one known display unit with a concrete power (got %s)' % (units,), False)]
        uname, upow = units[0][0], int(simp(units[0][1]))
        lhs = zreal(x) * zreal(self.WORTH[uname] ** upow)
        rhs = v * zreal(self.WORTH[name] ** power)
        return [('shown value * %s^%d = value * %s^%d' % (uname, upow, name, power), lhs == rhs)]

    def case(self, ctx, vals, label):
        c = Harness.case(self, ctx, vals, label)
        c['inputs'].update({'name': ctx['name'], 'power': ctx['power']})
        return c

    def prefer(self, ctx):
        return [ctx['v'] == 100, ctx['v'] > 0]

    def native(self, inputs, label):
        v = Fraction(inputs['v'])
        src = {'bit': 'byte', 'kilogram': 'kg', 'meter': 'm'}[inputs['name']]
        p = int(inputs['power'])
        return [{'mode': 'query', 'text': '%s %s^(%d) -> digits' % (frac_text(v), src, p)}, {'mode': 'query', 'text': '%s %s^(%d)' % (frac_text(v), src, p)}]

    def judge(self, inputs, label, obs):
        q, plain = obs
        if q.get('outcome') == 'panic' or q.get('render_panic'):
            return True, 'panic %s' % (q.get('panic') or q.get('render_panic'))
        raw = obs_number_json(plain)
        j = (q.get('json') or {}).get('value') or (q.get('json') or {})
        ev = j.get('exactValue')
        unit = j.get('rawUnit') or j.get('rawDimensions') or {}
        if raw is None or ev is None:
            return False, 'no exact numeral in %s' % q.get('display')
        try:
            x = Fraction(ev)
        except ValueError:
            return False, 'numeral %r is not a plain decimal' % ev
        worth_bits = {'bit': Fraction(1), 'byte': Fraction(8), 'kilogram': Fraction(1), 'gram': Fraction(1, 1000), 'meter': Fraction(1)}
        tot = x
        for k, e in unit.items():
            if k not in worth_bits:
                return False, 'unit %s not in the read-back table' % k
            tot *= worth_bits[k] ** int(e)
        return (tot != raw[0]), '%r reads back as %s (base units), the quantity is %s' % (q.get('display'), tot, raw[0])


_c06_prev5 = harnesses


def harnesses(tier):   # noqa: F811
    return _c06_prev5(tier) + [WithPrettyUnit()]
