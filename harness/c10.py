"""C10 temperature scales: Degree arm of eval_expr, Conversion::Degree arm of eval_query, real database constants."""
import z3
from .common import *  # noqa
from . import dbvalues
from .c09 import TO_PARTS_STUB, CANON_STUB, CONF_STUB, DEFAULT_PARTS

SCALES = ['Celsius', 'Fahrenheit', 'Reaumur', 'Romer', 'Delisle', 'Newton']
DB_NAMES = ['kelvin', 'degrankine', 'reaumur_absolute', 'romer_absolute', 'delisle_absolute', 'newton_absolute',
            'zerocelsius', 'zerofahrenheit', 'zeroromer', 'zerodelisle']

F = Fraction
# textbook: absolute temperature in kelvin of x degrees on each scale  (a*x + b)
TEXTBOOK = {
    'Celsius': (F(1), F(27315, 100)),
    'Fahrenheit': (F(5, 9), F(45967, 100) * F(5, 9)),
    'Reaumur': (F(5, 4), F(27315, 100)),
    'Romer': (F(40, 21), F(27315, 100) - F(75, 10) * F(40, 21)),
    'Delisle': (F(-2, 3), F(37315, 100)),
    'Newton': (F(100, 33), F(27315, 100)),
}
SPELL = {'Celsius': 'degC', 'Fahrenheit': 'degF', 'Reaumur': 'degRe', 'Romer': 'degRo', 'Delisle': 'degDe', 'Newton': 'degN'}


def stub_numeric_value(ex, nc, args):
    return Tup([some(ex, 'numeral'), none(ex)])


NUMVAL_STUB = (r'^Number::numeric_value$', stub_numeric_value, 'Number::numeric_value -> opaque numeral strings (C05 territory)')
UNITSTR_STUB = (r'^Number::unit_to_string$', lambda ex, nc, a: 'unit', 'Number::unit_to_string -> opaque')
DESCRIBE_STUB = (r'^Context::describe_unit$', lambda ex, nc, a: Tup([False, 'description']), 'Context::describe_unit -> opaque')
COMMON_STUBS = (LOOKUP_STUB, SHOW_STUB, TO_PARTS_STUB, CANON_STUB, DEFAULT_PARTS, NUMVAL_STUB, UNITSTR_STUB, DESCRIBE_STUB)


def db_units():
    vals = dbvalues.units(DB_NAMES)
    out = {}
    for n in DB_NAMES:
        v = vals[n]
        out[n] = number(rational(Fraction(v['value'])), dim({k: (True, int(e)) for k, e in v['unit'].items()}))
    return out, vals


def temp_unit_name(vals):
    u = vals['kelvin']['unit']
    assert len(u) == 1, u
    return list(u)[0]


def reply_raw(ex, r):
    """QueryReply::Conversion(Box<ConversionReply{value: NumberParts{raw_value}}>) -> Number"""
    rep = deref_all(r)
    conv = deref_all(rep.fields[0])
    parts = deref_all(conv.fields[0])
    rv = ex.prog.src.structs['NumberParts'].index('raw_value')
    return payload(parts.fields[rv])


class DegreeOperator(Harness):
    props = ('C10', 'C04')
    entry = 'eval_expr'
    stubs = COMMON_STUBS
    _concrete = None

    def __init__(self, scale):
        self.scale = scale
        self.name = 'eval_expr.degree.%s' % scale.lower()
        self.describe = '`x <%s>` with x an arbitrary Number (unbounded rational, symbolic unit); zero points and scale units are the real database values' % scale
        self.expect_classes = ['Result::Ok', 'Result::Err']

    def build(self, ex, I):
        x = I.real('x')
        D, ent = sym_dim(ex, I, 'd', ('K', 'm'), lo=-3, hi=3)
        units, vals = db_units()
        units['a'] = number(rational(x), D)
        ex.env['units'] = units
        self.K = temp_unit_name(vals)
        e = expr_unary(ex, variant(ex, 'UnaryOpType', 'Degree', [variant(ex, 'Degree', self.scale)]), expr_unit(ex, 'a'))
        return [ref(Opaque('Context')), ref(e)], {'x': x, 'ent': ent}

    def post(self, ex, ctx, outcome):
        x, ent = zreal(ctx['x']), ctx['ent']
        r = deref_all(outcome[1])
        dimless = z3.And(*[z3.Not(zbool(p)) for p, e in ent.values()])
        if is_ok(r):
            v = deref_all(payload(r))
            val, d = number_parts(v.fields[0])
            kind, y = numeric_parts(val)
            a, b = TEXTBOOK[self.scale]
            obs = [('scale operator accepted only on dimensionless operands', dimless),
                   ('result is rational', kind == 'rational')]
            if kind == 'rational':
                obs.append(('x %s = %s*x + %s kelvin' % (self.scale, a, b), zreal(y) == zreal(a) * x + zreal(b)))
            want = {self.K: (True, 1)}
            obs.append(('result is an absolute temperature', dims_equal_formula(d, want)))
            return obs
        return [('refused only for operands that carry a dimension', z3.Not(dimless))]

    def prefer(self, ctx):
        x = ctx['x']
        return [z3.And(x >= -500, x <= 500), z3.IsInt(x * 4)]

    def native(self, inputs, label):
        x = Fraction(inputs['x'])
        d = conc_dim(inputs, 'd', ('K', 'm'))
        if d:
            return [{'mode': 'query', 'text': '%s %s' % (qty_text(x, {'kelvin' if k == 'K' else 'meter': e for k, e in d.items()}), SPELL[self.scale])}]
        return [{'mode': 'query', 'text': '%s %s' % (frac_text(x), SPELL[self.scale])}]

    def judge(self, inputs, label, obs):
        x = Fraction(inputs['x'])
        d = conc_dim(inputs, 'd', ('K', 'm'))
        q = obs[0]
        if q.get('outcome') == 'panic' or q.get('render_panic'):
            return True, 'panic %s' % (q.get('panic') or q.get('render_panic'))
        got = obs_number_json(q)
        if d:
            return (got is not None), 'operand with a dimension gave %s' % (got,)
        a, b = TEXTBOOK[self.scale]
        want = a * x + b
        if got is None or got[0] != want:
            return True, '%s %s = %s, expected %s K' % (x, SPELL[self.scale], got, want)
        return False, 'agrees'

    def vectors(self, rng):
        out = []
        for x in (0, 100, -40, Fraction(373, 10), Fraction(-27315, 100), 10 ** 30, Fraction(1, 3)):
            out.append({'x': Fraction(x), 'd_has_K': False, 'd_exp_K': 1, 'd_has_m': False, 'd_exp_m': 1})
        out.append({'x': Fraction(3), 'd_has_K': True, 'd_exp_K': 1, 'd_has_m': False, 'd_exp_m': 1})
        return out

    def agree(self, vec, outcome, o):
        if outcome[0] == 'panic':
            return o.get('outcome') == 'panic', 'MIR panic'
        r = deref_all(outcome[1])
        got = obs_number_json(o)
        if is_ok(r):
            mine = model_number_obs(deref_all(payload(r)).fields[0])
            return (got is not None and mine[0] == got[0]), 'MIR %s native %s' % (mine, got)
        return got is None, 'MIR Err native %s' % (got,)


class DegreeConversion(Harness):
    """(x s1) -> s2 through eval_query; the source is either an arbitrary Number or `x <s1>`"""
    props = ('C10', 'C04')
    entry = 'eval_query'
    stubs = COMMON_STUBS + (CONF_STUB,)
    _concrete = None

    def __init__(self, composed, operand_dims=False):
        self.composed = composed
        self.operand_dims = operand_dims
        self.name = 'eval_query.degree_conversion.' + (('pairs_dimensioned_operand' if operand_dims else 'pairs') if composed else 'from_number')
        self.describe = ('`(x <s1>) -> <s2>` for all 36 ordered scale pairs, x an unbounded rational' if composed else
                         '`v -> <scale>` for v an arbitrary Number (symbolic unit): conformance gate + affine inverse')
        self.expect_classes = ['Result::Ok'] if composed and not operand_dims else ['Result::Ok', 'Result::Err']
        self.bounds = ['digits mode Default']
        if operand_dims:
            self.describe = '`(x <s1>) -> <s2>` where the operand x carries an arbitrary unit: refused unless the operand is dimensionless, whatever the pair of scales (also s1 = s2)'

    def build(self, ex, I):
        x = I.real('x')
        units, vals = db_units()
        self.K = temp_unit_name(vals)
        s2 = SCALES[ex.choose(6, 'target scale')] if self._concrete is None else self._concrete['s2']
        if self.composed:
            s1 = SCALES[ex.choose(6, 'source scale')] if self._concrete is None else self._concrete['s1']
            if self.operand_dims:
                D0, ent0 = sym_dim(ex, I, 'od', (self.K, 'm'), lo=-2, hi=2)
                units['a'] = number(rational(x), D0)
            else:
                ent0 = None
                units['a'] = number(rational(x), dim({}))
            top = expr_unary(ex, variant(ex, 'UnaryOpType', 'Degree', [variant(ex, 'Degree', s1)]), expr_unit(ex, 'a'))
            ent = None
        else:
            s1 = None
            D, ent = sym_dim(ex, I, 'd', (self.K, 'm'), lo=-3, hi=3)
            units['a'] = number(rational(x), D)
            top = expr_unit(ex, 'a')
        ex.env['units'] = units
        q = variant(ex, 'Query', 'Convert', [top, variant(ex, 'Conversion', 'Degree', [variant(ex, 'Degree', s2)]), none(ex),
                                             variant(ex, 'Digits', 'Default')])
        return [ref(Opaque('Context')), ref(q)], {'x': x, 's1': s1, 's2': s2, 'ent': ent, 'ent0': ent0 if self.composed else None}

    def post(self, ex, ctx, outcome):
        x, s1, s2, ent = zreal(ctx['x']), ctx['s1'], ctx['s2'], ctx['ent']
        r = deref_all(outcome[1])
        a2, b2 = TEXTBOOK[s2]
        if self.composed:
            if self.operand_dims:
                dimless0 = z3.And(*[z3.Not(zbool(p)) for p, e in ctx['ent0'].values()])
                if not is_ok(r):
                    return [('a scale operator is refused only on an operand that carries a dimension', z3.Not(dimless0))]
                pre = [('a scale operator on an operand that carries a dimension is refused, also inside `-> <scale>`', dimless0)]
            else:
                pre = []
                if not is_ok(r):
                    return [('conversion between scales never fails', False)]
            raw = reply_raw(ex, payload(r))
            val, d = number_parts(raw)
            kind, y = numeric_parts(val)
            a1, b1 = TEXTBOOK[s1]
            obs = pre + [('result is rational', kind == 'rational')]
            if kind == 'rational':
                # y on scale s2 denotes the same absolute temperature as x on scale s1
                obs.append(('%s -> %s agrees with the textbook maps' % (s1, s2), zreal(a2) * zreal(y) + zreal(b2) == zreal(a1) * x + zreal(b1)))
                if s1 == s2:
                    obs.append(('(x %s) -> %s returns x' % (s1, s2), zreal(y) == x))
            obs.append(('reply is dimensionless', dims_equal_formula(d, {})))
            return obs
        is_temp = dims_equal_formula(ent, {self.K: (True, 1)})
        if is_ok(r):
            raw = reply_raw(ex, payload(r))
            val, d = number_parts(raw)
            kind, y = numeric_parts(val)
            obs = [('conversion to a scale accepted only for temperatures', is_temp), ('result is rational', kind == 'rational')]
            if kind == 'rational':
                obs.append(('v K -> %s inverts the textbook map' % s2, zreal(a2) * zreal(y) + zreal(b2) == x))
            return obs
        e = deref_all(payload(r))
        return [('non-temperatures are refused with a conformance error', b_and(isinstance(e, Enum) and e.vname == 'Conformance', b_not(is_temp)))]

    def case(self, ctx, vals, label):
        c = Harness.case(self, ctx, vals, label)
        c['inputs']['s1'] = ctx['s1']
        c['inputs']['s2'] = ctx['s2']
        return c

    def prefer(self, ctx):
        x = ctx['x']
        return [z3.And(x >= -500, x <= 500), z3.IsInt(x * 4)]

    def native(self, inputs, label):
        x = Fraction(inputs['x'])
        if self.composed and self.operand_dims:
            od = conc_dim(inputs, 'od', (self.K if hasattr(self, 'K') else 'K', 'm'))
            txt = qty_text(x, {('kelvin' if k != 'm' else 'meter'): e for k, e in od.items()})
            return [{'mode': 'query', 'text': '(%s) %s -> %s' % (txt, SPELL[inputs['s1']], SPELL[inputs['s2']])}]
        if self.composed:
            return [{'mode': 'query', 'text': '%s %s -> %s' % (frac_text(x), SPELL[inputs['s1']], SPELL[inputs['s2']])}]
        d = conc_dim(inputs, 'd', (self.K if hasattr(self, 'K') else 'K', 'm'))
        names = {'m': 'meter'}
        txt = qty_text(x, {('kelvin' if k != 'm' else 'meter'): e for k, e in d.items()})
        return [{'mode': 'query', 'text': '%s -> %s' % (txt, SPELL[inputs['s2']])}]

    def judge(self, inputs, label, obs):
        x = Fraction(inputs['x'])
        q = obs[0]
        if q.get('outcome') == 'panic' or q.get('render_panic'):
            return True, 'panic %s' % (q.get('panic') or q.get('render_panic'))
        got = obs_number_json(q)
        a2, b2 = TEXTBOOK[inputs['s2']]
        if self.composed and self.operand_dims:
            od = {k: e for k, e in conc_dim(inputs, 'od', (self.K if hasattr(self, 'K') else 'K', 'm')).items() if e}
            if od:
                return (q.get('outcome') == 'ok'), 'a %s reading of a quantity with unit %s converted to %s: %s' % (inputs['s1'], od, inputs['s2'], q.get('display'))
        if self.composed:
            a1, b1 = TEXTBOOK[inputs['s1']]
            want = (a1 * x + b1 - b2) / a2
            if got is None or got[0] != want:
                return True, '%s %s -> %s gave %s, expected %s' % (x, inputs['s1'], inputs['s2'], got, want)
            return False, 'agrees'
        d = conc_dim(inputs, 'd', ('K', 'm'))
        d = {k: e for k, e in d.items()}
        is_temp = (len(d) == 1 and list(d.values()) == [1] and 'm' not in d)
        if is_temp:
            want = (x - b2) / a2
            return (got is None or got[0] != want), '%s K -> %s gave %s, expected %s' % (x, inputs['s2'], got, want)
        j = q.get('json') or {}
        return (q.get('outcome') != 'err' or j.get('type') != 'conformance'), 'non-temperature gave %s' % q.get('display')

    def vectors(self, rng):
        out = []
        if self.composed and not self.operand_dims:
            for s1 in SCALES:
                for s2 in SCALES[:3]:
                    out.append({'x': Fraction(rng.randint(-3000, 3000), rng.choice([1, 2, 7, 10])), 's1': s1, 's2': s2})
        return out

    def agree(self, vec, outcome, o):
        if outcome[0] == 'panic':
            return o.get('outcome') == 'panic', 'MIR panic'
        r = deref_all(outcome[1])
        got = obs_number_json(o)
        if is_ok(r):
            mine = model_number_obs(reply_raw_conc(r))
            return (got is not None and mine[0] == got[0]), 'MIR %s native %s' % (mine, got)
        return got is None, 'MIR Err'


def reply_raw_conc(r):
    rep = deref_all(payload(r))
    conv = deref_all(rep.fields[0])
    parts = deref_all(conv.fields[0])
    return payload(parts.fields[0])


class DegreeInCompoundTarget(Harness):
    name = 'eval_unit_name.degree_refused'
    props = ('C10', 'C04')
    entry = 'eval_unit_name'
    stubs = COMMON_STUBS
    describe = 'eval_unit_name on a scale operator (any of the six) inside a conversion target: must be refused'
    expect_classes = ['Result::Err']
    _concrete = None

    def build(self, ex, I):
        s = SCALES[ex.choose(6, 'scale')]
        shape = ex.choose(3, 'shape')
        inner = expr_unary(ex, variant(ex, 'UnaryOpType', 'Degree', [variant(ex, 'Degree', s)]), expr_const(ex, rational(Fraction(1))))
        ex.env['units'] = {'b': number(rational(Fraction(1)), dim({}))}
        if shape == 0:
            e = inner
        elif shape == 1:
            e = expr_mul(ex, [expr_const(ex, rational(Fraction(2))), inner])
        else:
            e = expr_binop(ex, 'Frac', inner, expr_unit(ex, 'b'))
        return [ref(Opaque('Context')), ref(e)], {}

    def post(self, ex, ctx, outcome):
        return [('scale operators are refused inside compound conversion targets', is_err(outcome[1]))]

    def native(self, inputs, label):
        return [{'mode': 'query', 'text': '300 kelvin -> 2 degC'}]

    def judge(self, inputs, label, obs):
        q = obs[0]
        return (q.get('outcome') != 'err'), '`300 kelvin -> 2 degC` gave %s' % q.get('display')


def harnesses(tier):
    return [DegreeOperator(s) for s in SCALES] + [DegreeConversion(True), DegreeConversion(False), DegreeConversion(True, operand_dims=True), DegreeInCompoundTarget()]


# --------------------------------------------------------------------------------------------------------------
from mirsym.lib import PeekableV, VecIter

SPELLINGS = {
    'Celsius': ['degC', '°C', 'celsius', '℃'],
    'Fahrenheit': ['degF', '°F', 'fahrenheit', '℉'],
    'Reaumur': ['degRé', '°Ré', 'degRe', '°Re', 'réaumur', 'reaumur'],
    'Romer': ['degRø', '°Rø', 'degRo', '°Ro', 'rømer', 'romer'],
    'Delisle': ['degDe', '°De', 'delisle'],
    'Newton': ['degN', '°N', 'degnewton'],
}
NOT_SCALES = ['deg', 'degK', 'degR', 'degree', 'kelvin', 'newton', 'degc', 'Celsius', 'degNewton']


class DegreeSpellings(Harness):
    """Concrete-input companion (no symbolic variable: the set of documented spellings is finite and listed here):
    the real lexer must map every documented spelling to its scale and nothing else."""
    name = 'lexer.degree_spellings'
    props = ('C10',)
    entry_name = '<text_query::TokenIterator as Iterator>::next'
    describe = 'TokenIterator::next on each documented spelling of the six scales (31 strings) and on 9 near misses'
    bounds = ['finite list of spellings (concrete inputs; decided by executing the real lexer MIR, no solver variable)']
    expect_classes = ['Option::Some']
    loop_bound = 40
    _concrete = None

    def build(self, ex, I):
        words = [(w, s) for s, ws in SPELLINGS.items() for w in ws] + [(w, None) for w in NOT_SCALES]
        w, s = words[ex.choose(len(words), 'spelling')]
        it = Struct('TokenIterator', [PeekableV(VecIter([ord(c) for c in w]))], 'text_query')
        return [it], {'word': w, 'scale': s}

    def entry(self, ex, args, ctx):
        return ex.call(None, '<parsing::text_query::TokenIterator<\'_> as Iterator>::next', [ref(args[0])])

    def post(self, ex, ctx, outcome):
        t = deref_all(deref_all(outcome[1]).fields[0])
        if ctx['scale'] is None:
            return [('`%s` is not a scale name' % ctx['word'], t.vname != 'Degree')]
        okk = t.vname == 'Degree' and deref_all(t.fields[0]).vname == ctx['scale']
        return [('`%s` lexes as the %s scale (got %s)' % (ctx['word'], ctx['scale'], t.vname), okk)]

    def case(self, ctx, vals, label):
        c = Harness.case(self, ctx, vals, label)
        c['inputs']['word'] = ctx['word']
        c['inputs']['scale'] = ctx['scale']
        return c

    def native(self, inputs, label):
        return [{'mode': 'query', 'text': '300 kelvin -> %s' % inputs['word']}, {'mode': 'query', 'text': '300 kelvin -> %s' % SPELL.get(inputs['scale'] or 'Celsius')}]

    def judge(self, inputs, label, obs):
        a, b = obs
        if inputs['scale'] is None:
            j = a.get('json') or {}
            return (a.get('outcome') == 'ok' and j.get('type') == 'conversion' and 'unit' not in str(j)), 'near miss `%s` gave %s' % (inputs['word'], a.get('display'))
        return (a.get('display') != b.get('display') or a.get('outcome') != 'ok'), '`-> %s` gave %s, `-> %s` gave %s' % (
            inputs['word'], a.get('display'), SPELL[inputs['scale']], b.get('display'))


_base_harnesses = harnesses


def harnesses(tier):   # noqa: F811
    return _base_harnesses(tier) + [DegreeSpellings()]
