"""C05 (reduced): exponent normalisation in to_scientific, the small-period recurring shortcut, exact/approx marking.
The long-division loop `to_digits_impl` is OUTSIDE (f64 ln digit budget, value-dependent trip count, remainder set)."""
import z3
from .common import *  # noqa

BASES = [2, 8, 10, 16, 36]
MODES = ['Default', 'Scientific', 'Engineering']


def stub_to_digits_impl(ex, nc, args):
    """records the mantissa it is asked to print; returns an arbitrary exactness flag and a concrete marker text"""
    ex.env['mantissa'] = deref_all(args[0]).fields[0]
    ex.env['mantissa_base'] = args[1]
    flag = ex.fresh('digits_exact', 'Bool')
    ex.env['digits_exact'] = flag
    return Tup([flag, 'M'])


class Scientific(Harness):
    props = ('C05', 'C04')
    entry = 'BigRat::to_scientific'
    stubs = ((r'^BigRat::to_digits_impl$', stub_to_digits_impl, 'BigRat::to_digits_impl -> records its receiver (the mantissa), returns (arbitrary bool, "M")'),)
    loop_bound = 12
    _concrete = None

    def __init__(self, span):
        self.span = span
        self.name = 'bigrat.to_scientific'
        self.describe = 'BigRat::to_scientific for bases %s x modes %s, |value| within [base^-%d, base^%d]: mantissa handed to the digit printer times base^exponent printed' % (BASES, MODES, span, span)
        self.bounds = ['|value| in [base^-%d, base^%d] (next_power_of loop unrolled %d times)' % (span, span, span + 2)]
        self.expect_classes = ['return']

    def build(self, ex, I):
        v = I.real('v')
        base = BASES[ex.choose(len(BASES), 'base')]
        mode = MODES[ex.choose(len(MODES), 'mode')]
        lo, hi = Fraction(1, base ** self.span), Fraction(base ** self.span)
        a = z3.If(v >= 0, v, -v)
        ex.assume(z3.And(a >= zreal(lo), a <= zreal(hi)))
        return [ref(bigrat(v)), base, variant(ex, 'Digits', mode)], {'v': v, 'base': base, 'mode': mode}

    def post(self, ex, ctx, outcome):
        v, base, mode = zreal(ctx['v']), ctx['base'], ctx['mode']
        t = deref_all(outcome[1])
        text = deref_all(t.fields[1])
        m = ex.env.get('mantissa')
        if m is None or not isinstance(text, str):
            return [('to_scientific prints a mantissa and an exponent', False)]
        mt, _, et = text.partition('e')
        try:
            e = int(et)
        except ValueError:
            return [('exponent is a decimal integer (got %r)' % text, False)]
        obs = [('mantissa * base^exponent = value', zreal(m) * zreal(Fraction(base) ** e) == v),
               ('exactness flag is the digit printer\'s', n_eq(t.fields[0], ex.env['digits_exact'])),
               ('mantissa text is kept and gets a radix point', mt == 'M.0')]
        if mode == 'Engineering':
            obs.append(('engineering exponent is a multiple of 3', e % 3 == 0))
        return obs

    def case(self, ctx, vals, label):
        c = Harness.case(self, ctx, vals, label)
        c['inputs']['base'] = ctx['base']
        c['inputs']['mode'] = ctx['mode']
        return c

    def native(self, inputs, label):
        v = Fraction(inputs['v'])
        return [{'mode': 'rat_to_string', 'fn': 'to_scientific', 'v': '%d/%d' % (v.numerator, v.denominator), 'base': int(inputs['base']),
                 'digits': inputs['mode']}]

    def judge(self, inputs, label, obs):
        o = obs[0]
        if o.get('outcome') != 'ok':
            return True, 'to_scientific: %s %s' % (o.get('outcome'), o.get('panic', ''))
        base, v = int(inputs['base']), Fraction(inputs['v'])
        pr = numeral_problem(o['text'], o['exact'], v, base, sci=True)
        if pr is None and inputs['mode'] == 'Engineering' and read_numeral(o['text'], base, True)['exp'] % 3:
            pr = 'engineering exponent of %r is not a multiple of 3' % o['text']
        if pr is None and '.' not in o['text']:
            pr = 'scientific numeral %r has no radix point' % o['text']
        return (pr is not None), pr or 'to_scientific(%s, base %d) = %r denotes the value' % (v, base, o['text'])


class Recurring(Harness):
    props = ('C05', 'C04')
    entry = 'BigRat::is_recurring'
    loop_bound = 14
    _concrete = None

    def __init__(self, bases=BASES):
        self.bases = bases
        self.name = 'bigrat.is_recurring'
        self.describe = 'BigRat::is_recurring(base, max_period) on a remainder 0 <= n/d < 1 with i64 parts, bases %s, max_period 4 and 10' % (bases,)
        self.assumptions = ['receiver is a long-division remainder: 0 <= n/d < 1']
        self.expect_classes = ['Option::Some', 'Option::None']

    def build(self, ex, I):
        n = I.int('n', 'i64')
        d = I.int('d', 'i64')
        ex.assume(z3.And(d >= 1, n >= 0, n < d))
        base = self.bases[ex.choose(len(self.bases), 'base')]
        mp = [4, 10][ex.choose(2, 'max_period')]
        v = I.real('r')
        ex.assume(v * z3.ToReal(d) == z3.ToReal(n))
        # the receiver's numer()/denom() are handed out as n and d directly (the function does not depend on
        # the fraction being in lowest terms: digits / (base^p - 1) = n / d either way)
        ex.memo[('parts', v.get_id())] = (n, d)
        return [ref(bigrat(v)), base, mp], {'n': n, 'd': d, 'base': base, 'mp': mp, 'v': v}

    def post(self, ex, ctx, outcome):
        base, mp, v = ctx['base'], ctx['mp'], ctx['v']
        r = deref_all(outcome[1])
        if is_none(r):
            return []
        tup = deref_all(payload(r))
        digits, period = tup.fields
        period = int(simp(period))
        return [('period is within the requested bound', 1 <= period < mp),
                ('bracketed digits denote the remainder: digits / (base^period - 1) = r', zreal(digits) == v * (base ** period - 1)),
                ('the block has exactly `period` digits', z3.And(zint(digits) >= 0, zint(digits) < base ** period))]

    def prefer(self, ctx):
        # n/d in lowest terms (consecutive integers are coprime): the native printer reduces the fraction first
        return [ctx['n'] == ctx['d'] - 1, ctx['n'] > 0]

    def case(self, ctx, vals, label):
        c = Harness.case(self, ctx, vals, label)
        c['inputs']['base'] = ctx['base']
        c['inputs']['max_period'] = ctx['mp']
        return c

    def native(self, inputs, label):
        # n/d in [0,1): to_string's long division asks is_recurring(base, 10) about exactly this remainder at the first
        # fraction digit (and is_recurring(base, 4) when it runs out of budget)
        n, d = int(inputs['n']), int(inputs['d'])
        base = int(inputs['base'])
        return [{'mode': 'rat_to_string', 'fn': 'to_string', 'v': '%d/%d' % (n, d), 'base': base, 'digits': dg} for dg in ('FullInt', '0', '3')]

    def judge(self, inputs, label, obs):
        bad = []
        v = Fraction(int(inputs['n']), int(inputs['d']))
        for o in obs:
            if o.get('outcome') != 'ok':
                bad.append('to_string: %s %s' % (o.get('outcome'), o.get('panic', '')))
                continue
            pr = numeral_problem(o['text'], o['exact'], v, int(inputs['base']), sci=False)
            if pr:
                bad.append(pr)
        return bool(bad), '; '.join(bad[:2]) or 'numerals %s denote %s' % ([o.get('text') for o in obs], v)


def stub_to_string(ex, nc, args):
    return Tup([ex.env['is_exact'], 'numeral'])


class ExactMarker(Harness):
    props = ('C05', 'C04')
    entry_name = 'Numeric::string_repr ; NumberPartsFmt::to_spans'
    stubs = ((r'^Numeric::to_string$', stub_to_string, 'Numeric::to_string -> (arbitrary exactness flag, "numeral")'),)
    loop_bound = 12
    _concrete = None

    def __init__(self):
        self.name = 'numeric.string_repr.approx_marker'
        self.describe = 'Numeric::string_repr on an arbitrary rational with the digit printer replaced by an arbitrary (is_exact, text), then the `n` format pattern'
        self.expect_classes = ['return']

    def build(self, ex, I):
        v = I.real('v')
        ex.env['is_exact'] = I.bool('printer_says_exact')
        return [rational(v)], {'v': v}

    def entry(self, ex, args, ctx):
        r = ex.call(None, 'types::numeric::Numeric::string_repr', [ref(args[0]), 10, variant(ex, 'Digits', 'Default')])
        t = deref_all(r)
        f = ex.prog.src.structs['NumberParts']
        vals = [none(ex)] * len(f)
        vals[f.index('exact_value')] = t.fields[0]
        vals[f.index('approx_value')] = t.fields[1]
        parts = Struct('NumberParts', vals)
        fmt = Struct('NumberPartsFmt', [ref(parts), 'n'])
        spans = ex.call(None, 'output::number_parts::NumberPartsFmt::to_spans', [ref(fmt)])
        return Tup([r, spans])

    def post(self, ex, ctx, outcome):
        t = deref_all(outcome[1])
        rep = deref_all(t.fields[0])
        exact, approx = deref_all(rep.fields[0]), deref_all(rep.fields[1])
        flag = ex.env['is_exact']
        spans = deref_all(t.fields[1])
        texts = []
        for s in spans.fields:
            s = deref_all(s)
            for f in s.fields:
                f = deref_all(f)
                if isinstance(f, Enum) and f.ty == 'Cow':
                    f = deref_all(f.fields[0])
                if isinstance(f, str):
                    texts.append(f)
        shown = ''.join(texts)
        has_marker = 'approx.' in shown
        obs = []
        if exact.variant == 1 and approx.variant == 0:
            obs.append(('an unmarked numeral is one the printer called exact', flag))
            obs.append(('no approx. marker on an exact numeral', not has_marker))
        elif approx.variant == 1:
            obs.append(('an approximate numeral is one the printer did not call exact', b_not(flag)))
            obs.append(('approx. marker shown', has_marker))
            if exact.variant == 1:
                e = deref_all(exact.fields[0])
                pieces = e.info[1] if isinstance(e, Opaque) and isinstance(e.info, tuple) and e.info[0] == 'pieces' else None
                shape = pieces is not None and len(pieces) == 3 and pieces[1] == '/' and all(isinstance(x, tuple) for x in (pieces[0], pieces[2]))
                obs.append(('the exact companion is printed as numerator/denominator', bool(shape)))
                if shape:
                    def intval(x):
                        x = deref_all(x)
                        while isinstance(x, Struct) and len(x.fields) == 1:
                            x = deref_all(x.fields[0])
                        return x
                    n_, d_ = intval(pieces[0][1]), intval(pieces[2][1])
                    obs.append(('the fraction shown as exact denotes the value', z3.And(zint(d_) != 0, z3.ToReal(zint(n_)) == zreal(ctx['v']) * z3.ToReal(zint(d_)))))
        else:
            obs.append(('a rational always gets a numeral', False))
        return obs

    PROBES = ['2^64', '10^9 + 1', '12345678901', '123456789 -> scientific', '1/3', '1/3000', '1/7', '22/7', '1e-10 + 1e-20', '-1/17', '-22/17', '1/17']

    def native(self, inputs, label):
        v = Fraction(inputs['v'])
        return [{'mode': 'query', 'text': frac_text(v)}] + [{'mode': 'query', 'text': t} for t in self.PROBES]

    def judge(self, inputs, label, obs):
        """a numeral shown without `approx.` must denote the raw value exactly (plain / scientific decimal numerals)"""
        import re as _r
        bad = []
        for o in obs:
            j = o.get('json') or {}
            parts = j.get('value') if j.get('type') == 'conversion' else j
            if not isinstance(parts, dict):
                continue
            ev, av = parts.get('exactValue'), parts.get('approxValue')
            raw = obs_number_json(o)
            if ev is not None and raw is not None and _r.match(r'^-?\d+/\d+$', ev):
                if Fraction(ev) != raw[0]:
                    bad.append('%r shows the fraction %s as exact but the value is %s' % (o.get('display'), ev, raw[0]))
                continue
            if ev is None or av is not None or raw is None:
                continue
            m_ = _r.match(r'^(-?\d+(?:\.\d+)?)(?:e(-?\d+))?$', ev)
            if not m_:
                continue
            den = Fraction(m_.group(1)) * Fraction(10) ** int(m_.group(2) or 0)
            if den != raw[0]:
                bad.append('%r is shown as exact but the value is %s' % (o.get('display'), raw[0]))
        return (bool(bad), '; '.join(bad[:3]) or 'exact numerals denote their values')


def harnesses(tier):
    return [Scientific(3 if tier == 'quick' else 6), Recurring([10, 16] if tier == 'quick' else BASES), ExactMarker()]


# --------------------------------------------------------------------------------------------------------------
from .c09 import CANON_STUB, DEFAULT_PARTS
from .c15 import stub_eval_expr_value
from mirsym.lib import MapV, SymSet


def stub_numeric_value_env(ex, nc, args):
    return dup(ex.env['numeric_value'])


def stub_to_parts_base10(ex, nc, args):
    n = dup(deref_all(args[0]))
    fields = ex.prog.src.structs['NumberParts']
    vals = [none(ex)] * len(fields)
    vals[fields.index('raw_value')] = some(ex, n)
    vals[fields.index('exact_value')] = some(ex, 'BASE10-EXACT')
    vals[fields.index('approx_value')] = some(ex, 'BASE10-APPROX')
    vals[fields.index('dimensions')] = some(ex, 'dims')
    return Struct('NumberParts', vals)


def stub_to_parts_digits_base(ex, nc, args):
    """Number::to_parts_digits(self, ctx, base, digits): the printer's markers when asked for the requested base (2),
    base-10 markers for any other base"""
    p = stub_to_parts_base10(ex, nc, args)
    if is_conc(simp(args[2])) and int(simp(args[2])) == 2:
        fields = ex.prog.src.structs['NumberParts']
        e, a = ex.env['numeric_value'].fields
        p.fields[fields.index('exact_value')] = dup(e)
        p.fields[fields.index('approx_value')] = dup(a)
    return p


class BaseConversionNumerals(Harness):
    name = 'eval_query.base_conversion.numerals'
    props = ('C05', 'C04')
    entry = 'eval_query'
    describe = ('`x -> base B [digits mode]`: the exact/approx numerals of the reply are exactly those the digit printer produced for that base '
                '(printer replaced by an arbitrary present/absent pair), never the base-10 strings of the generic rendering')
    stubs = (SHOW_STUB, CANON_STUB, DEFAULT_PARTS,
             (r'^eval_expr$', stub_eval_expr_value, 'eval_expr -> arbitrary Number'),
             (r'^Number::numeric_value$', stub_numeric_value_env, 'Number::numeric_value -> arbitrary (exact?, approx?) marker strings'),
             (r'^Number::to_parts$', stub_to_parts_base10, 'Number::to_parts -> parts with base-10 marker numerals'),
             (r'^Number::to_parts_digits$', stub_to_parts_digits_base, 'Number::to_parts_digits -> the printer\'s marker numerals iff asked for base 2, base-10 markers otherwise'))
    expect_classes = ['Result::Ok']
    _concrete = None

    def build(self, ex, I):
        x = I.real('x')
        ex.env['value'] = variant(ex, 'Value', 'Number', [number(rational(x), dim({'m': (True, 1)}))])
        he = ex.choose(2, 'printer gives exact numeral')
        ha = ex.choose(2, 'printer gives approx numeral')
        ex.env['numeric_value'] = Tup([some(ex, 'B-EXACT') if he else none(ex), some(ex, 'B-APPROX') if ha else none(ex)])
        dig = ['Default', 'Scientific', 'Fraction'][ex.choose(3, 'digits mode')]
        q = variant(ex, 'Query', 'Convert', [expr_const(ex, rational(Fraction(1))), variant(ex, 'Conversion', 'None'), some(ex, 2),
                                             variant(ex, 'Digits', dig)])
        return [ref(Opaque('Context')), ref(q)], {'he': he, 'ha': ha}

    def post(self, ex, ctx, outcome):
        r = deref_all(outcome[1])
        if not is_ok(r):
            return [('base conversion of a number succeeds', False)]
        rep = deref_all(payload(r))
        if rep.vname != 'Conversion':
            return [('reply is a Conversion', False)]
        parts = deref_all(deref_all(rep.fields[0]).fields[0])
        f = ex.prog.src.structs['NumberParts']
        e, a = deref_all(parts.fields[f.index('exact_value')]), deref_all(parts.fields[f.index('approx_value')])
        want_e = 'B-EXACT' if ctx['he'] else None
        want_a = 'B-APPROX' if ctx['ha'] else None
        got_e = deref_all(e.fields[0]) if e.variant == 1 else None
        got_a = deref_all(a.fields[0]) if a.variant == 1 else None
        return [('exact numeral is the one printed in the requested base (got %r, want %r)' % (got_e, want_e), got_e == want_e),
                ('approx numeral is the one printed in the requested base (got %r, want %r)' % (got_a, want_a), got_a == want_a)]

    def native(self, inputs, label):
        return [{'mode': 'query', 'text': '0.0001 -> base 2'}, {'mode': 'query', 'text': '1.0305 -> hex'}]

    def judge(self, inputs, label, obs):
        bad = []
        for o in obs:
            j = o.get('json') or {}
            v = (j.get('value') or {})
            ev = v.get('exactValue')
            if ev is not None and any(c in ev for c in '23456789') and 'base 2' in str(o.get('display', '')) + '0.0001':
                bad.append('exact numeral %r shown for a non-decimal reply' % ev)
            if ev is not None and '.' in ev and v.get('approxValue') is not None:
                bad.append('both exact %r and approx %r' % (ev, v.get('approxValue')))
        return (bool(bad), '; '.join(bad) or 'ok')


def harnesses(tier):   # noqa: F811
    return [Scientific(3 if tier == 'quick' else 6), Recurring([10, 16] if tier == 'quick' else BASES), ExactMarker(), BaseConversionNumerals()]


# ============================================================================================================
# The long-division digit printer itself, bounded: |value| < base^2, digit budgets Default (6) and Digits(N<=3).

def stub_size_in_base(ex, nc, args):
    """BigInt::size_in_base(x, base) = 1 + floor(bits(x) * ln 2 / ln base): by the arithmetic of that formula it is the
    true digit count or one more (never less), and exactly 1 for x = 0.  Both possibilities are explored."""
    if ex.env.get('force_intdigits') is not None:
        # the step harness fixes the estimate (the state it specifies assumes value < base^intdigits <= base^2 * value)
        return ex.env['force_intdigits']
    x = deref_all(args[0]).fields[0]
    base = args[1]
    if is_conc(simp(x)) and is_conc(simp(base)):
        xv, bv, d = abs(int(simp(x))), int(simp(base)), 1
        while xv >= bv ** d:
            d += 1
        if not xv:
            return 1
        # both estimates are explored; the one the formula gives in IEEE arithmetic comes first, so that a concrete
        # translator vector (which takes the first alternative) follows the native run (base 2: always one over)
        import math
        f = 1 + int(math.floor(xv.bit_length() * math.log(2) / math.log(bv)))
        alts = [f, 2 * d + 1 - f] if f in (d, d + 1) else [d, d + 1]
        return alts[ex.choose(2, 'size_in_base over-estimates by one')]
    if ex.branch(n_eq(x, 0), 'int part is zero'):
        return 1
    d = 1
    while True:
        if ex.branch(n_lt(x, base ** d), 'int part < base^%d' % d):
            break
        d += 1
        if d > 6:
            raise Unmodelled('integer part beyond the harness bound')
    over = ex.choose(2, 'size_in_base over-estimates by one')
    return d + over


def stub_is_recurring(ex, nc, args):
    """BigRat::is_recurring by its contract (decided for the real function by the bigrat.is_recurring harness):
    None, or Some((D, p)) with 1 <= p < max_period, D / (base^p - 1) = self, 0 <= D < base^p."""
    cur = deref_all(args[0]).fields[0]
    base, mp = args[1], args[2]
    mp = int(simp(mp))
    k = ex.choose(min(mp, ex.env.get('max_block', 3) + 1), 'is_recurring result')        # 0 = None, p = 1..
    if k == 0:
        return none(ex)
    # the block as its digits (least significant first): D = sum e_j * base^j; tagged so that `D / base^m % base`
    # in the printing loop is read off as a digit instead of being derived from a division lemma
    es = [ex.fresh('blockdigit', 'Int') for _ in range(k)]
    for e in es:
        ex.assume(z3.And(e >= 0, e < base))
    D = z3.IntVal(0)
    for j, e in enumerate(es):
        D = D + e * (base ** j)
    D = z3.simplify(D)
    ex.memo[('digits_of', D.get_id())] = (int(base), es)
    ex.assume(z3.ToReal(D) == zreal(cur) * (base ** k - 1))
    return some(ex, Tup([D, k]))


def parse_numeral(chars, base):
    """text produced by to_digits_impl (list of concrete code points / symbolic digit chars) ->
    dict(neg, value (z3 Real), frac_len, recurring, valid (z3 Bool), period_text)"""
    def is_p(c, ch):
        return is_conc(c) and c == ord(ch)

    def digit(c):
        if is_conc(c):
            s_ = chr(c)
            v = int(s_, 36) if s_.isalnum() else 99
            return z3.IntVal(v), z3.BoolVal(v < base)
        c = zint(c)
        v = z3.If(c <= 57, c - 48, c - 87)
        ok_ = z3.And(v >= 0, v < base, z3.Or(z3.And(c >= 48, c <= 57), z3.And(c >= 97, c <= 122)))
        return v, ok_
    i = 0
    neg = False
    if chars and is_p(chars[0], '-'):
        neg = True
        i = 1
    ip, fp, bp = [], [], []
    where = 'int'
    period_text = None
    valid = []
    while i < len(chars):
        c = chars[i]
        if is_p(c, '.') and where == 'int':
            where = 'frac'
        elif is_p(c, '['):
            where = 'block'
        elif is_p(c, ','):
            # ", period N"
            rest = ''.join(chr(x) for x in chars[i:] if is_conc(x))
            import re as _r
            mm = _r.match(r'^, period (\d+)\]\.\.\.$', rest)
            period_text = int(mm.group(1)) if mm else -1
            i = len(chars)
            where = 'done'
            break
        elif is_p(c, ']'):
            where = 'done'
            rest = ''.join(chr(x) if is_conc(x) else '?' for x in chars[i:])
            valid.append(z3.BoolVal(rest == ']...'))
            break
        else:
            v, ok_ = digit(c)
            valid.append(ok_)
            {'int': ip, 'frac': fp, 'block': bp}[where].append(v)
        i += 1
    val_ = z3.RealVal(0)
    for d_ in ip:
        val_ = val_ * base + z3.ToReal(d_)
    scale = Fraction(1)
    for d_ in fp:
        scale = scale / base
        val_ = val_ + z3.ToReal(d_) * zreal(scale)
    if bp:
        blk = z3.IntVal(0)
        for d_ in bp:
            blk = blk * base + d_
        val_ = val_ + z3.ToReal(blk) * zreal(scale / (base ** len(bp) - 1))
    return {'neg': neg, 'value': val_, 'frac_len': len(fp), 'block_len': len(bp), 'valid': z3.And(*valid) if valid else z3.BoolVal(True),
            'period_text': period_text, 'int_len': len(ip)}


class DigitPrinter(Harness):
    props = ('C05', 'C04')
    entry = 'BigRat::to_digits_impl'
    stubs = ((r'^BigInt::size_in_base$', stub_size_in_base, 'BigInt::size_in_base -> true digit count or one more (arithmetic contract of the f64 formula)'),
             (r'^BigRat::is_recurring$', stub_is_recurring, 'BigRat::is_recurring -> its contract (decided separately on the real function)'))
    loop_bound = 40
    max_paths = 20000
    _concrete = None

    def __init__(self, base, modes, span=2, sign=0, max_block=3):
        self.base = base
        self.modes = modes
        self.span = span
        self.sign = sign
        self.max_block = max_block
        self.name = 'bigrat.to_digits_impl.base%d.%s%s' % (base, '-'.join(modes).lower(), {0: '', 1: '.pos', -1: '.neg'}[sign])
        self.describe = ('the long-division digit printer on an arbitrary rational with |value| < %d^%d (and >= %d^-2 unless zero), base %d, digit budgets %s: '
                         'the text it returns is parsed back (integer digits, fraction digits, bracketed block) and compared with the value') % (
            base, span, base, base, modes)
        self.bounds = ['|value| in {0} u [base^-2, base^%d)' % span, 'digit budgets %s' % (modes,),
                       'recurring periods: remainder-set detection up to the budget; the small-period shortcut by contract, blocks of at most %d digits' % max_block]
        self.expect_classes = ['return']

    def build(self, ex, I):
        v = I.real('v')
        b = self.base
        a = z3.If(v >= 0, v, -v)
        ex.assume(z3.And(a < b ** self.span, z3.Or(a == 0, a >= zreal(Fraction(1, b ** 2)))))
        if self.sign:
            ex.assume(v >= 0 if self.sign > 0 else v < 0)
        ex.env['max_block'] = self.max_block
        mode = self.modes[ex.choose(len(self.modes), 'digits mode')]
        if mode == 'Default':
            dg = variant(ex, 'Digits', 'Default')
        else:
            dg = variant(ex, 'Digits', 'Digits', [int(mode)])
        return [ref(bigrat(v)), b, dg], {'v': v, 'mode': mode}

    def post(self, ex, ctx, outcome):
        v = zreal(ctx['v'])
        b = self.base
        t = deref_all(outcome[1])
        exact, text = t.fields[0], deref_all(t.fields[1])
        chars = [ord(c) for c in text] if isinstance(text, str) else list(text.chars) if isinstance(text, SymStr) else None
        if chars is None:
            return [('the numeral is a string of digits', False)]
        shown = ''.join(chr(c) if is_conc(c) else 'd' for c in chars)
        p = parse_numeral(chars, b)
        a = z3.If(v >= 0, v, -v)
        obs = [('[%s] every digit is a digit of base %d' % (shown, b), p['valid']),
               ('[%s] a minus sign iff the value is negative' % shown, (v < 0) if p['neg'] else (v >= 0))]
        recurring = p['block_len'] > 0
        if recurring:
            obs.append(('[%s] a numeral with a recurring block is marked exact' % shown, exact))
            obs.append(('[%s] the recurring numeral denotes the value exactly' % shown, p['value'] == a))
            if p['period_text'] is not None:
                obs.append(('[%s] the stated period is the length of the block' % shown, p['period_text'] == p['block_len']))
        else:
            ulp = zreal(Fraction(1, b ** p['frac_len']))
            obs.append(('[%s] marked exact => denotes the value exactly' % shown, z3.Implies(zbool(exact), p['value'] == a)))
            obs.append(('[%s] not exact => truncation toward zero, error below one unit of the last digit' % shown,
                        z3.Implies(z3.Not(zbool(exact)), z3.And(p['value'] <= a, a < p['value'] + ulp))))
            obs.append(('[%s] a terminating value within the budget is not called approximate' % shown,
                        z3.Implies(z3.Not(zbool(exact)), p['value'] != a)))
        return obs

    def case(self, ctx, vals, label):
        c = Harness.case(self, ctx, vals, label)
        c['inputs']['mode'] = ctx['mode']
        c['inputs']['base'] = self.base
        return c

    def prefer(self, ctx):
        v = ctx['v']
        return [v > 0, z3.IsInt(v * 1000)]

    def native(self, inputs, label):
        v = Fraction(inputs['v'])
        btxt = {2: ' binary', 8: ' octal', 10: '', 16: ' hex'}.get(self.base, ' base %d' % self.base)
        m = inputs['mode']
        dtxt = '' if m == 'Default' else ' digits %s' % m
        return [{'mode': 'query', 'text': '%s ->%s%s' % (frac_text(v), dtxt, btxt) if (dtxt or btxt) else frac_text(v)}]

    def judge(self, inputs, label, obs):
        """parse the numeral rink prints for this value and re-check the same law with exact fractions"""
        import re as _r
        v = Fraction(inputs['v'])
        q = obs[0]
        if q.get('outcome') == 'panic' or q.get('render_panic'):
            return True, 'panic %s' % (q.get('panic') or q.get('render_panic'))
        j = q.get('json') or {}
        parts = j.get('value') if j.get('type') == 'conversion' else j
        if not isinstance(parts, dict):
            return False, 'no numeral in reply %s' % q.get('display')
        ev, av = parts.get('exactValue'), parts.get('approxValue')
        b = self.base
        bad = []
        for txt, is_exact in ((ev, True), (av, False)):
            if txt is None or '/' in txt or 'e' in txt.split('[')[0] and b <= 14:
                continue
            p = parse_numeral([ord(c) for c in txt], b)
            val_ = z3.simplify(p['value'])
            if not z3.is_rational_value(val_):
                continue
            den = Fraction(val_.numerator_as_long(), val_.denominator_as_long())
            if p['neg']:
                den = -den
            if is_exact and den != v:
                bad.append('exact numeral %r denotes %s, value is %s' % (txt, den, v))
            if not is_exact:
                ulp = Fraction(1, b ** p['frac_len'])
                if not (abs(den) <= abs(v) < abs(den) + ulp):
                    bad.append('approximate numeral %r denotes %s, value is %s (ulp %s)' % (txt, den, v, ulp))
            if p['period_text'] not in (None, p['block_len']):
                bad.append('numeral %r states period %s for a block of %d digits' % (txt, p['period_text'], p['block_len']))
        return (bool(bad), '; '.join(bad) or 'printed numerals %r / %r denote %s' % (ev, av, v))


_c05_prev = harnesses


def harnesses(tier):   # noqa: F811
    # DigitPrinter (whole-function exploration of the long division) is not registered: 190 paths / 9 min for the
    # smallest budget and undecided block equations; the loop is decided one iteration at a time instead (below)
    return _c05_prev(tier)


# ============================================================================================================
# The long division of to_digits_impl decided ONE ITERATION AT A TIME (loop-head induction):
#   base case  - the real prologue, from the function entry to the first arrival at the loop head, establishes the
#                state "0 digits produced";
#   step       - from the state "n digits produced" (described by the specification of long division: digits d_0..d_n-1,
#                remainders c_0..c_n, text printed so far, remainders remembered) one real iteration either returns a
#                numeral - which must denote the value - or arrives at the loop head in the state "n+1 digits produced".
# Together: every run of at most N+1 iterations returns a right numeral, without exploring the N-fold product of branches.

LOOP_FN = 'BigRat::to_digits_impl'


def digit_char(d):
    return z3.If(zint(d) < 10, zint(d) + 48, zint(d) + 87)


def loop_head_of(prog):
    fn = prog.lookup(LOOP_FN)
    if fn is None:
        raise Unmodelled('%s not found in the MIR' % LOOP_FN)
    fn.parse()
    need = {'cursor', 'n', 'only_zeros', 'zeros', 'placed_decimal', 'seen_remainders', 'buf', 'intdigits', 'rational', 'sign'}
    if not need <= set(fn.debug):
        raise Unmodelled('to_digits_impl no longer has the loop variables %s' % sorted(need - set(fn.debug)))
    # the `loop {}` head is the back-edge target that lies after all loop variables are initialised: the first one
    # whose block reads `cursor`
    for hd in fn.loop_heads():
        raw = ' '.join(fn.blocks[hd].raw)
        if ('_%d' % fn.debug['cursor'][0]) in raw:
            return fn, hd
    raise Unmodelled('loop head of to_digits_impl not found')


class DigitState:
    """the specification of the state after n iterations, for concrete (sign, intdigits I, n, leading zeros z).
    The value is *defined* from the digits produced so far and the current remainder f in [0,1):
        |v| = (d_0 d_1 ... d_(n-1) . f) * base^(I - n),      c_k = (d_k ... d_(n-1) . f) / base^(n-k)
    which is the same set of states as "any value with these first n digits" but needs no chain of floor constraints.
    `fixed` = (count, digit): the first `count` digits are that concrete digit (very long integer parts)."""

    def __init__(self, ex, I_, base, neg, Ic, n, z, fixed=(0, 0)):
        self.base, self.neg, self.Ic, self.n, self.z = base, neg, Ic, n, z
        nfix, dfix = fixed
        nfix = min(nfix, n)
        f = I_.real('f')
        ex.assume(z3.And(f >= 0, f < 1))
        self.f = f
        self.d = []
        for i in range(n):
            if i < nfix:
                self.d.append(z3.IntVal(dfix))
            else:
                di = I_.int('d%d' % i)
                ex.assume(z3.And(di >= 0, di < base))
                self.d.append(di)
        # c_k, built from the least significant end: c_n = f, c_k = (d_k + c_(k+1)) / base
        self.c = [None] * (n + 1)
        self.c[n] = f
        # only the remainders that the code can see are materialised as terms (k >= Ic, plus c_n); the rest follow
        lo = min(n, Ic)
        for k in range(n - 1, lo - 1, -1):
            self.c[k] = (z3.ToReal(self.d[k]) + self.c[k + 1]) / base
        # |v|
        acc = z3.RealVal(0)
        fixed_val = 0
        for i in range(nfix):
            fixed_val = fixed_val * base + dfix
        acc = z3.RealVal(fixed_val)
        for i in range(nfix, n):
            acc = acc * base + z3.ToReal(self.d[i])
        V = (acc + f) * zreal(Fraction(base) ** (Ic - n))
        self.V = V
        if Ic >= 2:
            ex.assume(V >= zreal(Fraction(base) ** (Ic - 2)))     # digit count over-estimated by at most one
        if neg:
            ex.assume(V > 0)
        for i in range(min(z, n)):
            ex.assume(self.d[i] == 0)
        if z < n:
            ex.assume(self.d[z] != 0)
        # remembered remainders are pairwise distinct (a repeat returns).  That none of them has a period below 10 (the
        # small-period shortcut would have returned) is NOT assumed - it makes every query a hard mixed-integer problem -
        # but used to shape counterexamples (prefer): the pre-state over-approximates the reachable ones
        seen = self.seen_cursors()
        for i_ in range(len(seen)):
            for j_ in range(i_ + 1, len(seen)):
                ex.assume(seen[i_] != seen[j_])

    def seen_cursors(self):
        return [self.c[i] for i in range(self.Ic, self.n)] if self.n > self.Ic else []

    def chars(self):
        out = [ord('-')] if self.neg else []
        for i in range(self.n):
            if i == self.Ic:
                out.append(ord('.'))
            if i >= self.z or i >= self.Ic - 1:
                out.append(digit_char(self.d[i]))
        return out

    def locals(self, ex, mode):
        b = self.base
        seen = SymSet()
        seen.items = [bigrat(x) for x in self.seen_cursors()]
        cs = self.chars()
        buf = ''.join(chr(c) for c in cs) if all(is_conc(c) for c in cs) else SymStr(cs)
        dg = variant(ex, 'Digits', mode) if mode in ('Default', 'FullInt') else variant(ex, 'Digits', 'Digits', [int(mode)])
        v_signed = -self.V if self.neg else self.V
        self.entry_args = [ref(bigrat(v_signed)), b, dg]
        # loop state only: everything loop-invariant (sign, rational, intdigits, constants, hoisted values) comes from the real prologue
        return {'buf': buf, 'cursor': bigrat(self.c[self.n]), 'n': self.n, 'only_zeros': self.z >= self.n,
                'zeros': min(self.z, self.n), 'placed_decimal': self.n > self.Ic, 'seen_remainders': seen}


def text_chars(text):
    text = deref_all(text)
    if isinstance(text, str):
        return [ord(c) for c in text]
    if isinstance(text, SymStr):
        return list(text.chars)
    return None


def _compress_runs(t):
    import re as _r
    return _r.sub(r'([0-9a-z])\1{15,}', lambda m: '%s{%d}' % (m.group(1), len(m.group(0))), t)


def numeral_obligations(chars, exact, V, b):
    shown = _compress_runs(''.join(chr(c) if is_conc(c) else 'd' for c in chars))
    p = parse_numeral([c for c in chars if not (is_conc(c) and c == ord('-'))] if False else chars, b)
    obs = [('[%s] every digit is a digit of base %d' % (shown, b), p['valid'])]
    if p['block_len'] > 0:
        obs.append(('[%s] a numeral with a recurring block is marked exact' % shown, exact))
        obs.append(('[%s] the recurring numeral denotes the value exactly' % shown, p['value'] == V))
        if p['period_text'] is not None:
            obs.append(('[%s] the stated period is the length of the block' % shown, p['period_text'] == p['block_len']))
    else:
        ulp = zreal(Fraction(1, b ** p['frac_len']))
        obs.append(('[%s] marked exact => denotes the value exactly' % shown, z3.Implies(zbool(exact), p['value'] == V)))
        obs.append(('[%s] not exact => truncation toward zero, error below one unit of the last digit' % shown,
                    z3.Implies(z3.Not(zbool(exact)), z3.And(p['value'] <= V, V < p['value'] + ulp))))
        obs.append(('[%s] a terminating value within the budget is not called approximate' % shown,
                    z3.Implies(z3.Not(zbool(exact)), p['value'] != V)))
    return obs, p


class DigitLoopStep(Harness):
    props = ('C05', 'C04')
    stubs = ((r'^BigInt::size_in_base$', stub_size_in_base, 'BigInt::size_in_base -> true digit count or one more (arithmetic contract of the f64 formula)'),
             (r'^BigRat::is_recurring$', stub_is_recurring, 'BigRat::is_recurring -> its contract (decided on the real function by bigrat.is_recurring)'))
    loop_bound = 14
    max_paths = 60000
    _concrete = None

    def __init__(self, base, modes, Ics, N, zs=None, max_block=9, tag='', ns=None, fixed=(0, 0)):
        self.base, self.modes, self.Ics, self.N, self.zs, self.max_block = base, modes, Ics, N, zs, max_block
        self.ns, self.fixed = ns, fixed
        self.name = 'bigrat.to_digits_impl.loop_step.base%d.int%s%s' % (base, '_'.join(str(i) for i in Ics), '.' + tag if tag else '')
        self.entry_name = 'BigRat::to_digits_impl: one iteration of its loop from the loop head'
        self.describe = ('one real iteration of the long-division loop from the specified state "n digits produced" (n <= %d, integer-digit '
                         'estimates %s, any number of leading zeros, either sign, digit budgets %s, base %d): it returns a numeral that denotes the '
                         'value (exact / recurring / truncated), or arrives at the loop head in the specified state "n+1 digits produced"') % (
            N, Ics, modes, base)
        self.bounds = ['digits produced before the iteration: %s' % (ns if ns is not None else 'at most %d' % N), 'intdigits in %s' % (Ics,), 'digit budgets %s' % (modes,),
                       ('the first %d digits are the digit %d' % fixed) if fixed[0] else 'all digits symbolic',
                       'leading zero digits: %s' % ('any number' if zs is None else 'one of %s, or all digits so far' % (zs,)),
                       'recurring blocks reported by the small-period shortcut: at most %d digits' % max_block]
        self.assumptions = ['pre-state = specification of long division after n steps (digits d_i = floor(base * c_i), remainders c_i in [0,1), '
                            'remembered remainders pairwise distinct; an over-approximation of the reachable states); reachability of the pre-state is established by the base-case harness '
                            'and by this step itself (induction on n)']
        self.expect_classes = ['return', 'loop-head']

    def build(self, ex, I):
        b = self.base
        mode = self.modes[ex.choose(len(self.modes), 'digits mode')]
        neg = ex.choose(2, 'negative')
        Ic = self.Ics[ex.choose(len(self.Ics), 'intdigits')]
        ns = self.ns if self.ns is not None else list(range(self.N + 1))
        n = ns[ex.choose(len(ns), 'digits produced so far')]
        zopts = list(range(n + 1)) if self.zs is None else sorted(set(min(zz, n) for zz in self.zs) | ({n} if self.fixed[0] == 0 else set()))
        z = zopts[ex.choose(len(zopts), 'leading zero digits')]
        ex.env['max_block'] = self.max_block
        st = DigitState(ex, I, b, neg, Ic, n, z, fixed=self.fixed)
        # the previous iteration did not run out of budget (it would have returned): (n-1) - zeros <= max(intdigits, ndigits)
        ndig = 6 if mode == 'Default' else (1000 if mode == 'FullInt' else Ic + int(mode))
        if n >= 1 and (n - 1) - min(z, n - 1) > max(Ic, ndig):
            ex.assume(z3.BoolVal(False))
        fn, head = loop_head_of(ex.prog)
        ex.env['force_intdigits'] = Ic
        return [fn, head, st.locals(ex, mode)], {'st': st, 'mode': mode}

    def entry(self, ex, args, ctx):
        fn, head, loc = args
        kind, r = ex.exec_loop_entry(fn, head, locals_by_name=loc, from_entry_args=ctx['st'].entry_args)
        ctx['kind'] = kind
        return Tup([kind, r]) if kind == 'return' else r

    def classify(self, outcome):
        if outcome[0] == 'panic':
            return 'panic'
        return 'loop-head' if isinstance(outcome[1], dict) else 'return'

    def post(self, ex, ctx, outcome):
        st = ctx['st']
        b, n, Ic, z = st.base, st.n, st.Ic, st.z
        if not isinstance(outcome[1], dict):
            t = deref_all(deref_all(outcome[1]).fields[1])
            exact, text = t.fields[0], t.fields[1]
            chars = text_chars(text)
            if chars is None:
                return [('the numeral is a string of digits', False)]
            has_minus = bool(chars) and is_conc(chars[0]) and chars[0] == ord('-')
            obs, p = numeral_obligations(chars, exact, st.V, b)
            obs.append(('a minus sign iff the value is negative', has_minus == bool(st.neg)))
            return obs
        s2 = outcome[1]
        cur2 = zreal(deref_all(s2['cursor']).fields[0])
        dnew = st.c[n] * b - cur2                     # the digit this iteration produced
        only_zeros = z >= n
        obs = [('next remainder = base * remainder - digit with an integer digit', z3.IsInt(dnew)),
               ('next remainder lies in [0, 1)', z3.And(cur2 >= 0, cur2 < 1)),
               ('n advances by one', n_eq(s2['n'], n + 1)),
               ('intdigits, value and sign are untouched', b_and(n_eq(s2['intdigits'], Ic), b_and(n_eq(deref_all(s2['rational']).fields[0], st.V), s2['sign'] == bool(st.neg)))),
               ('radix point placed from the iteration n = intdigits on', s2['placed_decimal'] == (n >= Ic))]
        dz = dnew == 0
        if only_zeros:
            obs.append(('leading-zero bookkeeping: only_zeros', zbool(s2['only_zeros']) == dz))
            obs.append(('leading-zero bookkeeping: zeros', zint(s2['zeros']) == z3.If(dz, z + 1, z)))
        else:
            obs.append(('leading-zero bookkeeping unchanged after a non-zero digit', b_and(s2['only_zeros'] is False or simp(s2['only_zeros']) is False, n_eq(s2['zeros'], min(z, n)))))
        # text
        chars2 = text_chars(s2['buf'])
        want = st.chars() + ([ord('.')] if n == Ic else [])
        if chars2 is None:
            obs.append(('text so far is a string', False))
        else:
            pushed = len(chars2) == len(want) + 1
            if len(chars2) not in (len(want), len(want) + 1):
                obs.append(('text grows by at most a radix point and one digit', False))
            else:
                same = z3.And(*[zint(a) == zint(c) for a, c in zip(chars2, want)]) if want else z3.BoolVal(True)
                obs.append(('text printed so far is kept, radix point at the iteration n = intdigits', same))
                must = z3.BoolVal(True) if (not only_zeros or n >= Ic - 1) else z3.Not(dz)
                obs.append(('the digit is printed unless it is a leading zero left of the units place', z3.BoolVal(pushed) == must))
                if pushed:
                    obs.append(('the printed character is the digit', zint(chars2[-1]) == digit_char(z3.ToInt(dnew))))
        # remembered remainders
        items = [zreal(deref_all(x).fields[0]) for x in deref_all(s2['seen_remainders']).items]
        want_seen = st.seen_cursors() + ([st.c[n]] if n >= Ic else [])
        obs.append(('remainders are remembered from the first fraction digit on, in order',
                    len(items) == len(want_seen) and (z3.And(*[a == c for a, c in zip(items, want_seen)]) if items else True)))
        return obs

    def case(self, ctx, vals, label):
        c = Harness.case(self, ctx, vals, label)
        st = ctx['st']
        c['inputs'].update({'mode': ctx['mode'], 'base': st.base, 'negative': bool(st.neg), 'intdigits': st.Ic, 'n': st.n, 'z': st.z})
        # the value the state describes: (digits . f) * base^(I - n)
        acc = Fraction(0)
        for i in range(st.n):
            di = c['inputs'].get('d%d' % i)
            acc = acc * st.base + (int(di) if di is not None else self.fixed[1])
        v = (acc + Fraction(c['inputs'].get('f', 0))) * Fraction(st.base) ** (st.Ic - st.n)
        c['inputs']['v'] = '%d/%d' % (v.numerator, v.denominator)
        return c

    def prefer(self, ctx):
        st = ctx['st']
        out = []
        for ck in st.seen_cursors() + [st.c[st.n]]:
            out.append(z3.And(*[z3.Not(z3.IsInt(ck * (st.base ** p_ - 1))) for p_ in range(1, 10)]))
        return out

    def native(self, inputs, label):
        v = Fraction(inputs['v'])
        if inputs.get('negative'):
            v = -v
        m = inputs['mode']
        return [{'mode': 'rat_to_string', 'fn': 'to_string', 'v': '%d/%d' % (v.numerator, v.denominator), 'base': int(inputs['base']),
                 'digits': m if m in ('Default', 'FullInt') else str(m)}] + (
            [{'mode': 'query', 'text': frac_text(v)}] if m == 'Default' and int(inputs['base']) == 10 else [])

    def judge(self, inputs, label, obs):
        v = Fraction(inputs['v'])
        if inputs.get('negative'):
            v = -v
        bad = []
        o = obs[0]
        if o.get('outcome') != 'ok':
            return True, 'to_string: %s %s' % (o.get('outcome'), o.get('panic', ''))
        pr = numeral_problem(o['text'], o['exact'], v, int(inputs['base']), sci=False)
        if pr:
            bad.append(pr)
        for q in obs[1:]:
            if q.get('outcome') == 'panic' or q.get('render_panic'):
                bad.append('`%s` panics: %s' % (frac_text(v), q.get('panic') or q.get('render_panic')))
        return bool(bad), '; '.join(bad) or 'to_string(%s) = %r denotes the value' % (v, o['text'])


class DigitLoopBase(Harness):
    """base case: the real prologue of to_digits_impl up to the first arrival at the loop head"""
    props = ('C05', 'C04')
    stubs = DigitLoopStep.stubs
    loop_bound = 14
    _concrete = None

    def __init__(self, base):
        self.base = base
        self.name = 'bigrat.to_digits_impl.loop_entry.base%d' % base
        self.entry_name = 'BigRat::to_digits_impl: entry to loop head'
        self.describe = 'the prologue of to_digits_impl on an arbitrary rational below base^3 establishes the state "0 digits produced" the step harness starts from'
        self.bounds = ['|value| < base^3']
        self.expect_classes = ['loop-head']

    def build(self, ex, I):
        v = I.real('v')
        b = self.base
        a = z3.If(v >= 0, v, -v)
        ex.assume(a < b ** 3)
        mode = ['Default', '2'][ex.choose(2, 'digits mode')]
        dg = variant(ex, 'Digits', 'Default') if mode == 'Default' else variant(ex, 'Digits', 'Digits', [2])
        fn, head = loop_head_of(ex.prog)
        return [fn, head, [ref(bigrat(v)), b, dg]], {'v': v, 'a': a}

    def entry(self, ex, args, ctx):
        fn, head, a = args
        kind, r = ex.exec_loop_entry(fn, head, from_entry_args=a)
        return r if kind == 'head' else Tup([kind, r])

    def classify(self, outcome):
        if outcome[0] == 'panic':
            return 'panic'
        return 'loop-head' if isinstance(outcome[1], dict) else 'return'

    def post(self, ex, ctx, outcome):
        if not isinstance(outcome[1], dict):
            return [('the prologue reaches the loop', False)]
        s = outcome[1]
        b, v, a = self.base, ctx['v'], ctx['a']
        Ic = s['intdigits']
        if not is_conc(simp(Ic)):
            return [('intdigits is decided by the digit-count stub', False)]
        Ic = int(simp(Ic))
        chars = text_chars(s['buf'])
        neg = bool(chars) and chars == [ord('-')]
        seen = deref_all(s['seen_remainders'])
        return [('value below base^intdigits (digit count never under-estimated)', a < b ** Ic),
                ('digit count over-estimated by at most one', a >= zreal(Fraction(b) ** (Ic - 2)) if Ic >= 2 else True),
                ('first remainder = |value| / base^intdigits', zreal(deref_all(s['cursor']).fields[0]) == a / (b ** Ic)),
                ('rational = |value|', zreal(deref_all(s['rational']).fields[0]) == a),
                ('text is the sign only', (chars == [] and True) or neg), ('minus sign iff negative', z3.BoolVal(neg) == (v < 0)),
                ('sign flag', zbool(s['sign']) == (v < 0)),
                ('counters start at zero', b_and(n_eq(s['n'], 0), b_and(n_eq(s['zeros'], 0), b_and(s['only_zeros'] is True or simp(s['only_zeros']) is True,
                                                                                              s['placed_decimal'] is False or simp(s['placed_decimal']) is False)))),
                ('no remainder remembered yet', len(seen.items) == 0)]

    def native(self, inputs, label):
        return []

    def judge(self, inputs, label, obs):
        return False, 'prologue state (no native form)'


_c05_prev3 = harnesses


def harnesses(tier):   # noqa: F811
    hs = _c05_prev3(tier)
    hs.append(DigitLoopBase(10))
    if tier == 'quick':
        hs += [DigitLoopStep(10, ['Default', '2'], [1], 8, zs=[0, 1]), DigitLoopStep(10, ['Default', '2'], [2], 8, zs=[0, 1]),
               DigitLoopStep(10, ['12'], [1], 13, zs=[0], tag='deep'),
               DigitLoopStep(10, ['FullInt'], [1002], 1003, zs=[0], ns=[999, 1000, 1001, 1002], fixed=(995, 1), tag='long')]
    else:
        hs += [DigitLoopBase(2), DigitLoopBase(16)]
        for Ic in (1, 2, 3):
            hs.append(DigitLoopStep(10, ['Default', '0', '3', '12'], [Ic], 14))
        hs += [DigitLoopStep(2, ['Default', '2'], [1, 2], 10), DigitLoopStep(16, ['Default', '2'], [1, 2], 5, max_block=4),
               DigitLoopStep(10, ['FullInt'], [1002], 1003, zs=[0], ns=[999, 1000, 1001, 1002], fixed=(995, 1), tag='long'),
               DigitLoopStep(10, ['FullInt'], [1001, 1003], 1004, zs=[0], ns=[998, 999, 1000, 1001, 1002, 1003], fixed=(994, 7), tag='long2')]
    return hs


# --------------------------------------------------------------------------------------------------------------
# Concrete companion + translator validation for the digit loop: the WHOLE real to_digits_impl (real is_recurring, the
# IndexSet model, the lazy-numerator and digit-string shortcuts of the executor) interpreted on a finite list of values
# and compared (a) with the exact oracle and (b) with the natively compiled function.  No symbolic variable: this does not
# decide anything for "all values"; it guards the models the step harness relies on.

COMPANION_VALUES = [Fraction(n, d) for n, d in ((1, 3), (1, 7), (22, 7), (1, 34), (1, 68), (3, 76), (1, 17), (1200, 3937), (5, 8), (1, 1024),
                                                  (123456, 1000), (999999, 1000), (1, 9990), (1, 81), (10, 3), (100, 3), (7, 12), (1, 13), (2, 3),
                                                  (99, 100), (1, 1000), (1001, 1000), (50, 1), (7, 1), (0, 1), (1, 6), (5, 6), (1, 22), (355, 113))]


class DigitPrinterCompanion(Harness):
    name = 'bigrat.to_digits_impl.concrete_companion'
    props = ('C05',)
    entry = 'BigRat::to_digits_impl'
    stubs = ((r'^BigInt::size_in_base$', stub_size_in_base, 'BigInt::size_in_base -> true digit count (concrete values)'),)
    loop_bound = 1200
    max_paths = 4000
    _concrete = None
    MODES = ['Default', '2', '12', '30']

    def __init__(self, bases):
        self.bases = bases
        self.describe = ('concrete companion (no symbolic variable): the whole real to_digits_impl, with the real is_recurring, interpreted on %d '
                         'values x %d digit budgets x bases %s x both signs; each numeral is re-read with exact fractions') % (
            len(COMPANION_VALUES), len(self.MODES), bases)
        self.bounds = ['finite list of values: %s' % ', '.join(str(v) for v in COMPANION_VALUES)]
        self.expect_classes = ['return']

    def build(self, ex, I):
        if self._concrete is not None:
            v = Fraction(self._concrete['v'])
            base = int(self._concrete['base'])
            mode = self._concrete['mode']
        else:
            v = COMPANION_VALUES[ex.choose(len(COMPANION_VALUES), 'value')]
            if ex.choose(2, 'negative'):
                v = -v
            base = self.bases[ex.choose(len(self.bases), 'base')]
            mode = self.MODES[ex.choose(len(self.MODES), 'digit budget')]
        ex.env['force_intdigits'] = None
        dg = variant(ex, 'Digits', 'Default') if mode == 'Default' else variant(ex, 'Digits', 'Digits', [int(mode)])
        return [ref(bigrat(v)), base, dg], {'v': v, 'base': base, 'mode': mode}

    def post(self, ex, ctx, outcome):
        t = deref_all(outcome[1])
        exact, text = t.fields[0], deref_all(t.fields[1])
        if not isinstance(text, str):
            return [('the numeral for a concrete value is concrete text', False)]
        ex_flag = simp(exact) if is_z3(exact) else exact
        pr = numeral_problem(text, bool(ex_flag), ctx['v'], ctx['base'], sci=False)
        return [('to_digits_impl(%s, base %d, %s) = %r denotes the value%s' % (ctx['v'], ctx['base'], ctx['mode'], text, '' if pr is None else ': ' + pr), pr is None)]

    def case(self, ctx, vals, label):
        c = Harness.case(self, ctx, vals, label)
        c['inputs'].update({'v': str(ctx['v']), 'base': ctx['base'], 'mode': ctx['mode']})
        return c

    def native(self, inputs, label):
        v = Fraction(inputs['v'])
        return [{'mode': 'rat_to_string', 'fn': 'to_string', 'v': '%d/%d' % (v.numerator, v.denominator), 'base': int(inputs['base']),
                 'digits': inputs['mode'] if inputs['mode'] == 'Default' else str(inputs['mode'])}]

    def judge(self, inputs, label, obs):
        o = obs[0]
        if o.get('outcome') != 'ok':
            return True, 'to_string: %s %s' % (o.get('outcome'), o.get('panic', ''))
        pr = numeral_problem(o['text'], o['exact'], Fraction(inputs['v']), int(inputs['base']), sci=None)
        return (pr is not None), pr or 'numeral %r denotes the value' % o['text']

    def vectors(self, rng):
        out = []
        for _ in range(24):
            v = rng.choice(COMPANION_VALUES) * rng.choice([1, -1])
            # keep to values that to_string hands to to_digits_impl directly (no scientific notation, not zero)
            if v == 0:
                continue
            out.append({'v': v, 'base': rng.choice(self.bases), 'mode': rng.choice(['2', '12', '30'])})
        return out

    def agree(self, vec, outcome, o):
        t = deref_all(outcome[1])
        text = deref_all(t.fields[1])
        exact = t.fields[0]
        exact = bool(simp(exact)) if is_z3(exact) else bool(exact)
        if o.get('outcome') != 'ok':
            return False, 'native: %s' % o
        return (text == o['text'] and exact == o['exact']), 'MIR (%s, %r) native (%s, %r)' % (exact, text, o['exact'], o['text'])


_c05_prev4 = harnesses


def harnesses(tier):   # noqa: F811
    return _c05_prev4(tier) + [DigitPrinterCompanion([10] if tier == 'quick' else [2, 10, 16])]


# --------------------------------------------------------------------------------------------------------------
# The wrappers between the digit printer and a reply: Number::numeric_value and Number::to_parts_digits must hand the
# printer's verdict on unchanged (a numeral in the exact slot is one the printer called exact, in the base that was asked
# for) and must keep the value itself in `raw_value` - `ans`, JSON consumers and unit lists read it from there.

def _stub_string_repr(ex, nc, args):
    k = ex.env['printer_verdict']
    ex.env['printer_args'] = (args[1], deref_all(args[2]))
    e = some(ex, 'PRINTER-EXACT') if k in (0, 2) else none(ex)
    a = some(ex, 'PRINTER-APPROX') if k in (1, 2) else none(ex)
    return Tup([e, a])


def _stub_same_number(ex, nc, args):
    return dup(deref_all(args[0]))


class PartsCarryValue(Harness):
    name = 'number.to_parts_digits.carries_value_and_markers'
    props = ('C05', 'C15', 'C06')
    entry = 'types::number::Number::to_parts_digits'
    loop_bound = 12
    _concrete = None
    describe = ('Number::to_parts_digits (and numeric_value inside it) on an arbitrary rational or float - NaN and the infinities included - for '
                'bases 10 / 16 / 7 and two digit modes, with the digit printer replaced by an arbitrary verdict: the exact and approximate slots of '
                'the reply are the printer\'s, asked in the requested base and mode, and raw_value is the number itself')
    stubs = ((r'^Numeric::string_repr$', _stub_string_repr, 'Numeric::string_repr -> an arbitrary (exact?, approx?) pair, arguments recorded'),
             (r'^Number::(prettify|with_pretty_unit)$', _stub_same_number, 'Number::prettify / with_pretty_unit -> the number unchanged (display units are C06\'s other harnesses)'),
             (r'^Number::unit_to_string$', lambda ex, nc, a: 'unit text', 'Number::unit_to_string -> opaque text'))
    bounds = ['bases 10, 16, 7; Digits::Default and Digits::FullInt; display-unit choice stubbed to the identity']
    expect_classes = ['return']

    def build(self, ex, I):
        kind = ['rational', 'float', 'nan', 'inf'][ex.choose(4, 'value kind')]
        v = I.real('v')
        if kind == 'rational':
            num = rational(v)
        else:
            num = floatnum(F64(v, kind == 'nan', kind == 'inf'))
        n = number(num, dim({'m': (True, 1)}))
        base = [10, 16, 7][ex.choose(3, 'base')]
        dg = ['Default', 'FullInt'][ex.choose(2, 'digits mode')]
        ex.env['printer_verdict'] = ex.choose(3, 'printer verdict: exact / approx / both')
        ex.env['printer_args'] = None
        reg = make_struct(ex, 'Registry', {'quantities': MapV()})
        ctxv = make_struct(ex, 'Context', {'registry': reg, 'temporaries': MapV(), 'previous_result': none(ex)})
        return [ref(n), ref(ctxv), base, variant(ex, 'Digits', dg)], {'v': v, 'kind': kind, 'base': base, 'dg': dg, 'n': n}

    def post(self, ex, ctx, outcome):
        p = deref_all(outcome[1])
        f = ex.prog.src.structs['NumberParts']
        k = ex.env['printer_verdict']
        e, a = deref_all(p.fields[f.index('exact_value')]), deref_all(p.fields[f.index('approx_value')])
        raw = deref_all(p.fields[f.index('raw_value')])
        obs = [('raw_value is present (a %s value)' % ctx['kind'], raw.variant == 1)]
        if raw.variant == 1:
            val, d = number_parts(raw.fields[0])
            kind, x = numeric_parts(val)
            if ctx['kind'] == 'rational':
                obs.append(('raw_value is the number itself', kind == 'rational' and n_eq(x, ctx['v'])))
            else:
                obs.append(('raw_value is the number itself', kind != 'rational'))
        pa = ex.env.get('printer_args')
        obs.append(('the printer is asked once, in the requested base and mode',
                    pa is not None and is_conc(simp(pa[0])) and int(simp(pa[0])) == ctx['base'] and getattr(pa[1], 'vname', None) == ctx['dg']))
        want_e, want_a = k in (0, 2), k in (1, 2)
        obs.append(('the exact slot holds exactly what the printer called exact',
                    (e.variant == 1) == want_e and (e.variant == 0 or deref_all(e.fields[0]) == 'PRINTER-EXACT')))
        obs.append(('the approximate slot holds exactly what the printer called approximate',
                    (a.variant == 1) == want_a and (a.variant == 0 or deref_all(a.fields[0]) == 'PRINTER-APPROX')))
        return obs

    def case(self, ctx, vals, label):
        c = Harness.case(self, ctx, vals, label)
        c['inputs'].update({'kind': ctx['kind'], 'base': ctx['base'], 'digits': ctx['dg']})
        return c

    PROBES = [('1/23 -> hex', 16), ('1/23 -> base 7', 7), ('1/3 -> hex', 16), ('(1/23) meter -> base 7 meter', 7), ('1/23', 10), ('22/7 -> digits -> hex', 16)]
    NONFINITE = ['ln(0)', 'asin(2)', 'exp(1000)', '-exp(1000)']

    def native(self, inputs, label):
        return ([{'mode': 'query', 'text': t} for t, _ in self.PROBES] + [{'mode': 'query', 'text': t} for t in self.NONFINITE]
                + [{'mode': 'query', 'save_previous_result': True, 'pre': ['7', 'ln(0)'], 'text': 'ans'}])

    def judge(self, inputs, label, obs):
        import re as _r
        bad = []
        for (t, base), o in zip(self.PROBES, obs):
            if o.get('outcome') == 'panic' or o.get('render_panic'):
                bad.append('`%s` panics' % t)
                continue
            j = o.get('json') or {}
            parts = j.get('value') if j.get('type') == 'conversion' else j
            raw = obs_number_json(o)
            if not isinstance(parts, dict) or raw is None:
                continue
            ev, av = parts.get('exactValue'), parts.get('approxValue')
            if ev is None or _r.match(r'^-?\d+/\d+$', ev):
                continue
            v = raw[0]
            if t.startswith('(1/23) meter'):
                v = Fraction(1, 23)
            pr = numeral_problem(ev, True, v, base, sci=None)
            if pr is not None:
                bad.append('`%s` shows %s in the exact slot (%s): %s' % (t, ev, 'no approx. marker' if av is None else 'with an approximate companion', pr))
        off = len(self.PROBES)
        for t, o in zip(self.NONFINITE, obs[off:]):
            j = o.get('json') or {}
            if o.get('outcome') == 'ok' and j.get('type') == 'number' and not j.get('rawValue'):
                bad.append('`%s` = %s carries no raw value' % (t, o.get('display')))
        last = obs[-1]
        if last.get('outcome') == 'ok' and 'Inf' not in str(last.get('display')):
            bad.append('history [7; ln(0); ans] answers %s: `ans` is not the most recent numeric result' % last.get('display'))
        return bool(bad), '; '.join(bad[:3]) or 'numerals in the exact slot denote the value in their base; non-finite results keep their raw value'


_c05_prev5 = harnesses


def harnesses(tier):   # noqa: F811
    return _c05_prev5(tier) + [PartsCarryValue()]


# --------------------------------------------------------------------------------------------------------------
# BigRat::to_string chooses between the two printers; whatever it does with their text, the numeral it hands on must
# still be a correct numeral for the value - in bases above 14 the letter `e` is a digit as well as the exponent marker.

def _stub_printer(which):
    def f(ex, nc, args):
        ex.env['printer_used'] = which
        flag, text = ex.env['printer_out']
        return Tup([flag, text])
    return f


class ToStringDispatch(Harness):
    name = 'bigrat.to_string.hands_on_a_correct_numeral'
    props = ('C05',)
    entry = 'BigRat::to_string'
    loop_bound = 200
    _concrete = None
    describe = ('concrete companion (no symbolic variable): BigRat::to_string on values whose scientific numerals contain the digit `e`, zeros '
                'before it and an exponent (bases 15, 16, 36) or zero padding (base 10), the two printers replaced by the correct numeral for the '
                'value: the text handed on is still a correct numeral for the value (exact, or a truncation below one unit of its last digit)')
    bounds = ['a fixed list of (base, value, numeral) triples']
    expect_classes = ['return']
    stubs = ((r'^BigRat::to_scientific$', _stub_printer('sci'), 'BigRat::to_scientific -> the correct numeral of the chosen value'),
             (r'^BigRat::to_digits_impl$', _stub_printer('digits'), 'BigRat::to_digits_impl -> the correct numeral of the chosen value'))
    CASES = [(15, Fraction(15 ** 10 + 14 * 15 ** 7 + 1), False, '1.00e000e10'),
             (16, Fraction(0x100e5a3f1 * 16 ** 4) + Fraction(1, 3), False, '1.00e5a3e12'),
             (36, Fraction(36 ** 9 + 14 * 36 ** 6 + 5), False, '1.00e000e9'),
             (10, Fraction(10 ** 100 + 1), False, '1.000000e100'),
             (10, Fraction(1234567891011), False, '1.234567e12'),
             (15, Fraction(14 * 15 ** 10), True, 'e.0e10'),
             (15, Fraction(1, 15 ** 12) * 14, True, 'e.0e-12')]

    def build(self, ex, I):
        base, v, exact, text = self.CASES[ex.choose(len(self.CASES), 'case')]
        assert numeral_problem(text, exact, v, base, sci=True) is None, (base, v, text)
        ex.env['printer_out'] = (exact, text)
        ex.env['printer_used'] = None
        return [ref(bigrat(v)), base, variant(ex, 'Digits', 'Default')], {'base': base, 'v': v, 'exact': exact, 'text': text}

    def post(self, ex, ctx, outcome):
        t = deref_all(outcome[1])
        flag, text = t.fields[0], deref_all(t.fields[1])
        flag = simp(flag) if is_z3(flag) else flag
        if not isinstance(text, str) or not isinstance(flag, bool):
            return [('the numeral handed on is concrete text', False)]
        pr = numeral_problem(text, flag, ctx['v'], ctx['base'], sci=(ex.env.get('printer_used') == 'sci'))
        return [('to_string(%s, base %d) hands on %r (printer said %r): a correct numeral%s' % (ctx['v'], ctx['base'], text, ctx['text'], '' if pr is None else ' - ' + pr), pr is None)]

    def case(self, ctx, vals, label):
        c = Harness.case(self, ctx, vals, label)
        c['inputs'].update({'v': str(ctx['v']), 'base': ctx['base']})
        return c

    def native(self, inputs, label):
        v = Fraction(inputs['v'])
        return [{'mode': 'rat_to_string', 'fn': 'to_string', 'v': '%d/%d' % (v.numerator, v.denominator), 'base': int(inputs['base']), 'digits': 'Default'}]

    def judge(self, inputs, label, obs):
        o = obs[0]
        if o.get('outcome') != 'ok':
            return True, 'to_string: %s %s' % (o.get('outcome'), o.get('panic', ''))
        pr = numeral_problem(o['text'], o['exact'], Fraction(inputs['v']), int(inputs['base']), sci=None)
        return (pr is not None), pr or 'numeral %r denotes the value' % o['text']


_c05_prev6 = harnesses


def harnesses(tier):   # noqa: F811
    return _c05_prev6(tier) + [ToStringDispatch()]
