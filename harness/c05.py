"""C05 (reduced): exponent normalisation in to_scientific, the small-period recurring shortcut, exact/approx marking.
The long-division loop `to_digits_impl` is OUTSIDE (f64 ln digit budget, value-dependent trip count, remainder set)."""
import z3
from .common import *  # noqa

BASES = [2, 8, 10, 16, 36]
MODES = ['Default', 'Scientific', 'Engineering']


def stub_to_digits_impl(ex, nc, args):
    """records the mantissa it is asked to print; returns an arbitrary exactness flag and a concrete marker text"""
    ex.env['mantissa'] = deref_all(args[0]).fields[0]
    ex.env['mantissa_base'] = args[1]
    flag = ex.fresh('digits_exact', 'Bool')
    ex.env['digits_exact'] = flag
    return Tup([flag, 'M'])


class Scientific(Harness):
    props = ('C05', 'C04')
    entry = 'BigRat::to_scientific'
    stubs = ((r'^BigRat::to_digits_impl$', stub_to_digits_impl, 'BigRat::to_digits_impl -> records its receiver (the mantissa), returns (arbitrary bool, "M")'),)
    loop_bound = 12
    _concrete = None

    def __init__(self, span):
        self.span = span
        self.name = 'bigrat.to_scientific'
        self.describe = 'BigRat::to_scientific for bases %s x modes %s, |value| within [base^-%d, base^%d]: mantissa handed to the digit printer times base^exponent printed' % (BASES, MODES, span, span)
        self.bounds = ['|value| in [base^-%d, base^%d] (next_power_of loop unrolled %d times)' % (span, span, span + 2)]
        self.expect_classes = ['return']

    def build(self, ex, I):
        v = I.real('v')
        base = BASES[ex.choose(len(BASES), 'base')]
        mode = MODES[ex.choose(len(MODES), 'mode')]
        lo, hi = Fraction(1, base ** self.span), Fraction(base ** self.span)
        a = z3.If(v >= 0, v, -v)
        ex.assume(z3.And(a >= zreal(lo), a <= zreal(hi)))
        return [ref(bigrat(v)), base, variant(ex, 'Digits', mode)], {'v': v, 'base': base, 'mode': mode}

    def post(self, ex, ctx, outcome):
        v, base, mode = zreal(ctx['v']), ctx['base'], ctx['mode']
        t = deref_all(outcome[1])
        text = deref_all(t.fields[1])
        m = ex.env.get('mantissa')
        if m is None or not isinstance(text, str):
            return [('to_scientific prints a mantissa and an exponent', False)]
        mt, _, et = text.partition('e')
        try:
            e = int(et)
        except ValueError:
            return [('exponent is a decimal integer (got %r)' % text, False)]
        obs = [('mantissa * base^exponent = value', zreal(m) * zreal(Fraction(base) ** e) == v),
               ('exactness flag is the digit printer\'s', n_eq(t.fields[0], ex.env['digits_exact'])),
               ('mantissa text is kept and gets a radix point', mt == 'M.0')]
        if mode == 'Engineering':
            obs.append(('engineering exponent is a multiple of 3', e % 3 == 0))
        return obs

    def case(self, ctx, vals, label):
        c = Harness.case(self, ctx, vals, label)
        c['inputs']['base'] = ctx['base']
        c['inputs']['mode'] = ctx['mode']
        return c

    def native(self, inputs, label):
        v = Fraction(inputs['v'])
        base = int(inputs['base'])
        mode = inputs['mode'].lower()
        suffix = {'default': '', 'scientific': ' scientific', 'engineering': ' engineering'}[mode]
        btxt = {2: ' binary', 8: ' octal', 10: '', 16: ' hex', 36: ' base 36'}[base]
        return [{'mode': 'query', 'text': '%s ->%s%s' % (frac_text(v), btxt, suffix)}]

    def judge(self, inputs, label, obs):
        return 'kernel-only', 'display: %s' % obs[0].get('display')


class Recurring(Harness):
    props = ('C05', 'C04')
    entry = 'BigRat::is_recurring'
    loop_bound = 14
    _concrete = None

    def __init__(self, bases=BASES):
        self.bases = bases
        self.name = 'bigrat.is_recurring'
        self.describe = 'BigRat::is_recurring(base, max_period) on a remainder 0 <= n/d < 1 with i64 parts, bases %s, max_period 4 and 10' % (bases,)
        self.assumptions = ['receiver is a long-division remainder: 0 <= n/d < 1']
        self.expect_classes = ['Option::Some', 'Option::None']

    def build(self, ex, I):
        n = I.int('n', 'i64')
        d = I.int('d', 'i64')
        ex.assume(z3.And(d >= 1, n >= 0, n < d))
        base = self.bases[ex.choose(len(self.bases), 'base')]
        mp = [4, 10][ex.choose(2, 'max_period')]
        v = I.real('r')
        ex.assume(v * z3.ToReal(d) == z3.ToReal(n))
        # the receiver's numer()/denom() are handed out as n and d directly (the function does not depend on
        # the fraction being in lowest terms: digits / (base^p - 1) = n / d either way)
        ex.memo[('parts', v.get_id())] = (n, d)
        return [ref(bigrat(v)), base, mp], {'n': n, 'd': d, 'base': base, 'mp': mp, 'v': v}

    def post(self, ex, ctx, outcome):
        base, mp, v = ctx['base'], ctx['mp'], ctx['v']
        r = deref_all(outcome[1])
        if is_none(r):
            return []
        tup = deref_all(payload(r))
        digits, period = tup.fields
        period = int(simp(period))
        return [('period is within the requested bound', 1 <= period < mp),
                ('bracketed digits denote the remainder: digits / (base^period - 1) = r', zreal(digits) == v * (base ** period - 1)),
                ('the block has exactly `period` digits', z3.And(zint(digits) >= 0, zint(digits) < base ** period))]

    def case(self, ctx, vals, label):
        c = Harness.case(self, ctx, vals, label)
        c['inputs']['base'] = ctx['base']
        c['inputs']['max_period'] = ctx['mp']
        return c

    def native(self, inputs, label):
        n, d = int(inputs['n']), int(inputs['d'])
        base = int(inputs['base'])
        btxt = {2: ' binary', 8: ' octal', 10: '', 16: ' hex', 36: ' base 36'}[base]
        return [{'mode': 'query', 'text': '(%d/%d) ->%s digits 30' % (n, d, btxt)}]

    def judge(self, inputs, label, obs):
        q = obs[0]
        if q.get('outcome') == 'panic' or q.get('render_panic'):
            return True, 'panic %s' % (q.get('panic') or q.get('render_panic'))
        return 'kernel-only', 'display %s' % q.get('display')


def stub_to_string(ex, nc, args):
    return Tup([ex.env['is_exact'], 'numeral'])


class ExactMarker(Harness):
    props = ('C05', 'C04')
    entry_name = 'Numeric::string_repr ; NumberPartsFmt::to_spans'
    stubs = ((r'^Numeric::to_string$', stub_to_string, 'Numeric::to_string -> (arbitrary exactness flag, "numeral")'),)
    loop_bound = 12
    _concrete = None

    def __init__(self):
        self.name = 'numeric.string_repr.approx_marker'
        self.describe = 'Numeric::string_repr on an arbitrary rational with the digit printer replaced by an arbitrary (is_exact, text), then the `n` format pattern'
        self.expect_classes = ['return']

    def build(self, ex, I):
        v = I.real('v')
        ex.env['is_exact'] = I.bool('printer_says_exact')
        return [rational(v)], {'v': v}

    def entry(self, ex, args, ctx):
        r = ex.call(None, 'types::numeric::Numeric::string_repr', [ref(args[0]), 10, variant(ex, 'Digits', 'Default')])
        t = deref_all(r)
        f = ex.prog.src.structs['NumberParts']
        vals = [none(ex)] * len(f)
        vals[f.index('exact_value')] = t.fields[0]
        vals[f.index('approx_value')] = t.fields[1]
        parts = Struct('NumberParts', vals)
        fmt = Struct('NumberPartsFmt', [ref(parts), 'n'])
        spans = ex.call(None, 'output::number_parts::NumberPartsFmt::to_spans', [ref(fmt)])
        return Tup([r, spans])

    def post(self, ex, ctx, outcome):
        t = deref_all(outcome[1])
        rep = deref_all(t.fields[0])
        exact, approx = deref_all(rep.fields[0]), deref_all(rep.fields[1])
        flag = ex.env['is_exact']
        spans = deref_all(t.fields[1])
        texts = []
        for s in spans.fields:
            s = deref_all(s)
            for f in s.fields:
                f = deref_all(f)
                if isinstance(f, Enum) and f.ty == 'Cow':
                    f = deref_all(f.fields[0])
                if isinstance(f, str):
                    texts.append(f)
        shown = ''.join(texts)
        has_marker = 'approx.' in shown
        obs = []
        if exact.variant == 1 and approx.variant == 0:
            obs.append(('an unmarked numeral is one the printer called exact', flag))
            obs.append(('no approx. marker on an exact numeral', not has_marker))
        elif approx.variant == 1:
            obs.append(('an approximate numeral is one the printer did not call exact', b_not(flag)))
            obs.append(('approx. marker shown', has_marker))
            if exact.variant == 1:
                obs.append(('the exact companion is the fraction n/d', isinstance(deref_all(exact.fields[0]), (str, Opaque))))
        else:
            obs.append(('a rational always gets a numeral', False))
        return obs

    def native(self, inputs, label):
        return [{'mode': 'query', 'text': '1/3'}, {'mode': 'query', 'text': '1/3000'}, {'mode': 'query', 'text': '1/7'}]

    def judge(self, inputs, label, obs):
        return 'kernel-only', ' | '.join(str(o.get('display')) for o in obs)


def harnesses(tier):
    return [Scientific(3 if tier == 'quick' else 6), Recurring([10] if tier == 'quick' else BASES), ExactMarker()]


# --------------------------------------------------------------------------------------------------------------
from .c09 import CANON_STUB, DEFAULT_PARTS
from .c15 import stub_eval_expr_value
from mirsym.lib import MapV


def stub_numeric_value_env(ex, nc, args):
    return dup(ex.env['numeric_value'])


def stub_to_parts_base10(ex, nc, args):
    n = dup(deref_all(args[0]))
    fields = ex.prog.src.structs['NumberParts']
    vals = [none(ex)] * len(fields)
    vals[fields.index('raw_value')] = some(ex, n)
    vals[fields.index('exact_value')] = some(ex, 'BASE10-EXACT')
    vals[fields.index('approx_value')] = some(ex, 'BASE10-APPROX')
    vals[fields.index('dimensions')] = some(ex, 'dims')
    return Struct('NumberParts', vals)


class BaseConversionNumerals(Harness):
    name = 'eval_query.base_conversion.numerals'
    props = ('C05', 'C04')
    entry = 'eval_query'
    describe = ('`x -> base B [digits mode]`: the exact/approx numerals of the reply are exactly those the digit printer produced for that base '
                '(printer replaced by an arbitrary present/absent pair), never the base-10 strings of the generic rendering')
    stubs = (SHOW_STUB, CANON_STUB, DEFAULT_PARTS,
             (r'^eval_expr$', stub_eval_expr_value, 'eval_expr -> arbitrary Number'),
             (r'^Number::numeric_value$', stub_numeric_value_env, 'Number::numeric_value -> arbitrary (exact?, approx?) marker strings'),
             (r'^Number::(to_parts|to_parts_digits)$', stub_to_parts_base10, 'Number::to_parts -> parts with base-10 marker numerals'))
    expect_classes = ['Result::Ok']
    _concrete = None

    def build(self, ex, I):
        x = I.real('x')
        ex.env['value'] = variant(ex, 'Value', 'Number', [number(rational(x), dim({'m': (True, 1)}))])
        he = ex.choose(2, 'printer gives exact numeral')
        ha = ex.choose(2, 'printer gives approx numeral')
        ex.env['numeric_value'] = Tup([some(ex, 'B-EXACT') if he else none(ex), some(ex, 'B-APPROX') if ha else none(ex)])
        dig = ['Default', 'Scientific', 'Fraction'][ex.choose(3, 'digits mode')]
        q = variant(ex, 'Query', 'Convert', [expr_const(ex, rational(Fraction(1))), variant(ex, 'Conversion', 'None'), some(ex, 2),
                                             variant(ex, 'Digits', dig)])
        return [ref(Opaque('Context')), ref(q)], {'he': he, 'ha': ha}

    def post(self, ex, ctx, outcome):
        r = deref_all(outcome[1])
        if not is_ok(r):
            return [('base conversion of a number succeeds', False)]
        rep = deref_all(payload(r))
        if rep.vname != 'Conversion':
            return [('reply is a Conversion', False)]
        parts = deref_all(deref_all(rep.fields[0]).fields[0])
        f = ex.prog.src.structs['NumberParts']
        e, a = deref_all(parts.fields[f.index('exact_value')]), deref_all(parts.fields[f.index('approx_value')])
        want_e = 'B-EXACT' if ctx['he'] else None
        want_a = 'B-APPROX' if ctx['ha'] else None
        got_e = deref_all(e.fields[0]) if e.variant == 1 else None
        got_a = deref_all(a.fields[0]) if a.variant == 1 else None
        return [('exact numeral is the one printed in the requested base (got %r, want %r)' % (got_e, want_e), got_e == want_e),
                ('approx numeral is the one printed in the requested base (got %r, want %r)' % (got_a, want_a), got_a == want_a)]

    def native(self, inputs, label):
        return [{'mode': 'query', 'text': '0.0001 -> base 2'}, {'mode': 'query', 'text': '1.0305 -> hex'}]

    def judge(self, inputs, label, obs):
        bad = []
        for o in obs:
            j = o.get('json') or {}
            v = (j.get('value') or {})
            ev = v.get('exactValue')
            if ev is not None and any(c in ev for c in '23456789') and 'base 2' in str(o.get('display', '')) + '0.0001':
                bad.append('exact numeral %r shown for a non-decimal reply' % ev)
            if ev is not None and '.' in ev and v.get('approxValue') is not None:
                bad.append('both exact %r and approx %r' % (ev, v.get('approxValue')))
        return (bool(bad), '; '.join(bad) or 'ok')


def harnesses(tier):   # noqa: F811
    return [Scientific(3 if tier == 'quick' else 6), Recurring([10] if tier == 'quick' else BASES), ExactMarker(), BaseConversionNumerals()]
