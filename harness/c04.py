"""C04 totality (bounded, per function): panic-reachability on inputs the other harnesses do not generate -
float operands (NaN / inf), lexer escapes, conversion targets with shifts, JSON rendering of non-finite floats.
Every other harness in the registry also reports reachable panics for C04."""
import z3
from .common import *  # noqa
from .c01 import EvalBinOp, OPSYM
from .c09 import TO_PARTS_STUB, CANON_STUB, DEFAULT_PARTS
from .c10 import NUMVAL_STUB, UNITSTR_STUB, DESCRIBE_STUB
from mirsym.lib import PeekableV, VecIter, fresh_f64


class FloatOperands(Harness):
    props = ('C04',)
    entry = 'eval_expr'
    stubs = (LOOKUP_STUB, SHOW_STUB)
    loop_bound = 12
    _concrete = None
    OPS = ['Add', 'Sub', 'Frac', 'Mod', 'Pow', 'ShiftL', 'ShiftR', 'And', 'Or', 'Xor']

    def __init__(self):
        self.name = 'eval_expr.float_operands'
        self.describe = 'eval_expr on `a op b` where a and/or b is an arbitrary float (possibly NaN or infinite), dimensionless or metres'
        self.bounds = ['floats are opaque values with symbolic NaN / infinity flags: only panic-reachability is decided']
        self.expect_classes = ['Result::Ok', 'Result::Err']

    def build(self, ex, I):
        op = self.OPS[ex.choose(len(self.OPS), 'operator')]
        which = ex.choose(3, 'which operand is a float')
        x, y = I.real('x'), I.real('y')
        from mirsym.lib import inf_of
        fl = lambda t: (lambda v: floatnum(F64(v, I.bool(t + '_nan'), inf_of(v))))(I.real(t + '_val'))
        a = fl('a') if which in (0, 2) else rational(x)
        b = fl('b') if which in (1, 2) else rational(y)
        du = ex.choose(2, 'left unit')
        ex.env['units'] = {'a': number(a, dim({'m': (True, 1)} if du else {})), 'b': number(b, dim({}))}
        e = expr_binop(ex, op, expr_unit(ex, 'a'), expr_unit(ex, 'b'))
        return [ref(Opaque('Context')), ref(e)], {'op': op, 'which': which}

    def post(self, ex, ctx, outcome):
        return []      # only reachable panics matter here

    def case(self, ctx, vals, label):
        c = Harness.case(self, ctx, vals, label)
        c['inputs']['op'] = ctx['op']
        c['inputs']['which'] = ctx['which']
        return c

    def native(self, inputs, label):
        op = OPSYM[inputs['op']]
        nan, inf, fin = 'ln(-1)', 'exp(1000)', '1.5e300'
        outs = []
        for l in (nan, inf, fin, '2', '0'):
            for r in (nan, inf, fin, '2', '0'):
                if l in (nan, inf, fin) or r in (nan, inf, fin):
                    outs.append({'mode': 'query', 'text': '(%s) %s (%s)' % (l, op, r)})
        return outs

    def judge(self, inputs, label, obs):
        bad = [o for o in obs if o.get('outcome') == 'panic']
        if bad:
            return True, '%d of %d float operand combinations panic in eval, e.g. %s' % (len(bad), len(obs), bad[0].get('panic'))
        return False, 'no eval panic on float operand combinations (render panics are judged by render harness)'


class JsonRendering(Harness):
    name = 'numeric_parts.from_numeric'
    props = ('C04',)
    entry = '<NumericParts as From<Numeric>>::from'
    describe = 'NumericParts::from(Numeric) (the JSON form of every number) on an arbitrary rational or float (NaN / infinite possible)'
    stubs = ((r'^Numeric::string_repr$', lambda ex, nc, a: Tup([some(ex, 'exact'), none(ex)]), 'Numeric::string_repr -> opaque strings'),)
    expect_classes = ['return']
    _concrete = None

    def build(self, ex, I):
        k = ex.choose(2, 'rational / float')
        if k == 0:
            return [rational(I.real('x'))], {}
        from mirsym.lib import inf_of
        v = I.real('f_val')
        return [floatnum(F64(v, I.bool('f_nan'), inf_of(v)))], {}

    def post(self, ex, ctx, outcome):
        return []

    def native(self, inputs, label):
        return [{'mode': 'query', 'text': t} for t in ('ln(-1)', 'ln(0)', 'exp(1000)', '1/3', 'sqrt(2)')]

    def judge(self, inputs, label, obs):
        bad = [o for o in obs if o.get('outcome') == 'panic' or o.get('render_panic')]
        return (bool(bad), '; '.join(str(o.get('render_panic') or o.get('panic')) for o in bad) or 'renders')


class LexerEscapes(Harness):
    name = 'lexer.backslash_escapes'
    props = ('C04',)
    entry_name = '<text_query::TokenIterator as Iterator>::next'
    describe = 'TokenIterator::next on a backslash followed by up to 10 symbolic ASCII characters (\\u escapes with any number of hex digits)'
    bounds = ['<= 10 characters after the backslash, printable ASCII']
    loop_bound = 40
    expect_classes = ['Option::Some']
    _concrete = None

    def build(self, ex, I):
        n = ex.choose(11, 'characters after the backslash')
        cs = [I.int('c%d' % i) for i in range(n)]
        for c in cs:
            ex.assume(z3.And(c >= 32, c <= 126))
        it = Struct('TokenIterator', [PeekableV(VecIter([ord('\\')] + cs))], 'text_query')
        return [it], {'n': n}

    def entry(self, ex, args, ctx):
        return ex.call(None, '<parsing::text_query::TokenIterator<\'_> as Iterator>::next', [ref(args[0])])

    def post(self, ex, ctx, outcome):
        return []

    def _text(self, inputs):
        n = len([k for k in inputs if k.startswith('c')])
        return '\\' + ''.join(chr(int(inputs['c%d' % i])) for i in range(n))

    def native(self, inputs, label):
        return [{'mode': 'query', 'text': self._text(inputs)}]

    def judge(self, inputs, label, obs):
        q = obs[0]
        bad = q.get('outcome') == 'panic' or bool(q.get('render_panic'))
        return bad, '`%s`: %s' % (self._text(inputs), q.get('panic') or q.get('render_panic') or q.get('display'))


class ConversionTargetOperators(Harness):
    name = 'eval_query.convert.target_operators'
    props = ('C04', 'C03')
    entry = 'eval_query'
    describe = '`a -> b op c` for every binary operator in the conversion target, operands arbitrary rationals / units'
    stubs = (LOOKUP_STUB, SHOW_STUB, TO_PARTS_STUB, CANON_STUB, DEFAULT_PARTS, NUMVAL_STUB, UNITSTR_STUB, DESCRIBE_STUB)
    loop_bound = 12
    expect_classes = ['Result::Ok', 'Result::Err']
    _concrete = None
    OPS = ['Add', 'Sub', 'Frac', 'Pow', 'Mod', 'ShiftL', 'ShiftR', 'And', 'Or', 'Xor', 'Equals']

    def build(self, ex, I):
        op = self.OPS[ex.choose(len(self.OPS), 'operator')]
        shape = ex.choose(2, 'operand kind')
        v, b, c = I.real('v'), I.real('b'), I.real('c')
        if op == 'Pow':
            # exponents: concrete representatives (negative / fractional / zero / positive); the base stays symbolic
            c = [Fraction(-3, 2), Fraction(-1), Fraction(0), Fraction(2), Fraction(1, 2), Fraction(-2)][ex.choose(6, 'exponent')]
        ctx_c = c
        ex.env['units'] = {'a': number(rational(v), dim({})), 'u': number(rational(b), dim({}))}
        left = expr_const(ex, rational(b)) if shape == 0 else expr_unit(ex, 'u')
        right = expr_const(ex, rational(c))
        bottom = expr_binop(ex, op, left, right)
        q = variant(ex, 'Query', 'Convert', [expr_unit(ex, 'a'), variant(ex, 'Conversion', 'Expr', [bottom]), none(ex), variant(ex, 'Digits', 'Default')])
        return [ref(Opaque('Context')), ref(q)], {'op': op, 'c': ctx_c}

    def post(self, ex, ctx, outcome):
        return []

    def case(self, ctx, vals, label):
        c = Harness.case(self, ctx, vals, label)
        c['inputs']['op'] = ctx['op']
        if is_conc(ctx['c']):
            c['inputs']['c'] = '%d/%d' % (Fraction(ctx['c']).numerator, Fraction(ctx['c']).denominator)
        return c

    def prefer(self, ctx):
        return []

    def native(self, inputs, label):
        op = {'Equals': '='}.get(inputs['op'], OPSYM.get(inputs['op'], '+'))
        b, c = Fraction(inputs.get('b', 1)), Fraction(inputs.get('c', 2))
        return [{'mode': 'query', 'text': '%s -> %s %s %s' % (frac_text(Fraction(inputs.get('v', 1))), frac_text(b), op, frac_text(c))},
                {'mode': 'query', 'text': '1 -> 1 %s 2' % op}]

    def judge(self, inputs, label, obs):
        bad = [o for o in obs if o.get('outcome') == 'panic' or o.get('render_panic')]
        return (bool(bad), '; '.join(str(o.get('panic') or o.get('render_panic')) for o in bad) or 'no panic')


def harnesses(tier):
    return [FloatOperands(), JsonRendering(), LexerEscapes(), ConversionTargetOperators()]


# --------------------------------------------------------------------------------------------------------------
# Names that are not found go to the suggestion search.  The query text is arbitrary - also non-ASCII, where a byte offset
# is not a character offset.

class SearchQueryText(Harness):
    name = 'search_internal.any_query_text'
    props = ('C04',)
    entry = 'commands::search::search_internal'
    loop_bound = 120
    max_paths = 4000
    _concrete = None
    describe = ('search_internal on a query of 1 / 14 / 41 characters, each an ASCII letter or a two- or three-byte character (symbolic): whatever '
                'it does with the text before scoring (byte lengths and byte offsets follow the UTF-8 width of every character), it does not panic; '
                'the scoring itself (search_impl: jaro_winkler, BinaryHeap) is stubbed')
    bounds = ['query lengths 1, 14, 41 characters over {a..z, U+00E9, U+5358}; empty database']
    expect_classes = ['return']
    stubs = ((r'^search_impl$', lambda ex, nc, a: Arr([]), 'algorithms::search_impl -> no results (scoring is outside: C17 territory)'),)

    def build(self, ex, I):
        n = [1, 14, 41][ex.choose(3, 'query length')]
        cs = []
        for i in range(n):
            c = I.int('q%d' % i)
            ex.assume(z3.Or(z3.And(c >= 97, c <= 122), c == 0xE9, c == 0x5358))
            cs.append(c)
        reg = make_struct(ex, 'Registry', {'base_units': MapV(), 'units': MapV(), 'substances': MapV()})
        ctxv = make_struct(ex, 'Context', {'registry': reg, 'temporaries': MapV(), 'previous_result': none(ex)})
        return [ref(ctxv), SymStr(cs, True), 5], {'n': n}

    def post(self, ex, ctx, outcome):
        return []

    def prefer(self, ctx):
        return []

    def _text(self, inputs):
        k = len([x for x in inputs if x.startswith('q') and x[1:].isdigit()])
        return ''.join(chr(int(inputs['q%d' % i])) for i in range(k))

    def native(self, inputs, label):
        t = self._text(inputs)
        return [{'mode': 'query', 'text': t}, {'mode': 'query', 'text': 'search ' + t}, {'mode': 'query', 'text': '1 ' + t + ' -> m'}]

    def judge(self, inputs, label, obs):
        t = self._text(inputs)
        bad = ['`%s` panics: %s' % (q, o.get('panic') or o.get('render_panic')) for q, o in zip((t, 'search ' + t, '1 ' + t + ' -> m'), obs)
               if o.get('outcome') == 'panic' or o.get('render_panic')]
        return bool(bad), '; '.join(bad[:2]) or 'no panic on `%s`' % t


_c04_prev = harnesses


def harnesses(tier):   # noqa: F811
    return _c04_prev(tier) + [SearchQueryText()]
