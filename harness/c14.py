import re
"""C14 date arithmetic: to_duration / from_duration, Value +/- on DateTime, offset conversion.
chrono is replaced by its documented contract (library-model table): TimeDelta = Int ns within
+-i64::MAX ms, DateTime = (instant ns, zone token) within abstract bounds [DT_MIN, DT_MAX]."""
import z3
from .common import *  # noqa
from mirsym.driver import jsonable
from mirsym.lib import DT_MIN, DT_MAX, dt_bounds_axioms, mk_datetime, TD_MAX_NS
from .c09 import CONF_STUB
from mirsym.lib import HUGE as HUGE_F

MAX_S = (2 ** 63 - 1) // 1000      # to_duration's own gate: |v| <= i64::MAX / 1000 seconds
U = ('m', 's')


def sym_seconds(ex, I, tag, concrete):
    """an arbitrary real number of seconds written as (k + e) / 10^9 with k an Int and 0 <= e < 1:
    every real has exactly one such decomposition, `whole number of nanoseconds` is e == 0, and all
    truncations the code performs stay linear in k."""
    if concrete is not None:
        v = Fraction(concrete[tag])
        return v, None, None
    k = I.int(tag + '_ns')
    e = I.real(tag + '_subns')
    ex.assume(z3.And(e >= 0, e < 1))
    return (z3.ToReal(k) + e) / 10 ** 9, k, e


def secs_dim():
    return dim({'s': (True, 1)})


def is_seconds(ent):
    c = True
    for k, (p, e) in ent.items():
        if k == 's':
            c = b_and(c, b_and(p, n_eq(e, 1)))
        else:
            c = b_and(c, b_not(p))
    return c


class ToDurationFloat(Harness):
    name = 'datetime.to_duration.float'
    props = ('C14', 'C04')
    entry = 'to_duration'
    describe = 'to_duration on a Number whose value is an arbitrary float (finite, infinite or NaN) of seconds: refused or converted, never a panic'
    expect_classes = ['Result::Ok', 'Result::Err']
    bounds = ['NaN, +-infinity, and finite floats with |v| <= 2^52 s; only panic-reachability and the range gate are decided']
    _concrete = None

    def build(self, ex, I):
        from mirsym.lib import inf_of
        v = I.real('f_val')
        nan = I.bool('f_nan')
        # finite floats up to 2^52 s (142 million years) are in the claim: beyond that the rounding of `v * 1000` decides
        # whether chrono's millisecond range is exceeded, which the value model of floats cannot settle
        a = z3.If(v >= 0, v, -v)
        ex.assume(z3.Or(nan, a <= 2 ** 52, a >= HUGE_F))
        return [ref(number(floatnum(F64(v, nan, inf_of(v))), secs_dim()))], {'v': v, 'nan': nan}

    def post(self, ex, ctx, outcome):
        r = deref_all(outcome[1])
        if is_ok(r):
            return [('a NaN number of seconds is not a duration', z3.Not(zbool(ctx['nan'])))]
        return []

    def native(self, inputs, label):
        nan = bool(inputs.get('f_nan'))
        txt = 'ln(-1)' if nan else ('exp(1000)' if abs(Fraction(inputs['f_val'])) >= 2 ** 1024 else '%s * 1.0e0' % frac_text(Fraction(inputs['f_val'])))
        return [{'mode': 'query', 'text': 'now + (%s) s' % txt}, {'mode': 'query', 'text': 'now - (%s) s' % txt},
                {'mode': 'query', 'text': '#2020-01-01# + (%s) s' % txt}]

    def judge(self, inputs, label, obs):
        bad = [o for o in obs if o.get('outcome') == 'panic' or o.get('render_panic')]
        if bad:
            return True, 'date + float seconds panics: %s' % (bad[0].get('panic') or bad[0].get('render_panic'))
        return False, 'no panic: %s' % [str(o.get('display') or o.get('error'))[:50] for o in obs]


class ToDuration(Harness):
    name = 'datetime.to_duration'
    props = ('C14', 'C04')
    entry = 'to_duration'
    describe = 'to_duration on an arbitrary Number (unbounded rational, symbolic unit)'
    expect_classes = ['Result::Ok', 'Result::Err']
    bounds = ['unit over base units (m, s)']
    _concrete = None

    def build(self, ex, I):
        v, k, e = sym_seconds(ex, I, 'v', self._concrete)
        D, ent = sym_dim(ex, I, 'd', U, lo=-4, hi=4)
        return [ref(number(rational(v), D))], {'v': v, 'k': k, 'e': e, 'ent': ent}

    def post(self, ex, ctx, outcome):
        v, ent, k, e = zreal(ctx['v']), ctx['ent'], ctx['k'], ctx['e']
        r = deref_all(outcome[1])
        absv = z3.If(v >= 0, v, -v)
        if is_ok(r):
            td = zint(payload(r))
            # truncation toward zero of (k + e) nanoseconds
            want = z3.If(z3.Or(k >= 0, e == 0), k, k + 1)
            return [('accepted only for seconds', is_seconds(ent)),
                    ('accepted only within the documented range', absv <= MAX_S),
                    ('whole-nanosecond durations are converted exactly', z3.Implies(e == 0, td == k)),
                    ('sub-nanosecond remainders are truncated toward zero', td == want)]
        return [('refused only for non-seconds or out-of-range values', z3.Or(z3.Not(zbool(is_seconds(ent))), absv > MAX_S))]

    def prefer(self, ctx):
        k, e = ctx['k'], ctx['e']
        return [e == 0, z3.And(k > -10 ** 10, k < 10 ** 10), k != 0]

    def case(self, ctx, vals, label):
        c = Harness.case(self, ctx, vals, label)
        kk = Fraction(c['inputs'].pop('v_ns')) if 'v_ns' in c['inputs'] else Fraction(0)
        ee = Fraction(c['inputs'].pop('v_subns')) if 'v_subns' in c['inputs'] else Fraction(0)
        c['inputs']['v'] = jsonable((kk + ee) / 10 ** 9)
        return c

    def _num(self, inputs):
        return number_json(Fraction(inputs['v']), conc_dim(inputs, 'd', U))

    def native(self, inputs, label):
        v = Fraction(inputs['v'])
        reqs = [{'mode': 'to_duration', 'a': self._num(inputs)}]
        d = conc_dim(inputs, 'd', U)
        if d == {'s': 1} and abs(v) < 10 ** 9:
            reqs.append({'mode': 'query', 'text': '(now + %s s) - now' % frac_text(v)})
        return reqs

    def expected_ns(self, v):
        x = v * 10 ** 9
        q = abs(x.numerator) // x.denominator
        return q if x >= 0 else -q

    def judge(self, inputs, label, obs):
        v = Fraction(inputs['v'])
        d = conc_dim(inputs, 'd', U)
        k = obs[0]
        texts = []
        kbad = False
        if k.get('outcome') == 'panic':
            kbad = True
            texts.append('kernel: panic %s' % k.get('panic'))
        elif d == {'s': 1} and abs(v) <= MAX_S:
            if k.get('outcome') != 'ok':
                kbad = True
                texts.append('kernel: refused a valid duration: %s' % k.get('error'))
            else:
                secs, sub = int(k['secs']), int(k['subsec_ns'])
                got = secs * 10 ** 9 + sub
                if got != self.expected_ns(v):
                    kbad = True
                texts.append('kernel: to_duration(%s s) = %d ns, expected %d ns' % (v, got, self.expected_ns(v)))
        else:
            if k.get('outcome') == 'ok':
                kbad = True
                texts.append('kernel: accepted %s %s' % (v, d))
        if len(obs) > 1:
            q = obs[1]
            if q.get('outcome') == 'panic' or q.get('render_panic'):
                return True, '; '.join(texts + ['query: panic %s' % (q.get('panic') or q.get('render_panic'))])
            got = obs_number_json(q)
            want = Fraction(self.expected_ns(v), 10 ** 9)
            if got is None or got[0] != want:
                return True, '; '.join(texts + ['query `(now + %s s) - now` gave %s, expected %s s' % (v, got, want)])
            texts.append('query agrees')
        return ('kernel-only' if kbad and len(obs) == 1 else (False if not kbad else 'kernel-only')), '; '.join(texts)

    def vectors(self, rng):
        vs = [Fraction(0), Fraction(1), Fraction(-1), Fraction(1, 2000), Fraction(-1000001, 10 ** 9), Fraction(123456789123, 10 ** 9),
              Fraction(MAX_S), Fraction(MAX_S + 1), Fraction(-MAX_S), Fraction(86400), Fraction(1, 3), Fraction(-7, 11), Fraction(999999999, 10 ** 9)]
        out = []
        for v in vs:
            out.append({'v': v, 'd_has_m': False, 'd_exp_m': 1, 'd_has_s': True, 'd_exp_s': 1})
        out.append({'v': Fraction(3), 'd_has_m': True, 'd_exp_m': 1, 'd_has_s': True, 'd_exp_s': 1})
        out.append({'v': Fraction(3), 'd_has_m': False, 'd_exp_m': 1, 'd_has_s': True, 'd_exp_s': 2})
        return out

    def agree(self, vec, outcome, o):
        if outcome[0] == 'panic':
            return o.get('outcome') == 'panic', 'MIR panic %s / native %s' % (outcome[1], o.get('outcome'))
        r = deref_all(outcome[1])
        if is_ok(r):
            if o.get('outcome') != 'ok':
                return False, 'MIR Ok / native %s' % o.get('outcome')
            got = int(o['secs']) * 10 ** 9 + int(o['subsec_ns'])
            return (int(simp(payload(r))) == got), 'MIR %s ns / native %s ns' % (simp(payload(r)), got)
        return o.get('outcome') == 'err', 'MIR Err / native %s' % o.get('outcome')


class FromDuration(Harness):
    name = 'datetime.from_duration'
    props = ('C14', 'C04')
    entry = 'from_duration'
    describe = 'from_duration on an arbitrary TimeDelta (Int ns within chrono\'s range)'
    expect_classes = ['Result::Ok']
    _concrete = None

    def build(self, ex, I):
        t = I.int('t')
        if self._concrete is None:
            ex.assume(z3.And(t >= -TD_MAX_NS, t <= TD_MAX_NS))
        return [ref(t)], {'t': t}

    def post(self, ex, ctx, outcome):
        t = ctx['t']
        r = deref_all(outcome[1])
        if not is_ok(r):
            return [('from_duration never fails', False)]
        val, d = number_parts(payload(r))
        kind, x = numeric_parts(val)
        obs = [('result is rational', kind == 'rational')]
        if kind == 'rational':
            obs.append(('value = t / 10^9 seconds', zreal(x) * 10 ** 9 == zreal(t)))
        obs.append(('unit is seconds', is_seconds(d)))
        return obs

    def prefer(self, ctx):
        t = ctx['t']
        return [z3.And(t > -2 ** 65, t < 2 ** 65)]

    def native(self, inputs, label):
        return [{'mode': 'from_duration', 'ns': str(int(inputs['t']))}]

    def judge(self, inputs, label, obs):
        t = int(inputs['t'])
        o = obs[0]
        if o.get('outcome') == 'panic':
            return 'kernel-only', 'panic %s' % o.get('panic')
        got = kernel_number(o)
        want = (Fraction(t, 10 ** 9), {'s': 1})
        if got != want:
            # lift to a query when the span fits chrono's date range
            return 'kernel-only', 'from_duration(%d ns) = %s, expected %s' % (t, got, want)
        return False, 'agrees'

    def vectors(self, rng):
        return [{'t': x} for x in (0, 1, -1, 999999, 10 ** 9 + 1, -(10 ** 15) - 7, 2 ** 63 + 12345, -(2 ** 64) - 1, (2 ** 63 - 1) * 10 ** 6)]

    def agree(self, vec, outcome, o):
        r = deref_all(outcome[1])
        mine = model_number_obs(payload(r))
        return (kernel_number(o) == mine), 'MIR %s native %s' % (mine, kernel_number(o))


class DateRoundTrip(Harness):
    """(d + t) - d = t  and  (d - t) + t = d  through the Value operators"""
    props = ('C14', 'C04')
    stubs = (SHOW_STUB,)
    entry_name = '<&Value as Add>::add ; <&Value as Sub>::sub'

    def __init__(self, mode, lkind, rkind):
        self.mode = mode
        self.lkind = lkind
        self.rkind = rkind
        self.name = 'value.date_%s.%s_%s' % (mode, lkind.lower(), rkind.lower())
        self.describe = {'add_sub': '(d + t) - d2 where d2 is d re-zoned', 'sub_add': '(d - t) + t'}[mode] + \
            ' with d a %s instant; t an arbitrary Number' % lkind
        self.expect_classes = ['Result::Ok', 'Result::Err']
        self.assumptions = ['chrono DateTime range is an abstract interval [DT_MIN, DT_MAX] containing +-10^18 ns']
        self._concrete = None

    def build(self, ex, I):
        t, k, e = sym_seconds(ex, I, 't', self._concrete)
        self._ke = (k, e)
        d = I.int('d')
        for a in dt_bounds_axioms():
            ex.assume(a)
        ex.assume(z3.And(d >= DT_MIN, d <= DT_MAX))
        D, ent = sym_dim(ex, I, 'u', U, lo=-2, hi=2)
        zone_l = Struct('FixedOffset', [I.int('off_l')]) if self.lkind == 'Fixed' else Struct('Tz', [Opaque('tz_l')])
        zone_r = Struct('FixedOffset', [I.int('off_r')]) if self.rkind == 'Fixed' else Struct('Tz', [Opaque('tz_r')])
        dl = variant(ex, 'GenericDateTime', self.lkind, [mk_datetime(d, zone_l)])
        dr = variant(ex, 'GenericDateTime', self.rkind, [mk_datetime(d, zone_r)])
        vd = variant(ex, 'Value', 'DateTime', [dl])
        vd2 = variant(ex, 'Value', 'DateTime', [dr])
        vt = variant(ex, 'Value', 'Number', [number(rational(t), D)])
        return [vd, vt, vd2], {'t': t, 'd': d, 'ent': ent, 'k': k, 'e': e}

    def entry(self, ex, args, ctx):
        vd, vt, vd2 = args
        if self.mode == 'add_sub':
            r1 = ex.call(None, '<&runtime::value::Value as std::ops::Add>::add', [ref(vd), ref(vt)])
            r1v = deref_all(r1)
            if r1v.variant != 0:
                return Tup([r1, none(ex)])
            r2 = ex.call(None, '<&runtime::value::Value as std::ops::Sub>::sub', [ref(r1v.fields[0]), ref(vd2)])
            return Tup([r1, some(ex, r2)])
        r1 = ex.call(None, '<&runtime::value::Value as std::ops::Sub>::sub', [ref(vd), ref(vt)])
        r1v = deref_all(r1)
        if r1v.variant != 0:
            return Tup([r1, none(ex)])
        r2 = ex.call(None, '<&runtime::value::Value as std::ops::Add>::add', [ref(r1v.fields[0]), ref(vt)])
        return Tup([r1, some(ex, r2)])

    def classify(self, outcome):
        if outcome[0] == 'panic':
            return 'panic'
        t = deref_all(outcome[1])
        r1 = deref_all(t.fields[0])
        return 'Result::Ok' if r1.variant == 0 else 'Result::Err'

    def post(self, ex, ctx, outcome):
        t, d, ent, k, e = zreal(ctx['t']), ctx['d'], ctx['ent'], ctx['k'], ctx['e']
        tup = deref_all(outcome[1])
        r1 = deref_all(tup.fields[0])
        whole = (e == 0)
        abst = z3.If(t >= 0, t, -t)
        obs = []
        if r1.variant == 1:
            # refused: must be because of unit, range of t, or the result leaving chrono's range
            moved = zint(d) + (k if self.mode == 'add_sub' else -k)
            obs.append(('date +- duration refused only for non-seconds, out-of-range duration, or out-of-range result',
                        z3.Or(z3.Not(zbool(is_seconds(ent))), abst > MAX_S,
                              moved <= DT_MIN + 1, moved >= DT_MAX - 1)))
            return obs
        v1 = deref_all(r1.fields[0])
        obs.append(('date +- number is a date', isinstance(v1, Enum) and v1.vname == 'DateTime'))
        obs.append(('accepted only for seconds', is_seconds(ent)))
        r2o = deref_all(tup.fields[1])
        r2 = deref_all(r2o.fields[0])
        if r2.variant == 1:
            obs.append(('the inverse step never fails', False))
            return obs
        v2 = deref_all(r2.fields[0])
        if self.mode == 'add_sub':
            if not (isinstance(v2, Enum) and v2.vname == 'Number'):
                return obs + [('date - date is a number', False)]
            val, dd = number_parts(v2.fields[0])
            kind, x = numeric_parts(val)
            obs.append(('difference is rational', kind == 'rational'))
            if kind == 'rational':
                obs.append(('(d + t) - d = t for whole-nanosecond t', z3.Implies(whole, zreal(x) == t)))
            obs.append(('difference is in seconds', is_seconds(dd)))
        else:
            if not (isinstance(v2, Enum) and v2.vname == 'DateTime'):
                return obs + [('date + number is a date', False)]
            inst = deref_all(v2.fields[0]).fields[0].fields[0]
            obs.append(('(d - t) + t = d for whole-nanosecond t', z3.Implies(whole, zint(inst) == zint(d))))
        return obs

    def prefer(self, ctx):
        k, e = ctx['k'], ctx['e']
        return [e == 0, ctx['d'] == 0, z3.And(k > -2 ** 65, k < 2 ** 65), z3.And(k > -10 ** 10, k < 10 ** 10), k != 0]

    def case(self, ctx, vals, label):
        c = Harness.case(self, ctx, vals, label)
        kk = Fraction(c['inputs'].pop('t_ns')) if 't_ns' in c['inputs'] else Fraction(0)
        ee = Fraction(c['inputs'].pop('t_subns')) if 't_subns' in c['inputs'] else Fraction(0)
        c['inputs']['t'] = jsonable((kk + ee) / 10 ** 9)
        return c

    def native(self, inputs, label):
        t = Fraction(inputs['t'])
        d = conc_dim(inputs, 'u', U)
        if d != {'s': 1} or abs(t) > 4 * 10 ** 10:
            return [{'mode': 'to_duration', 'a': number_json(t, d)}]
        base = '#3000-01-01 00:00:00 +00:00#'
        # the same law on instants in named zones, across a daylight-saving change (the model's zone is abstract)
        ny, be = '#2021-03-13 12:00:00 America/New_York#', '#2021-10-31 12:00:00 Europe/Berlin#'
        probes = [{'mode': 'query', 'text': '(%s + 86400 s) - %s' % (ny, ny)}, {'mode': 'query', 'text': '((%s - 86400 s) + 86400 s) - %s' % (be, be)}]
        if self.mode == 'add_sub':
            return [{'mode': 'query', 'text': '(%s + %s s) - %s' % (base, frac_text(t), base)}] + probes
        return [{'mode': 'query', 'text': '((%s - %s s) + %s s) - %s' % (base, frac_text(t), frac_text(t), base)}] + probes

    def judge(self, inputs, label, obs):
        t = Fraction(inputs['t'])
        q = obs[0]
        if 'secs' in q or q.get('error') is not None or (q.get('outcome') == 'panic' and 'stage' not in q):
            return ('kernel-only' if q.get('outcome') == 'panic' else False), 'to_duration(%s s): %s' % (t, q.get('panic') or q.get('outcome'))
        if q.get('outcome') == 'panic' or q.get('render_panic'):
            return True, 'panic %s' % (q.get('panic') or q.get('render_panic'))
        got = obs_number_json(q)
        want = t if self.mode == 'add_sub' else Fraction(0)
        for o, w, txt in zip(obs[1:3], (Fraction(86400), Fraction(0)), ('(d + 86400 s) - d in America/New_York across 2021-03-14', '((d - 86400 s) + 86400 s) - d in Europe/Berlin across 2021-10-31')):
            g = obs_number_json(o)
            if o.get('outcome') == 'panic' or g is None or g[0] != w:
                return True, '%s gave %s, expected %s s' % (txt, g if g is not None else o.get('display') or o.get('panic'), w)
        if (t * 10 ** 9).denominator != 1:
            return False, 'not a whole number of nanoseconds'
        if got is None or got[0] != want:
            return True, 'query gave %s, expected %s s' % (got, want)
        return False, 'query agrees'


def stub_eval_expr_env(ex, nc, args):
    return ex.env['eval_expr'](ex, args)


def stub_date_reply(ex, nc, args):
    d = deref_all(args[1])
    return Struct('DateReply', [d])


class OffsetConversion(Harness):
    name = 'eval_query.offset_conversion'
    props = ('C14', 'C04')
    describe = 'parse_offset on [+/-, hh, :, mm] with symbolic 2-digit strings, then eval_query(Convert(_, Offset(off)))'
    entry_name = 'parse_offset ; eval_query'
    stubs = (SHOW_STUB, (r'^eval_expr$', stub_eval_expr_env, 'eval_expr -> arbitrary DateTime value'),
             (r'^DateReply::new$', stub_date_reply, 'DateReply::new -> record of the re-zoned DateTime'))
    expect_classes = ['Result::Ok', 'Result::Err']
    bounds = ['offset text shape: sign, hour digits (2, or 1 / 3 / 16 / 20 which parse_offset must decline), colon, two digits']
    _concrete = None

    def build(self, ex, I):
        from mirsym.lib import PeekableV, VecIter
        sign = ex.choose(2, 'sign')
        if self._concrete is not None:
            sign = 0 if self._concrete['sign'] > 0 else 1
        nh = 2 if self._concrete is not None else [2, 1, 3, 16, 20][ex.choose(5, 'hour digits')]
        hh = [I.int('h%d' % i) for i in range(nh)]
        mm = [I.int('m0'), I.int('m1')]
        if self._concrete is None:
            for c in hh + mm:
                ex.assume(z3.And(c >= 48, c <= 57))
        d = I.int('d')
        for a in dt_bounds_axioms():
            ex.assume(a)
        ex.assume(z3.And(d >= DT_MIN, d <= DT_MAX))
        toks = [variant(ex, 'Token', 'Plus' if sign == 0 else 'Minus'),
                variant(ex, 'Token', 'Decimal', [SymStr(hh), none(ex), none(ex)]),
                variant(ex, 'Token', 'Colon'),
                variant(ex, 'Token', 'Decimal', [SymStr(mm), none(ex), none(ex)]),
                variant(ex, 'Token', 'Eof')]
        it = PeekableV(VecIter(toks))
        kind = ['Fixed', 'Timezone'][ex.choose(2, 'date kind')]
        zone = Struct('FixedOffset', [0]) if kind == 'Fixed' else Struct('Tz', [Opaque('tz')])
        dt = variant(ex, 'GenericDateTime', kind, [mk_datetime(d, zone)])
        ex.env['eval_expr'] = lambda ex_, a: ok(variant(ex_, 'Value', 'DateTime', [dup(dt)]))
        off = (1 if sign == 0 else -1) * 1
        return [it], {'sign': 1 if sign == 0 else -1, 'hh': hh, 'mm': mm, 'd': d, 'nh': nh}

    def entry(self, ex, args, ctx):
        it = args[0]
        o = ex.call(None, 'parsing::text_query::parse_offset', [ref(it)])
        o = deref_all(o)
        if o.variant == 0:
            return Tup([o, none(ex)])
        off = o.fields[0]
        q = variant(ex, 'Query', 'Convert', [expr_unit(ex, 'now'), variant(ex, 'Conversion', 'Offset', [off]), none(ex),
                                             variant(ex, 'Digits', 'Default')])
        r = ex.call(None, 'runtime::eval::eval_query', [ref(Opaque('Context')), ref(q)])
        return Tup([o, some(ex, r)])

    def classify(self, outcome):
        if outcome[0] == 'panic':
            return 'panic'
        t = deref_all(outcome[1])
        r = deref_all(t.fields[1])
        if r.variant == 0:
            return 'not-an-offset'
        rr = deref_all(r.fields[0])
        return 'Result::Ok' if rr.variant == 0 else 'Result::Err'

    def post(self, ex, ctx, outcome):
        hh, mm, sign, d = ctx['hh'], ctx['mm'], ctx['sign'], ctx['d']
        t = deref_all(outcome[1])
        o = deref_all(t.fields[0])
        if ctx['nh'] != 2:
            # only hh:mm is an offset; anything else is left to the expression parser
            return [('an hour field of %d digits is not taken as an offset' % ctx['nh'], o.variant == 0)]
        secs = sign * (((hh[0] - 48) * 10 + (hh[1] - 48)) * 3600 + ((mm[0] - 48) * 10 + (mm[1] - 48)) * 60)
        obs = [('a well-formed offset is recognised', o.variant == 1)]
        if o.variant == 0:
            return obs
        obs.append(('offset = sign*(hh*3600 + mm*60)', zint(o.fields[0]) == secs))
        r = deref_all(deref_all(t.fields[1]).fields[0])
        in_range = z3.And(secs > -86400, secs < 86400)
        if r.variant == 0:
            obs.append(('offsets outside +-24h are refused', in_range))
            rep = deref_all(r.fields[0])
            dt = deref_all(rep.fields[0].fields[0]) if isinstance(rep, Enum) else None
            if dt is None:
                obs.append(('reply is a date', False))
            else:
                obs.append(('re-zoning keeps the instant', zint(dt.fields[0]) == zint(d)))
                obs.append(('new zone is the requested offset', zint(dt.fields[1].fields[0]) == secs))
        else:
            obs.append(('only offsets outside +-24h are refused', z3.Not(in_range)))
        return obs

    def case(self, ctx, vals, label):
        c = Harness.case(self, ctx, vals, label)
        c['inputs']['sign'] = ctx['sign']
        return c

    def _text(self, inputs):
        nh = len([k for k in inputs if k.startswith('h') and k[1:].isdigit()])
        hh = ''.join(chr(int(inputs['h%d' % i])) for i in range(nh))
        mm = chr(int(inputs['m0'])) + chr(int(inputs['m1']))
        return '%s%s:%s' % ('+' if int(inputs['sign']) > 0 else '-', hh, mm), int(inputs['sign']) * (int(hh) * 3600 + int(mm) * 60)

    def prefer(self, ctx):
        return [ctx['d'] == 1577836800123456789]

    @staticmethod
    def _instant(inputs):
        """the model's instant if a literal can spell it (years 1..9999), else 2020-01-01 00:00:00.123456789"""
        try:
            d = int(inputs.get('d'))
        except (TypeError, ValueError):
            d = None
        if d is None or not (-62135596800 * 10 ** 9 < d < 253402300799 * 10 ** 9):
            d = 1577836800123456789
        return d

    @staticmethod
    def _literal(d):
        import datetime as _dt
        secs, ns = divmod(d, 10 ** 9)
        t = _dt.datetime(1970, 1, 1) + _dt.timedelta(seconds=secs)
        return '%04d-%02d-%02d %02d:%02d:%02d.%09d +00:00' % (t.year, t.month, t.day, t.hour, t.minute, t.second, ns)

    @staticmethod
    def _instant_of_rfc3339(text):
        import datetime as _dt
        m = re.match(r'^(-?\d{4,})-(\d\d)-(\d\d)T(\d\d):(\d\d):(\d\d)(?:\.(\d+))?(Z|[+-]\d\d:\d\d)$', text or '')
        if not m:
            return None
        y, mo, da, h, mi, se = (int(m.group(k)) for k in range(1, 7))
        frac = (m.group(7) or '')[:9].ljust(9, '0')
        off = 0
        if m.group(8) != 'Z':
            sg = 1 if m.group(8)[0] == '+' else -1
            off = sg * (int(m.group(8)[1:3]) * 3600 + int(m.group(8)[4:6]) * 60)
        base = (_dt.datetime(y, mo, da, h, mi, min(se, 59)) - _dt.datetime(1970, 1, 1))
        return ((base.days * 86400 + base.seconds + (se - min(se, 59))) - off) * 10 ** 9 + int(frac)

    def native(self, inputs, label):
        txt, secs = self._text(inputs)
        return [{'mode': 'query', 'text': '#%s# -> %s' % (self._literal(self._instant(inputs)), txt)}]

    def judge(self, inputs, label, obs):
        txt, secs = self._text(inputs)
        q = obs[0]
        if q.get('outcome') == 'panic' or q.get('render_panic'):
            return True, '`-> %s` panics: %s' % (txt, q.get('panic') or q.get('render_panic'))
        if len(txt.split(':')[0]) != 3:
            # not hh:mm: must not be answered as a zone conversion (an error, or whatever the expression means)
            j = q.get('json') or {}
            return (q.get('outcome') == 'ok' and j.get('type') == 'date'), '`-> %s` gave %s' % (txt, q.get('display'))
        if abs(secs) >= 86400:
            return (q.get('outcome') != 'err'), '`-> %s` gave %s' % (txt, q.get('display'))
        j = q.get('json') or {}
        if q.get('outcome') != 'ok' or j.get('type') != 'date':
            return True, '`-> %s` gave %s' % (txt, q.get('display'))
        d = self._instant(inputs)
        got = self._instant_of_rfc3339(j.get('rfc3339'))
        if got is None:
            return False, '`-> %s`: reply %s not understood by the judge' % (txt, j.get('rfc3339'))
        if got != d:
            return True, '`#%s# -> %s` gave %s: the instant moved by %d ns' % (self._literal(d), txt, j.get('rfc3339'), got - d)
        want_off = '%s%02d:%02d' % ('+' if secs >= 0 else '-', abs(secs) // 3600, abs(secs) % 3600 // 60)
        if not (j.get('rfc3339') or '').endswith(want_off) and not (secs == 0 and (j.get('rfc3339') or '').endswith('Z')):
            return True, '`-> %s` gave %s: not in the requested offset' % (txt, j.get('rfc3339'))
        return False, '`#%s# -> %s` gave %s: same instant' % (self._literal(d), txt, j.get('rfc3339'))


def harnesses(tier):
    hs = [ToDuration(), ToDurationFloat(), FromDuration(), OffsetConversion()]
    combos = [('Fixed', 'Fixed'), ('Fixed', 'Timezone'), ('Timezone', 'Fixed'), ('Timezone', 'Timezone')]
    for l, r in combos:
        hs.append(DateRoundTrip('add_sub', l, r))
    for l in ('Fixed', 'Timezone'):
        hs.append(DateRoundTrip('sub_add', l, l))
    return hs
