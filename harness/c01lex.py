"""C01 (literal notation): the number lexer (`TokenIterator::next`) composed with `Number::from_parts` / `parse_radix`
on literal *shapes* whose punctuation is concrete and whose digits are symbolic."""
import z3
from .common import *  # noqa
from mirsym.lib import PeekableV, VecIter

# D = decimal digit, H = hex digit, O = octal digit, B = binary digit; everything else literal
DEC_SHAPES = ['D', 'DD', 'DDD', 'D.D', 'DD.DD', '.D', '.DD', 'D_D', 'D_DD.D_D', 'D.DD_D', 'D.D_D_D', 'D DD.D D', 'DeD', 'DED', 'De+D', 'De-D',
              'D.DeD', 'D.DDe-D', '.DeD', 'D_D.D_De-D', 'DeeD', 'De-DD', 'DD.DDeD_D',
              # digit runs around the widths of machine integers (a fast path through i64 / u64 / i128 would show here)
              'D.' + 'D' * 18, 'D.' + 'D' * 19, '.' + 'D' * 20, 'D' * 19, 'D' * 20 + '.D', 'D' * 39, 'D.' + 'D' * 39]
RADIX_SHAPES = ['0xH', '0xHH', '0xH_H', '0x_HH', '0xHHH', '0oO', '0oOO', '0oO_O', '0bB', '0bBB', '0bB_BB', '0bBBBB',
                # full machine-word widths: T = leading digit from {7, 8, f}, N = hex digit restricted to 0-9 (one class: no fork per digit)
                '0xT' + 'N' * 15, '0xT' + 'N' * 16, '0xT' + 'N' * 7, '0o1' + 'O' * 21, '0o7' + 'O' * 20, '0b1' + 'B' * 3 + '0' * 60, '0b' + '1' * 62 + 'BB']
CLASS = {'D': (10, 10), 'H': (16, 16), 'O': (8, 8), 'B': (2, 2), 'N': (10, 10), 'T': (16, 16)}


def sym_digit(ex, I, name, radix):
    c = I.int(name)
    if radix <= 10:
        ex.assume(z3.And(c >= 48, c < 48 + radix))
        return c, c - 48
    ex.assume(z3.Or(z3.And(c >= 48, c <= 57), z3.And(c >= 97, c <= 102), z3.And(c >= 65, c <= 70)))
    return c, z3.If(c <= 57, c - 48, z3.If(c >= 97, c - 87, c - 55))


class LiteralValue(Harness):
    props = ('C01', 'C04')
    entry_name = '<text_query::TokenIterator as Iterator>::next ; Number::from_parts | parse_radix'
    loop_bound = 90
    _concrete = None

    def __init__(self, shapes, name):
        self.shapes = shapes
        self.name = name
        self.describe = 'number literals of %d shapes (%s ...) with symbolic digits: lexer token then from_parts/parse_radix value vs positional notation' % (len(shapes), ', '.join(shapes[:6]))
        self.bounds = ['literal shapes listed in the harness (decimal <= 10 characters with separators _ and U+2009, fraction, exponent <= 2 digits; 0x/0o/0b up to 64 bits + 1 digit)']
        self.expect_classes = ['Result::Ok']

    def build(self, ex, I):
        shape = self.shapes[ex.choose(len(self.shapes), 'literal shape')]
        chars = []
        digs = []      # (position in shape, value expr)
        for i, ch in enumerate(shape):
            if ch == 'T':
                t = ['7', '8', 'f'][ex.choose(3, 'leading digit')]
                chars.append(ord(t))
                digs.append(z3.IntVal(int(t, 16)))
                ctx_lead = t
            elif ch in CLASS:
                c, v = sym_digit(ex, I, 'c%d' % i, CLASS[ch][0])
                chars.append(c)
                digs.append(v)
            elif ch.isdigit() and i >= 2 and shape[:2] in ('0x', '0o', '0b'):
                chars.append(ord(ch))
                digs.append(z3.IntVal(int(ch)))
            else:
                chars.append(ord(ch))
                digs.append(None)
        it = Struct('TokenIterator', [PeekableV(VecIter(chars))], 'text_query')
        return [it], {'shape': shape, 'digs': digs, 'chars': chars, 'text0': ''.join(chr(c) if is_conc(c) else '?' for c in chars)}

    def entry(self, ex, args, ctx):
        it = args[0]
        tok = ex.call(None, '<parsing::text_query::TokenIterator<\'_> as Iterator>::next', [ref(it)])
        t = deref_all(deref_all(tok).fields[0])
        ctx['token'] = t.vname
        if t.vname == 'Decimal':
            i, f, e = t.fields
            fr = deref_all(f)
            er = deref_all(e)
            r = ex.call(None, 'types::number::Number::from_parts', [deref_all(i), fr if fr.variant == 0 else some(ex, deref_all(fr.fields[0])),
                                                                    er if er.variant == 0 else some(ex, deref_all(er.fields[0]))])
            rest = ex.call(None, '<parsing::text_query::TokenIterator<\'_> as Iterator>::next', [ref(it)])
            return Tup([r, rest])
        if t.vname in ('Hex', 'Oct', 'Bin'):
            radix = {'Hex': 16, 'Oct': 8, 'Bin': 2}[t.vname]
            e = ex.call(None, 'parsing::text_query::parse_radix', [deref_all(t.fields[0]), radix, 'desc'])
            e = deref_all(e)
            rest = ex.call(None, '<parsing::text_query::TokenIterator<\'_> as Iterator>::next', [ref(it)])
            if e.vname == 'Const':
                return Tup([ok(e.fields[0]), rest])
            return Tup([err('parse_radix error'), rest])
        return Tup([err('token ' + t.vname), none(ex)])

    def classify(self, outcome):
        if outcome[0] == 'panic':
            return 'panic'
        r = deref_all(deref_all(outcome[1]).fields[0])
        return 'Result::Ok' if r.variant == 0 else 'Result::Err'

    def oracle(self, ctx):
        """positional value of the literal from its digit expressions"""
        shape, digs = ctx['shape'], ctx['digs']
        if shape.startswith('0x') or shape.startswith('0o') or shape.startswith('0b'):
            radix = {'x': 16, 'o': 8, 'b': 2}[shape[1]]
            v = z3.IntVal(0)
            for ch, d in list(zip(shape, digs))[2:]:
                if d is not None:
                    v = v * radix + d
            return z3.ToReal(v)
        mant, _, ex_ = shape.lower().replace('ee', 'e').partition('e')
        # split digit expressions by position
        pos = 0
        ip, fp, ep = [], [], []
        seen_dot = False
        seen_e = False
        esign = 1
        for ch, d in zip(shape, digs):
            if ch in ('e', 'E'):
                seen_e = True
            elif ch == '.':
                seen_dot = True
            elif ch == '-' and seen_e:
                esign = -1
            elif d is not None:
                (ep if seen_e else fp if seen_dot else ip).append(d)
        iv = z3.IntVal(0)
        for d in ip:
            iv = iv * 10 + d
        fv = z3.IntVal(0)
        for d in fp:
            fv = fv * 10 + d
        val = z3.ToReal(iv) + (z3.ToReal(fv) / (10 ** len(fp)) if fp else 0)
        if ep:
            # exponent digits are symbolic: enumerate its (small) range
            evs = z3.IntVal(0)
            for d in ep:
                evs = evs * 10 + d
            res = None
            for k in range(10 ** len(ep) - 1, -1, -1):
                term = val * (zreal(Fraction(10) ** (esign * k)))
                res = term if res is None else z3.If(evs == k, term, res)
            return res
        return val

    def post(self, ex, ctx, outcome):
        t = deref_all(outcome[1])
        r = deref_all(t.fields[0])
        rest = deref_all(t.fields[1])
        obs = []
        if r.variant != 0:
            return [('a well-formed literal of shape %s is a number (token %s)' % (ctx['shape'], ctx.get('token')), False)]
        kind, x = numeric_parts(r.fields[0])
        obs.append(('literal is an exact rational', kind == 'rational'))
        if kind == 'rational':
            obs.append(('value of %s = positional notation' % ctx['shape'], zreal(x) == self.oracle(ctx)))
        if rest.variant == 1:
            nxt = deref_all(rest.fields[0])
            obs.append(('the whole literal is one token', nxt.vname == 'Eof'))
        return obs

    def case(self, ctx, vals, label):
        c = Harness.case(self, ctx, vals, label)
        c['inputs']['shape'] = ctx['shape']
        c['inputs']['text0'] = ctx['text0']
        return c

    def _text(self, inputs):
        t0 = inputs['text0']
        return ''.join(chr(int(inputs['c%d' % i])) if ch == '?' else ch for i, ch in enumerate(t0))

    def native(self, inputs, label):
        return [{'mode': 'query', 'text': self._text(inputs)}]

    def judge(self, inputs, label, obs):
        txt = self._text(inputs)
        q = obs[0]
        if q.get('outcome') == 'panic' or q.get('render_panic'):
            return True, '`%s` panics: %s' % (txt, q.get('panic') or q.get('render_panic'))
        got = obs_number_json(q)
        clean = txt.replace('_', '').replace(' ', '')
        low = clean.lower()
        if low.startswith('0x'):
            want = Fraction(int(low[2:], 16))
        elif low.startswith('0o'):
            want = Fraction(int(low[2:], 8))
        elif low.startswith('0b'):
            want = Fraction(int(low[2:], 2))
        else:
            low = low.replace('ee', 'e')
            m, _, e = low.partition('e')
            if m.startswith('.'):
                m = '0' + m
            want = Fraction(m) * Fraction(10) ** int(e.replace('+', '') or 0)
        if got is None or got[0] != want:
            return True, '`%s` evaluates to %s, positional value is %s' % (txt, got, want)
        return False, 'agrees'


# literals in which some digit run is empty or holds separators only: whatever they mean, reading them must not panic
MALFORMED_SHAPES = ['D._', 'D.__', 'D. ', '._', '. ', 'D._eD', 'D.', 'D.eD', 'De', 'De_', 'De+', 'De-_', 'D.De_', 'D_', 'D_.D', 'D _._ D', '0x', '0x_',
                    '0x _', '0o', '0o_', '0b', '0b_', '0b__B', '0x_H_', 'D.D_', '.D_e_D', 'DeD_', '._D']


class MalformedLiteral(LiteralValue):
    props = ('C04',)

    def __init__(self):
        LiteralValue.__init__(self, MALFORMED_SHAPES, 'literal.malformed_shapes')
        self.describe = ('number-like text of %d shapes in which a digit run is empty or made of separators only (%s ...), other digits symbolic: '
                         'lexer token, then from_parts / parse_radix if it is a number token - no panic') % (len(MALFORMED_SHAPES), ', '.join(MALFORMED_SHAPES[:8]))
        self.expect_classes = ['Result::Err']

    def post(self, ex, ctx, outcome):
        return []

    def judge(self, inputs, label, obs):
        txt = self._text(inputs)
        q = obs[0]
        if q.get('outcome') == 'panic' or q.get('render_panic'):
            return True, '`%s` panics: %s' % (txt, q.get('panic') or q.get('render_panic'))
        return False, '`%s` answers %s' % (txt, q.get('display'))


def harnesses(tier):
    return [LiteralValue(DEC_SHAPES, 'literal.decimal_shapes'), LiteralValue(RADIX_SHAPES, 'literal.radix_shapes'), MalformedLiteral()]


# ============================================================================================================
# Precedence and associativity: real parser (`parse_expr`) + real evaluator on operator sequences with symbolic
# operand values, against an independent evaluation of the same token list under the documented grammar.

class RepeatEof:
    """token source: the given tokens, then Eof forever (like the real TokenIterator)"""
    is_model = True

    def __init__(self, toks, eof):
        self.toks = list(toks)
        self.pos = 0
        self.eof = eof

    def dup(self):
        r = RepeatEof(self.toks, self.eof)
        r.pos = self.pos
        return r

    def next(self, ex):
        if self.pos < len(self.toks):
            t = self.toks[self.pos]
            self.pos += 1
            return some(ex, dup(t))
        return some(ex, dup(self.eof))


BIN = ['+', '-', '*', '/', '|', '', '^', 'mod']


class Oracle:
    """recursive descent over the same token list, written from the manual's rules:
       + -  <  * / mod (left to right)  <  juxtaposition  <  |  <  ^ (right assoc)  <  unary sign  <  term"""

    def __init__(self, toks, env):
        self.t = toks
        self.i = 0
        self.env = env
        self.defined = []

    def peek(self):
        return self.t[self.i] if self.i < len(self.t) else None

    def take(self):
        x = self.peek()
        self.i += 1
        return x

    def expr(self):
        v = self.div()
        while self.peek() in ('+', '-'):
            op = self.take()
            r = self.div()
            v = v + r if op == '+' else v - r
        return v

    def div(self):
        v = self.juxt()
        while self.peek() in ('*', '/', 'mod'):
            op = self.take()
            r = self.juxt()
            if op == '*':
                v = v * r
            elif op == '/':
                self.defined.append(r != 0)
                v = v / r
            else:
                self.defined.append(r != 0)
                q = v / r
                v = v - r * z3.ToReal(z3.If(q >= 0, z3.ToInt(q), -z3.ToInt(-q)))
        return v

    def juxt(self):
        v = self.frac()
        while self.peek() is not None and self.peek() not in ('+', '-', '*', '/', 'mod', ')', '|', '^'):
            v = v * self.frac()
        return v

    def frac(self):
        v = self.pow()
        if self.peek() == '|':
            self.take()
            r = self.pow()
            self.defined.append(r != 0)
            v = v / r
        return v

    def pow(self):
        v = self.term()
        if self.peek() == '^':
            self.take()
            e = self.pow_exponent()
            if e >= 0:
                r = z3.RealVal(1)
                for _ in range(e):
                    r = r * v
                return r
            self.defined.append(v != 0)
            r = z3.RealVal(1)
            for _ in range(-e):
                r = r * v
            return 1 / r
        return v

    def pow_exponent(self):
        """exponents are integer literals (possibly signed, possibly a tower)"""
        t = self.take()
        sign = 1
        while t in ('-', '+'):
            sign = -sign if t == '-' else sign
            t = self.take()
        e = int(t)
        if self.peek() == '^':
            self.take()
            e = e ** self.pow_exponent()
        return sign * e

    def term(self):
        t = self.take()
        if t == '-':
            return -self.term()
        if t == '+':
            return self.term()
        if t == '(':
            v = self.expr()
            assert self.take() == ')'
            return v
        if isinstance(t, str) and t.isdigit():
            return z3.RealVal(int(t))
        return self.env[t]


def gen_sequences(nleaves, ops, with_parens):
    import itertools
    names = ['a', 'b', 'c', 'd'][:nleaves]
    out = []
    for combo in itertools.product(ops, repeat=nleaves - 1):
        toks = []
        ok = True
        for i, n in enumerate(names):
            if i > 0:
                op = combo[i - 1]
                if op:
                    toks.append(op)
                if op == '^':
                    toks.append('2' if i % 2 else '3')
                    continue
            toks.append(n)
        out.append(toks)
        if with_parens and nleaves == 3:
            # parenthesise the right pair
            t2 = []
            k = 0
            first_op_seen = False
            out.append(_paren_right(names, combo))
    uniq = []
    seen = set()
    for t in out:
        if t is None:
            continue
        if t.count('|') > 1:
            continue      # `a|b|c` is not covered by the manual (rink rejects it); outside
        if 'mod' in t and ('/' in t or '|' in t):
            continue      # remainder involving a symbolic quotient: z3 does not decide it within the budget; outside (stated)
        if t.count('^') >= 3:
            continue      # a ^ 2 ^ 3 ^ 2 = a^512: powers of a symbolic base above 64 are not expanded; outside (stated)

        key = ' '.join(t)
        if key not in seen:
            seen.add(key)
            uniq.append(t)
    return uniq


def _paren_right(names, combo):
    if '^' in combo:
        return None
    toks = [names[0]]
    if combo[0]:
        toks.append(combo[0])
    toks.append('(')
    toks.append(names[1])
    if combo[1]:
        toks.append(combo[1])
    toks.append(names[2])
    toks.append(')')
    return toks


TOKMAP = {'+': 'Plus', '-': 'Minus', '*': 'Asterisk', '/': 'Slash', '|': 'Pipe', '^': 'Caret', 'mod': 'KeywordMod', '(': 'LPar', ')': 'RPar'}


class Precedence(Harness):
    props = ('C01', 'C04')
    entry_name = 'parse_expr ; eval_expr'
    stubs = (LOOKUP_STUB, SHOW_STUB)
    loop_bound = 40
    _concrete = None

    def __init__(self, nleaves, name, unary=False):
        self.nleaves = nleaves
        self.name = name
        self.unary = unary
        seqs = gen_sequences(nleaves, BIN, True)
        if unary:
            seqs = [['-'] + s for s in gen_sequences(2, BIN, False)] + [[s[0], s[1], '-'] + s[2:] for s in gen_sequences(2, ['+', '-', '*', '/', '^'], False) if len(s) == 3]
        self.seqs = seqs
        self.describe = ('%d operator sequences over %d operands (operators + - * / | juxtaposition ^ mod, parentheses%s): the real parser and '
                         'evaluator against an independent evaluation under the manual\'s precedence and associativity; operand values symbolic') % (
            len(seqs), nleaves, ', unary minus' if unary else '')
        self.bounds = ['expressions of %d operands; exponents after ^ are the literals 2 / 3; operands dimensionless' % nleaves,
                       'excluded: chained `a|b|c`, sequences that combine `mod` with a division, three chained `^`']
        self.expect_classes = ['Result::Ok']

    def build(self, ex, I):
        seq = self.seqs[ex.choose(len(self.seqs), 'token sequence')]
        env = {n: I.real(n) for n in ('a', 'b', 'c', 'd')}
        ex.env['units'] = {n: number(rational(v), dim({})) for n, v in env.items()}
        toks = []
        for t in seq:
            if t in TOKMAP:
                toks.append(variant(ex, 'Token', TOKMAP[t]))
            elif t.isdigit():
                toks.append(variant(ex, 'Token', 'Decimal', [t, none(ex), none(ex)]))
            else:
                toks.append(variant(ex, 'Token', 'Ident', [t]))
        from mirsym.lib import PeekableV
        it = PeekableV(RepeatEof(toks, variant(ex, 'Token', 'Eof')))
        return [it], {'seq': seq, 'env': env}

    def entry(self, ex, args, ctx):
        e = ex.call(None, 'parsing::text_query::parse_expr', [ref(args[0])])
        rest = args[0].next(ex)
        ctx['rest'] = deref_all(rest.fields[0]).vname
        return ex.call(None, 'runtime::eval::eval_expr', [ref(Opaque('Context')), ref(e)])

    def post(self, ex, ctx, outcome):
        o = Oracle(ctx['seq'], {k: zreal(v) for k, v in ctx['env'].items()})
        want = o.expr()
        defined = z3.And(*o.defined) if o.defined else z3.BoolVal(True)
        r = deref_all(outcome[1])
        txt = ' '.join(ctx['seq'])
        obs = [('the parser consumes the whole of `%s`' % txt, ctx['rest'] == 'Eof')]
        if is_err(r):
            obs.append(('`%s` fails only where a division is by zero' % txt, z3.Not(defined)))
            return obs
        v = deref_all(payload(r))
        val, d = number_parts(v.fields[0])
        kind, x = numeric_parts(val)
        obs.append(('`%s` is defined' % txt, defined))
        obs.append(('`%s` stays rational' % txt, kind == 'rational'))
        if kind == 'rational':
            obs.append(('`%s` = value under the manual\'s precedence' % txt, z3.Implies(defined, zreal(x) == want)))
        return obs

    def case(self, ctx, vals, label):
        c = Harness.case(self, ctx, vals, label)
        c['inputs']['seq'] = ' '.join(ctx['seq'])
        return c

    def prefer(self, ctx):
        out = []
        for n, v in ctx['env'].items():
            out += [v != 0, z3.And(v >= 2, v <= 13), z3.IsInt(v)]
        e = ctx['env']
        out += [e['a'] != e['b'], e['b'] != e['c'], e['a'] != e['c']]
        return out

    def _text(self, inputs):
        vals = {n: frac_text(Fraction(inputs.get(n, 1))) for n in ('a', 'b', 'c', 'd')}
        return ' '.join(vals.get(t, t) for t in inputs['seq'].split(' '))

    def native(self, inputs, label):
        return [{'mode': 'query', 'text': self._text(inputs)}]

    def judge(self, inputs, label, obs):
        q = obs[0]
        if q.get('outcome') == 'panic' or q.get('render_panic'):
            return True, '`%s` panics: %s' % (self._text(inputs), q.get('panic') or q.get('render_panic'))
        # concrete oracle with exact fractions
        env = {n: z3.RealVal(str(Fraction(inputs.get(n, 1)))) for n in ('a', 'b', 'c', 'd')}
        o = Oracle(inputs['seq'].split(' '), env)
        want = z3.simplify(o.expr())
        defined = z3.simplify(z3.And(*o.defined)) if o.defined else z3.BoolVal(True)
        got = obs_number_json(q)
        if z3.is_false(defined):
            return (got is not None), '`%s` should be an error, got %s' % (self._text(inputs), got)
        wv = Fraction(want.numerator_as_long(), want.denominator_as_long()) if z3.is_rational_value(want) else None
        return (got is None or wv is None or got[0] != wv), '`%s` = %s, manual precedence gives %s' % (self._text(inputs), got, wv)


_lex_h = harnesses


def harnesses(tier):   # noqa: F811
    hs = _lex_h(tier) + [Precedence(3, 'parser.precedence.3_operands'), Precedence(2, 'parser.precedence.unary_minus', unary=True)]
    if tier == 'thorough':
        hs.append(Precedence(4, 'parser.precedence.4_operands'))
    return hs


# ---------------------------------------------------------------------------------------------------------------
# parse_query: the `-> [digits N] [base B]` suffix.  The digit printers downstream assume 2 <= base <= 36.

def _tz_from_str(ex, args):
    t = deref_all(args[0])
    if isinstance(t, str) and t in ('GB', 'UTC', 'Japan'):
        return ex.make_variant('Result', 'Ok', [Struct('Tz', [Opaque('tz:' + t)])])
    return ex.make_variant('Result', 'Err', ['not a timezone'])


def _has_error(v, depth=0):
    v = deref_all(v)
    if depth > 12:
        return False
    if isinstance(v, Enum):
        if v.vname == 'Error' and 'Expr' in str(v.ty):
            return True
        return any(_has_error(f, depth + 1) for f in v.fields)
    if isinstance(v, (Struct, Tup, Arr)):
        return any(_has_error(f, depth + 1) for f in v.fields)
    return False


class ConversionSuffix(Harness):
    name = 'parse_query.conversion_suffix'
    props = ('C04', 'C05', 'C10')
    entry_name = 'parse_query'
    loop_bound = 40
    describe = ('parse_query on `x -> [digits N] [base B | hex | oct | bin] [target]` with symbolic decimal digits for N and B: the query carries '
                'exactly the base and digit count written, a base outside 2..=36 is an error, nothing panics; a temperature-scale target is '
                'a scale conversion only when the scale is the whole target (`-> degC / s`, `-> degF m` are compound targets)')
    bounds = ['left-hand side = one identifier; N of 1..3 digits, B of 1..3 digits; target absent, one identifier, a scale, or a scale followed by `/ y` or `y`']
    TARGETS = [None, 'ident', 'degree', 'degree/ident', 'degree ident', 'ident/degree', 'ident*degree', 'degree^2', 'ident per degree',
               'ident:Gb', 'ident:UTC']     # a unit name (gigabit) whose upper-cased spelling is a zone name, next to a zone name
    expect_classes = ['Convert', 'Error']
    _concrete = None
    stubs = ((r'^<Tz as FromStr>::from_str$', lambda ex, nc, a: _tz_from_str(ex, a),
              'chrono_tz::Tz::from_str -> Ok for the exact spellings GB, UTC, Japan (tz database names are case-sensitive), Err otherwise'),)
    DIGITS = [None, 'digits', 'digitsN', 'sci', 'frac']
    BASES = [None, 'base', 'hex', 'oct', 'bin', 'base-eof', 'base-ident']

    def build(self, ex, I):
        from mirsym.lib import PeekableV
        from .c14dates import digits as sym_digits
        dg = self.DIGITS[ex.choose(len(self.DIGITS), 'digits clause')]
        bs = self.BASES[ex.choose(len(self.BASES), 'base clause')]
        tgt = self.TARGETS[ex.choose(len(self.TARGETS), 'target')]
        T = lambda n, f=(): variant(ex, 'Token', n, list(f))
        toks = [T('Ident', ['x']), T('DashArrow')]
        ctx = {'dg': dg, 'bs': bs, 'tgt': tgt, 'n': None, 'b': None}
        if dg in ('digits', 'digitsN'):
            toks.append(T('Ident', ['digits']))
            if dg == 'digitsN':
                k = 1 + ex.choose(3, 'digit-count length')
                cs, v = sym_digits(ex, I, 'n', k)
                toks.append(T('Decimal', [SymStr(cs), none(ex), none(ex)]))
                ctx['n'] = v
        elif dg:
            toks.append(T('Ident', [dg]))
        if bs == 'base':
            k = 1 + ex.choose(3, 'base length')
            cs, v = sym_digits(ex, I, 'b', k)
            toks += [T('Ident', ['base']), T('Decimal', [SymStr(cs), none(ex), none(ex)])]
            ctx['b'] = v
        elif bs == 'base-eof':
            toks.append(T('Ident', ['base']))
            tgt = None
        elif bs == 'base-ident':
            toks += [T('Ident', ['base']), T('Ident', ['ten'])]
        elif bs:
            toks.append(T('Ident', [bs]))
        if tgt == 'ident':
            toks.append(T('Ident', ['y']))
        elif tgt and tgt.startswith('ident:'):
            toks.append(T('Ident', [tgt.split(':')[1]]))
        elif tgt in ('ident/degree', 'ident*degree', 'ident per degree'):
            toks += [T('Ident', ['y']), T({'ident/degree': 'Slash', 'ident*degree': 'Asterisk', 'ident per degree': 'Slash'}[tgt]),
                     T('Degree', [variant(ex, 'Degree', 'Fahrenheit' if tgt == 'ident per degree' else 'Celsius')])]
        elif tgt:
            toks.append(T('Degree', [variant(ex, 'Degree', 'Celsius')]))
            if tgt == 'degree/ident':
                toks += [T('Slash'), T('Ident', ['y'])]
            elif tgt == 'degree ident':
                toks.append(T('Ident', ['y']))
            elif tgt == 'degree^2':
                toks += [T('Caret'), T('Decimal', ['2', none(ex), none(ex)])]
        ctx['tgt'] = tgt
        it = PeekableV(RepeatEof(toks, variant(ex, 'Token', 'Eof')))
        return [it], ctx

    def entry(self, ex, args, ctx):
        return ex.call(None, 'parsing::text_query::parse_query', [ref(args[0])])

    def classify(self, outcome):
        if outcome[0] == 'panic':
            return 'panic'
        return deref_all(outcome[1]).vname

    def post(self, ex, ctx, outcome):
        q = deref_all(outcome[1])
        dg, bs = ctx['dg'], ctx['bs']
        if q.vname == 'Error':
            ok_err = z3.BoolVal(bs in ('base-eof', 'base-ident'))
            if bs == 'base':
                ok_err = z3.Or(ctx['b'] < 2, ctx['b'] > 36)
            return [('a well-formed suffix with a base in 2..=36 is accepted', ok_err)]
        if q.vname != 'Convert':
            return [('a `->` query is a conversion (got %s)' % q.vname, False)]
        left, conv, base, digs = (deref_all(f) for f in q.fields)
        obs = []
        if bs in ('base-eof', 'base-ident'):
            obs.append(('`base` without a decimal numeral is an error', False))
        want_b = {None: None, 'hex': 16, 'oct': 8, 'bin': 2}.get(bs, 'sym')
        if want_b is None:
            obs.append(('no base clause, no base', is_none(base)))
        elif want_b == 'sym':
            obs.append(('an accepted base lies in 2..=36', z3.And(ctx['b'] >= 2, ctx['b'] <= 36)))
            obs.append(('the query carries the base that was written', b_and(is_some(base), n_eq(payload(base) if is_some(base) else 0, ctx['b']))))
        else:
            obs.append(('named base', b_and(is_some(base), n_eq(payload(base) if is_some(base) else 0, want_b))))
        want_d = {None: 'Default', 'digits': 'FullInt', 'digitsN': 'Digits', 'sci': 'Scientific', 'frac': 'Fraction'}[dg]
        obs.append(('digits mode is the one written (%s, got %s)' % (want_d, digs.vname), digs.vname == want_d))
        if want_d == 'Digits' and digs.vname == 'Digits':
            obs.append(('digit count is the one written', n_eq(digs.fields[0], ctx['n'])))
        tgt = ctx['tgt']
        if tgt and tgt.startswith('ident:'):
            nm = tgt.split(':')[1]
            want = 'Timezone' if nm in ('GB', 'UTC', 'Japan') else 'Expr'
            obs.append(('the target `%s` is %s (got %s)' % (nm, 'a timezone' if want == 'Timezone' else 'a unit expression, not a timezone', conv.vname),
                        conv.vname == want))
        elif tgt in (None, 'ident'):
            obs.append(('target %s' % ('expression' if tgt else 'absent'), conv.vname == ('Expr' if tgt else 'None')))
        elif tgt == 'degree':
            obs.append(('a bare scale is a scale conversion', conv.vname == 'Degree'))
        else:
            obs.append(('a scale followed by more is a compound target, not a scale conversion (got %s)' % conv.vname, conv.vname != 'Degree'))
            # the scale token cannot open a term: the target expression carries the parser's error, so evaluation refuses it
            obs.append(('a scale token inside a compound target (%s) is a parse error' % tgt, conv.vname == 'Expr' and _has_error(conv)))
        return obs

    def case(self, ctx, vals, label):
        c = Harness.case(self, ctx, vals, label)
        c['inputs'].update({'digits_clause': ctx['dg'], 'base_clause': ctx['bs'], 'target': ctx['tgt']})
        return c

    def _text(self, inputs):
        def num(tag):
            k = len([x for x in inputs if re.match(r'^%s\d+$' % tag, x)])
            return ''.join(chr(int(inputs['%s%d' % (tag, i)])) for i in range(k))
        dg, bs = inputs['digits_clause'], inputs['base_clause']
        t = '10/3 ->'
        if dg == 'digits':
            t += ' digits'
        elif dg == 'digitsN':
            t += ' digits ' + num('n')
        elif dg:
            t += ' ' + dg
        if bs == 'base':
            t += ' base ' + num('b')
        elif bs == 'base-eof':
            t += ' base'
        elif bs == 'base-ident':
            t += ' base ten'
        elif bs:
            t += ' ' + bs
        t += {None: '', 'ident': '', 'degree': ' degC', 'degree/ident': ' degC / s', 'degree ident': ' degC m', 'ident/degree': ' J / degC',
              'ident*degree': ' m * degC', 'degree^2': ' degC^2', 'ident per degree': ' J / degF', 'ident:Gb': ' Gb', 'ident:utc': ' utc',
              'ident:UTC': ' UTC', 0: '', 1: ''}.get(inputs.get('target'), '')
        return t, (int(num('b')) if bs == 'base' else None)

    def native(self, inputs, label):
        t, b = self._text(inputs)
        tg = str(inputs.get('target') or '')
        if tg.startswith('ident:'):
            return [{'mode': 'query', 'text': t.replace('10/3', '1 GB')}, {'mode': 'query', 'text': '1 St -> mSt'}, {'mode': 'query', 'text': '1 m -> Gb'}]
        if 'degree' in tg:
            lhs = {'degree/ident': '300 K/s', 'ident/degree': '3 J/K', 'ident*degree': '3 m K', 'degree^2': '2 K^2', 'ident per degree': '3 J/K'}.get(tg, '300 K')
            return [{'mode': 'query', 'text': t.replace('10/3', lhs)}]
        return [{'mode': 'query', 'text': t}, {'mode': 'query', 'text': t.replace('10/3', '255 m')}]

    def judge(self, inputs, label, obs):
        t, b = self._text(inputs)
        bad = []
        if str(inputs.get('target') or '').startswith('ident:') and inputs.get('target') != 'ident:UTC':
            for txt, q in zip((t.replace('10/3', '1 GB'), '1 St -> mSt', '1 m -> Gb'), obs):
                if 'timezone' in str(q.get('display')):
                    bad.append('`%s` is taken for a timezone conversion: %s' % (txt, q.get('display')))
            return bool(bad), '; '.join(bad[:2]) or 'unit-like targets are unit expressions'
        for q in obs:
            if q.get('outcome') == 'panic' or q.get('render_panic'):
                bad.append('`%s` panics: %s' % (t, q.get('panic') or q.get('render_panic')))
            elif b is not None and not (2 <= b <= 36) and q.get('outcome') == 'ok':
                bad.append('`%s` is answered in base %d: %s' % (t, b, q.get('display')))
            elif inputs['base_clause'] in ('base-eof', 'base-ident') and q.get('outcome') == 'ok':
                bad.append('`%s` is answered: %s' % (t, q.get('display')))
            elif 'degree' in str(inputs.get('target') or '') and inputs.get('target') != 'degree' and q.get('outcome') == 'ok':
                bad.append('the compound scale target of `%s` is not refused: %s' % (t.replace('10/3', '<value>'), q.get('display')))
        return bool(bad), '; '.join(bad[:2]) or '`%s` -> %s' % (t, str(obs[0].get('display'))[:80])


import re  # noqa: E402
_c01lex_prev = harnesses


def harnesses(tier):   # noqa: F811
    return _c01lex_prev(tier) + [ConversionSuffix()]
