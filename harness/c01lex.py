"""C01 (literal notation): the number lexer (`TokenIterator::next`) composed with `Number::from_parts` / `parse_radix`
on literal *shapes* whose punctuation is concrete and whose digits are symbolic."""
import z3
from .common import *  # noqa
from mirsym.lib import PeekableV, VecIter

# D = decimal digit, H = hex digit, O = octal digit, B = binary digit; everything else literal
DEC_SHAPES = ['D', 'DD', 'DDD', 'D.D', 'DD.DD', '.D', '.DD', 'D_D', 'D_DD.D_D', 'D.DD_D', 'D.D_D_D', 'D DD.D D', 'DeD', 'DED', 'De+D', 'De-D',
              'D.DeD', 'D.DDe-D', '.DeD', 'D_D.D_De-D', 'DeeD', 'De-DD', 'DD.DDeD_D']
RADIX_SHAPES = ['0xH', '0xHH', '0xH_H', '0x_HH', '0xHHH', '0oO', '0oOO', '0oO_O', '0bB', '0bBB', '0bB_BB', '0bBBBB']
CLASS = {'D': (10, 10), 'H': (16, 16), 'O': (8, 8), 'B': (2, 2)}


def sym_digit(ex, I, name, radix):
    c = I.int(name)
    if radix <= 10:
        ex.assume(z3.And(c >= 48, c < 48 + radix))
        return c, c - 48
    ex.assume(z3.Or(z3.And(c >= 48, c <= 57), z3.And(c >= 97, c <= 102), z3.And(c >= 65, c <= 70)))
    return c, z3.If(c <= 57, c - 48, z3.If(c >= 97, c - 87, c - 55))


class LiteralValue(Harness):
    props = ('C01', 'C04')
    entry_name = '<text_query::TokenIterator as Iterator>::next ; Number::from_parts | parse_radix'
    loop_bound = 40
    _concrete = None

    def __init__(self, shapes, name):
        self.shapes = shapes
        self.name = name
        self.describe = 'number literals of %d shapes (%s ...) with symbolic digits: lexer token then from_parts/parse_radix value vs positional notation' % (len(shapes), ', '.join(shapes[:6]))
        self.bounds = ['literal shapes listed in the harness (<= 10 characters, digit separators _ and U+2009, fraction, exponent <= 2 digits, 0x/0o/0b)']
        self.expect_classes = ['Result::Ok']

    def build(self, ex, I):
        shape = self.shapes[ex.choose(len(self.shapes), 'literal shape')]
        chars = []
        digs = []      # (position in shape, value expr)
        for i, ch in enumerate(shape):
            if ch in CLASS:
                c, v = sym_digit(ex, I, 'c%d' % i, CLASS[ch][0])
                chars.append(c)
                digs.append(v)
            else:
                chars.append(ord(ch))
                digs.append(None)
        it = Struct('TokenIterator', [PeekableV(VecIter(chars))], 'text_query')
        return [it], {'shape': shape, 'digs': digs, 'chars': chars}

    def entry(self, ex, args, ctx):
        it = args[0]
        tok = ex.call(None, '<parsing::text_query::TokenIterator<\'_> as Iterator>::next', [ref(it)])
        t = deref_all(deref_all(tok).fields[0])
        ctx['token'] = t.vname
        if t.vname == 'Decimal':
            i, f, e = t.fields
            fr = deref_all(f)
            er = deref_all(e)
            r = ex.call(None, 'types::number::Number::from_parts', [deref_all(i), fr if fr.variant == 0 else some(ex, deref_all(fr.fields[0])),
                                                                    er if er.variant == 0 else some(ex, deref_all(er.fields[0]))])
            rest = ex.call(None, '<parsing::text_query::TokenIterator<\'_> as Iterator>::next', [ref(it)])
            return Tup([r, rest])
        if t.vname in ('Hex', 'Oct', 'Bin'):
            radix = {'Hex': 16, 'Oct': 8, 'Bin': 2}[t.vname]
            e = ex.call(None, 'parsing::text_query::parse_radix', [deref_all(t.fields[0]), radix, 'desc'])
            e = deref_all(e)
            rest = ex.call(None, '<parsing::text_query::TokenIterator<\'_> as Iterator>::next', [ref(it)])
            if e.vname == 'Const':
                return Tup([ok(e.fields[0]), rest])
            return Tup([err('parse_radix error'), rest])
        return Tup([err('token ' + t.vname), none(ex)])

    def classify(self, outcome):
        if outcome[0] == 'panic':
            return 'panic'
        r = deref_all(deref_all(outcome[1]).fields[0])
        return 'Result::Ok' if r.variant == 0 else 'Result::Err'

    def oracle(self, ctx):
        """positional value of the literal from its digit expressions"""
        shape, digs = ctx['shape'], ctx['digs']
        if shape.startswith('0x') or shape.startswith('0o') or shape.startswith('0b'):
            radix = {'x': 16, 'o': 8, 'b': 2}[shape[1]]
            v = z3.IntVal(0)
            for ch, d in list(zip(shape, digs))[2:]:
                if d is not None:
                    v = v * radix + d
            return z3.ToReal(v)
        mant, _, ex_ = shape.lower().replace('ee', 'e').partition('e')
        # split digit expressions by position
        pos = 0
        ip, fp, ep = [], [], []
        seen_dot = False
        seen_e = False
        esign = 1
        for ch, d in zip(shape, digs):
            if ch in ('e', 'E'):
                seen_e = True
            elif ch == '.':
                seen_dot = True
            elif ch == '-' and seen_e:
                esign = -1
            elif d is not None:
                (ep if seen_e else fp if seen_dot else ip).append(d)
        iv = z3.IntVal(0)
        for d in ip:
            iv = iv * 10 + d
        fv = z3.IntVal(0)
        for d in fp:
            fv = fv * 10 + d
        val = z3.ToReal(iv) + (z3.ToReal(fv) / (10 ** len(fp)) if fp else 0)
        if ep:
            # exponent digits are symbolic: enumerate its (small) range
            evs = z3.IntVal(0)
            for d in ep:
                evs = evs * 10 + d
            res = None
            for k in range(10 ** len(ep) - 1, -1, -1):
                term = val * (zreal(Fraction(10) ** (esign * k)))
                res = term if res is None else z3.If(evs == k, term, res)
            return res
        return val

    def post(self, ex, ctx, outcome):
        t = deref_all(outcome[1])
        r = deref_all(t.fields[0])
        rest = deref_all(t.fields[1])
        obs = []
        if r.variant != 0:
            return [('a well-formed literal of shape %s is a number (token %s)' % (ctx['shape'], ctx.get('token')), False)]
        kind, x = numeric_parts(r.fields[0])
        obs.append(('literal is an exact rational', kind == 'rational'))
        if kind == 'rational':
            obs.append(('value of %s = positional notation' % ctx['shape'], zreal(x) == self.oracle(ctx)))
        if rest.variant == 1:
            nxt = deref_all(rest.fields[0])
            obs.append(('the whole literal is one token', nxt.vname == 'Eof'))
        return obs

    def case(self, ctx, vals, label):
        c = Harness.case(self, ctx, vals, label)
        c['inputs']['shape'] = ctx['shape']
        return c

    def _text(self, inputs):
        shape = inputs['shape']
        return ''.join(chr(int(inputs['c%d' % i])) if ch in CLASS else ch for i, ch in enumerate(shape))

    def native(self, inputs, label):
        return [{'mode': 'query', 'text': self._text(inputs)}]

    def judge(self, inputs, label, obs):
        txt = self._text(inputs)
        q = obs[0]
        if q.get('outcome') == 'panic' or q.get('render_panic'):
            return True, '`%s` panics: %s' % (txt, q.get('panic') or q.get('render_panic'))
        got = obs_number_json(q)
        clean = txt.replace('_', '').replace(' ', '')
        low = clean.lower()
        if low.startswith('0x'):
            want = Fraction(int(low[2:], 16))
        elif low.startswith('0o'):
            want = Fraction(int(low[2:], 8))
        elif low.startswith('0b'):
            want = Fraction(int(low[2:], 2))
        else:
            low = low.replace('ee', 'e')
            m, _, e = low.partition('e')
            if m.startswith('.'):
                m = '0' + m
            want = Fraction(m) * Fraction(10) ** int(e.replace('+', '') or 0)
        if got is None or got[0] != want:
            return True, '`%s` evaluates to %s, positional value is %s' % (txt, got, want)
        return False, 'agrees'


def harnesses(tier):
    return [LiteralValue(DEC_SHAPES, 'literal.decimal_shapes'), LiteralValue(RADIX_SHAPES, 'literal.radix_shapes')]
