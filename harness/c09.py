"""C09 unit lists and duration breakdowns: `to_list` + `Numeric::div_rem` (real MIR)."""
import z3
from .common import *  # noqa
from . import dbvalues


def stub_to_parts(ex, nc, args):
    """Number::to_parts(&self, ctx) -> NumberParts: rendering is outside this property; keep raw_value"""
    n = dup(deref_all(args[0]))
    fields = ex.prog.src.structs['NumberParts']
    vals = [none(ex)] * len(fields)
    vals[fields.index('raw_value')] = some(ex, n)
    vals[fields.index('exact_value')] = some(ex, 'exact')
    vals[fields.index('dimensions')] = some(ex, 'dims')
    return Struct('NumberParts', vals)


def stub_none(ex, nc, args):
    return none(ex)


def stub_conformance(ex, nc, args):
    fields = ex.prog.src.structs['ConformanceError']
    return Struct('ConformanceError', [Opaque(f) for f in fields])


TO_PARTS_STUB = (r'^Number::to_parts$', stub_to_parts, 'Number::to_parts -> NumberParts{raw_value: self, strings opaque}')
CANON_STUB = (r'^Context::canonicalize$', stub_none, 'Context::canonicalize -> None (naming only)')
CONF_STUB = (r'^conformance_err$', stub_conformance, 'conformance_err -> opaque ConformanceError')
UNKNOWN_STUB = (r'^Context::unknown_unit_err$', lambda ex, nc, a: Struct('NotFoundError', [Opaque('got'), none(ex)]), 'Context::unknown_unit_err -> opaque')
DEFAULT_PARTS = (r'^<NumberParts as Default>::default$', lambda ex, nc, a: Struct('NumberParts', [none(ex)] * len(ex.prog.src.structs['NumberParts'])), 'NumberParts::default -> all None')


class ToList(Harness):
    props = ('C09', 'C04')
    entry = 'to_list'
    stubs = (LOOKUP_STUB, SHOW_STUB, TO_PARTS_STUB, CANON_STUB, CONF_STUB, UNKNOWN_STUB, DEFAULT_PARTS)
    loop_bound = 12
    U = ('m', 's')

    def __init__(self, n, consts=None, name=None):
        self.n = n
        self.consts = consts      # [(name, Fraction)] concrete unit values (duration breakdown)
        self.name = name or 'to_list.%d_units' % n
        self.describe = 'to_list on an arbitrary value and %d unit-list entries with %s values' % (
            n, 'the real database' if consts else 'arbitrary positive')
        self.assumptions = ['unit values in the list are not negative (every database unit is positive; `ans` can be zero and must then be refused, not divided by)']
        self.bounds = ['list length %d' % n, 'units over base units %s' % (self.U,)]
        self.expect_classes = ['Result::Ok'] if consts else ['Result::Ok', 'Result::Err']
        self._concrete = None

    def build(self, ex, I):
        v = I.real('v')
        units = {}
        us = []
        names = []
        if self.consts:
            DT, entT = dim({'s': (True, 1)}), {'s': (True, 1)}
            ents = []
            for nm, val in self.consts:
                units[nm] = number(rational(Fraction(val)), dim({'s': (True, 1)}))
                us.append(Fraction(val))
                names.append(nm)
                ents.append({'s': (True, 1)})
        else:
            DT, entT = sym_dim(ex, I, 'dt', self.U, lo=-8, hi=8)
            ents = []
            for i in range(self.n):
                u = I.real('u%d' % i)
                # unit values are positive or zero: `ans` after a zero result, or a user-defined zero, can stand in a list
                ex.assume(u >= 0) if self._concrete is None else None
                if self._concrete is not None and u < 0:
                    from mirsym.exec import Infeasible
                    raise Infeasible()
                D, ent = sym_dim(ex, I, 'd%d' % i, self.U, lo=-8, hi=8)
                units['u%d' % i] = number(rational(u), D)
                us.append(u)
                names.append('u%d' % i)
                ents.append(ent)
        ex.env['units'] = units
        top = number(rational(v), DT)
        return [ref(Opaque('Context')), ref(top), ref(Arr(list(names)))], {'v': v, 'us': us, 'entT': entT, 'ents': ents}

    def post(self, ex, ctx, outcome):
        v, us, entT, ents = ctx['v'], ctx['us'], ctx['entT'], ctx['ents']
        r = deref_all(outcome[1])
        obs = []
        all_same = True
        for e in ents[1:]:
            all_same = b_and(all_same, dims_equal_formula(ents[0], e))
        top_ok = dims_equal_formula(entT, ents[0])
        any_zero = z3.Or(*[zreal(u) == 0 for u in us]) if not self.consts else z3.BoolVal(False)
        if is_ok(r):
            obs.append(('accepted only when list units conform with each other', all_same))
            obs.append(('accepted only when the value conforms with the list', top_ok))
            obs.append(('a list with a zero-valued unit is refused, not decomposed', z3.Not(any_zero)))
            parts = []
            rv = ex.prog.src.structs['NumberParts'].index('raw_value')
            for np_ in deref_all(payload(r)).fields:
                np_ = deref_all(np_)
                raw = np_.fields[rv]
                if not is_some(raw):
                    return [('every part carries its raw value', False)]
                val, _d = number_parts(payload(raw))
                kind, x = numeric_parts(val)
                if kind != 'rational':
                    return [('parts are exact rationals', False)]
                parts.append(zreal(x))
            if len(parts) != len(us):
                return [('one part per unit', False)]
            vz = zreal(v)
            total = sum((p * zreal(u) for p, u in zip(parts, us)), z3.RealVal(0))
            obs.append(('sum(part_i * u_i) = v', total == vz))
            rem = vz
            for i, (p, u) in enumerate(zip(parts, us)):
                uz = zreal(u)
                if i < len(parts) - 1:
                    obs.append(('part %d is an integer' % i, z3.IsInt(p)))
                rem = rem - p * uz
                absrem = z3.If(rem >= 0, rem, -rem)
                if i < len(parts) - 1:
                    obs.append(('remainder after unit %d is smaller than the unit' % i, absrem < uz))
                obs.append(('part %d shares the sign of v' % i, z3.Or(p == 0, (p > 0) == (vz > 0))))
            obs.append(('nothing is left after the last unit', rem == 0))
        elif is_err(r):
            e = deref_all(payload(r))
            if isinstance(e, Enum) and e.vname == 'Conformance':
                obs.append(('Conformance error only when value and list differ in dimension', z3.Not(zbool(top_ok))))
            else:
                obs.append(('Generic error only for a non-conformable list member or a zero-valued unit', z3.Or(z3.Not(zbool(all_same)), any_zero)))
        else:
            obs.append(('to_list returns a Result', False))
        return obs

    def prefer(self, ctx):
        prefs = []
        # steer towards lengths and times so that the case can be rebuilt from database units
        for ent in [ctx['entT']] + ctx['ents']:
            if all(is_z3(p) for p, e in ent.values()) and set(ent) == {'m', 's'}:
                pm, em = ent['m']
                ps, es = ent['s']
                prefs.append(z3.And(z3.Xor(pm, ps), z3.Implies(pm, em == 1), z3.Implies(ps, es == 1)))
        for ent in [ctx['entT']] + ctx['ents']:
            for k, (p, e) in ent.items():
                if is_z3(e):
                    prefs.append(z3.And(e >= -2, e <= 2))
        for x in [ctx['v']] + list(ctx['us']):
            if is_z3(x):
                prefs.append(z3.And(x >= -10000, x <= 10000))
                prefs.append(z3.IsInt(x * 60))
        return prefs

    # ---- native confirmation through query text `v -> a;b;c` on ad-hoc definitions is not possible
    # (unit values are arbitrary), so the kernel law is replayed on Numeric::div_rem and the duration
    # instance through `rink_core::eval`.
    def native(self, inputs, label):
        v = Fraction(inputs['v'])
        if self.consts:
            return [{'mode': 'query', 'text': '%s s' % frac_text(v)}]
        if any(Fraction(inputs.get('u%d' % i, 1)) == 0 for i in range(self.n)):
            # a zero-valued unit reaches a list through `ans`
            return [{'mode': 'query', 'save_previous_result': True, 'pre': ['0 m'], 'text': '5 m -> ans; m'},
                    {'mode': 'query', 'save_previous_result': True, 'pre': ['0 m'], 'text': '5 m -> m; ans'}]
        reqs = []
        # query-level: when every unit in the model is a plain length or time, rebuild the list from database units
        pool = {'m': ['meter', 'centimeter', 'foot', 'inch'], 's': ['hour', 'minute', 'second', 'millisecond']}
        dims = [conc_dim(inputs, 'dt', self.U)] + [conc_dim(inputs, 'd%d' % i, self.U) for i in range(self.n)]
        if label != 'validate' and dims[0] and all(d == dims[0] for d in dims) and not self.consts:
            # a value law on a conformable list: rebuild a list of real length units with the same size ordering as the model
            pool = ['inch', 'foot', 'yard', 'mile', 'league']
            us = [Fraction(inputs['u%d' % i]) for i in range(self.n)]
            order = sorted(range(self.n), key=lambda i: us[i])
            names = [None] * self.n
            for rank, i in enumerate(order):
                names[i] = pool[rank]
            sign = -1 if v < 0 else 1
            reqs.append({'mode': 'query', 'text': '%s inch -> %s' % (frac_text(sign * Fraction(100000003, 7)), ';'.join(names)), 'lift': 'order'})
            reqs += [{'mode': 'lookup', 'name': nme} for nme in names]
            return reqs
        if label != 'validate' and all(len(d) == 1 and list(d.values()) == [1] for d in dims):
            used = {'m': 0, 's': 0}
            names = []
            for d in dims[1:]:
                k = list(d)[0]
                names.append(pool[k][used[k] % 4])
                used[k] += 1
            top = 'meter' if 'm' in dims[0] else 'second'
            reqs.append({'mode': 'query', 'text': '%s %s -> %s' % (frac_text(v if v != 0 else Fraction(7, 2)), top, ';'.join(names)), 'lift': True})
            return reqs
        rem = v
        for i in range(self.n - 1):
            u = Fraction(inputs['u%d' % i])
            reqs.append({'mode': 'numeric_op', 'op': 'div_rem', 'a': '%d/%d' % (rem.numerator, rem.denominator), 'b': '%d/%d' % (u.numerator, u.denominator)})
            q = abs(rem / u).numerator // abs(rem / u).denominator
            q = q if (rem / u) >= 0 else -q
            rem = rem - q * u
        return reqs

    def judge(self, inputs, label, obs):
        if not self.consts and any(Fraction(inputs.get('u%d' % i, 1)) == 0 for i in range(self.n)):
            bad = ['`%s` after `0 m`: %s' % (t, o.get('panic') or o.get('display')) for t, o in zip(('5 m -> ans; m', '5 m -> m; ans'), obs)
                   if o.get('outcome') in ('panic', 'ok') or o.get('render_panic')]
            return bool(bad), '; '.join(bad) or 'a list with a zero-valued unit is refused'
        v = Fraction(inputs['v'])
        if self.consts:
            o = obs[0]
            if o.get('outcome') == 'panic' or o.get('render_panic'):
                return True, 'panic: %s' % (o.get('panic') or o.get('render_panic'))
            j = o.get('json') or {}
            if j.get('type') != 'duration':
                return True, 'expected a duration reply, got %s' % j.get('type')
            total = Fraction(0)
            rem = v
            bad = []
            seq = ['years', 'weeks', 'days', 'hours', 'minutes', 'seconds']
            for (nm, uval), key in zip(self.consts, seq):
                raw = j[key]['rawValue']['value']
                p = Fraction(int(raw['numer']), int(raw['denom']))
                total += p * Fraction(uval)
                rem -= p * Fraction(uval)
                if key != 'seconds' and p.denominator != 1:
                    bad.append('%s not integral (%s)' % (key, p))
                if key != 'seconds' and abs(rem) >= Fraction(uval):
                    bad.append('remainder after %s too large' % key)
                if p != 0 and (p > 0) != (v > 0):
                    bad.append('%s has the wrong sign' % key)
            if total != v:
                bad.append('parts sum to %s, not %s' % (total, v))
            return (bool(bad), '; '.join(bad) or 'breakdown is lossless')
        if len(obs) == self.n + 1 and obs[1].get('lookup') is not None and 'canonicalize' in obs[1]:
            # order-preserving rebuild on real units: check the decomposition law on what rink reports
            q = obs[0]
            if q.get('outcome') == 'panic' or q.get('render_panic'):
                return True, 'panic %s' % (q.get('panic') or q.get('render_panic'))
            j = q.get('json') or {}
            if j.get('type') != 'unitList':
                return True, 'conformable list refused: %s' % q.get('display')
            uv = [Fraction(o['lookup']['value']) for o in obs[1:]]
            inch = Fraction(254, 10000)
            sign = -1 if v < 0 else 1
            val = sign * Fraction(100000003, 7) * inch
            parts = [Fraction(int(e['rawValue']['value']['numer']), int(e['rawValue']['value']['denom'])) for e in j['list']]
            bad = []
            if sum(p_ * u_ for p_, u_ in zip(parts, uv)) != val:
                bad.append('parts do not sum to the value')
            rem = val
            for i, (p_, u_) in enumerate(zip(parts, uv)):
                rem -= p_ * u_
                if i < len(parts) - 1 and p_.denominator != 1:
                    bad.append('part %d not an integer' % i)
                if i < len(parts) - 1 and abs(rem) >= u_:
                    bad.append('remainder after unit %d is not smaller than the unit' % i)
                if p_ != 0 and (p_ > 0) != (val > 0):
                    bad.append('part %d has the wrong sign' % i)
            return (bool(bad), '%s: %s' % (q.get('display'), '; '.join(bad) or 'lossless'))
        if obs and 'display' in obs[0] or (obs and obs[0].get('stage') == 'eval'):
            q = obs[0]
            if q.get('outcome') == 'panic' or q.get('render_panic'):
                return True, 'panic %s' % (q.get('panic') or q.get('render_panic'))
            dims = [conc_dim(inputs, 'dt', self.U)] + [conc_dim(inputs, 'd%d' % i, self.U) for i in range(self.n)]
            conform = all(d == dims[1] for d in dims[2:]) and dims[0] == dims[1]
            accepted = q.get('outcome') == 'ok'
            return (accepted != conform), 'list dims %s: accepted=%s (%s)' % (dims, accepted, q.get('display'))
        # kernel level: div_rem law on each step
        rem = v
        for i, o in enumerate(obs):
            u = Fraction(inputs['u%d' % i])
            if o.get('outcome') == 'panic':
                return 'kernel-only', 'div_rem panicked: %s' % o.get('panic')
            q, r = Fraction(o['result'][0]), Fraction(o['result'][1])
            if q * u + r != rem or q.denominator != 1 or abs(r) >= abs(u) or (r != 0 and (r > 0) != (rem > 0)):
                return 'kernel-only', 'div_rem(%s, %s) = (%s, %s) breaks the law' % (rem, u, q, r)
            rem = r
        return False, 'div_rem law holds natively on the model values'

    def vectors(self, rng):
        if self.consts:
            return [{'v': Fraction(x)} for x in (0, 1, -1, 59, 61, 3600, 86399, 86400, 31556925, Fraction(98765432123456789, 1000), Fraction(-7, 3), 10 ** 12)]
        out = []
        for _ in range(8):
            v = {'v': Fraction(rng.randint(-10 ** 6, 10 ** 6), rng.randint(1, 50))}
            for i in range(self.n):
                v['u%d' % i] = Fraction(rng.randint(1, 5000), rng.randint(1, 7))
            for tag in ['dt'] + ['d%d' % i for i in range(self.n)]:
                for u in self.U:
                    v['%s_has_%s' % (tag, u)] = (u == 'm')
                    v['%s_exp_%s' % (tag, u)] = 1
            out.append(v)
        return out

    def agree(self, vec, outcome, o):
        if outcome[0] == 'panic':
            return o.get('outcome') == 'panic', 'MIR panic vs native %s' % o.get('outcome')
        r = deref_all(outcome[1])
        if not is_ok(r):
            return False, 'MIR run gave an error on conformable vector'
        rv = 0
        parts = []
        idx = None
        for np_ in deref_all(payload(r)).fields:
            np_ = deref_all(np_)
            raw = payload(np_.fields[0])
            val, _ = number_parts(raw)
            parts.append(Fraction(simp(numeric_parts(val)[1])))
        if self.consts:
            j = o.get('json') or {}
            seq = ['years', 'weeks', 'days', 'hours', 'minutes', 'seconds']
            nat = [Fraction(int(j[k]['rawValue']['value']['numer']), int(j[k]['rawValue']['value']['denom'])) for k in seq] if j.get('type') == 'duration' else None
            return (nat == parts), 'MIR %s native %s' % (parts, nat)
        q = Fraction(o['result'][0])
        return (q == parts[0]), 'first quotient MIR %s native %s' % (parts[0], q)


class DivRem(Harness):
    name = 'numeric.div_rem'
    props = ('C09', 'C04')
    entry = 'Numeric::div_rem'
    describe = 'Numeric::div_rem on two arbitrary rationals (divisor non-zero)'
    assumptions = ['divisor != 0']
    expect_classes = ['return']
    _concrete = None

    def build(self, ex, I):
        l = I.real('l')
        r = I.real('r')
        if self._concrete is None:
            ex.assume(r != 0)
        return [ref(rational(l)), ref(rational(r))], {'l': l, 'r': r}

    def post(self, ex, ctx, outcome):
        l, r = zreal(ctx['l']), zreal(ctx['r'])
        t = deref_all(outcome[1])
        kq, q = numeric_parts(t.fields[0])
        kr, rem = numeric_parts(t.fields[1])
        if kq != 'rational' or kr != 'rational':
            return [('both results rational', False)]
        q, rem = zreal(q), zreal(rem)
        absr = z3.If(r >= 0, r, -r)
        absrem = z3.If(rem >= 0, rem, -rem)
        return [('l = q*r + rem', l == q * r + rem), ('q integral', z3.IsInt(q)), ('|rem| < |r|', absrem < absr),
                ('sign(rem) in {0, sign(l)}', z3.Or(rem == 0, (rem > 0) == (l > 0)))]

    def native(self, inputs, label):
        l, r = Fraction(inputs['l']), Fraction(inputs['r'])
        return [{'mode': 'numeric_op', 'op': 'div_rem', 'a': '%d/%d' % (l.numerator, l.denominator), 'b': '%d/%d' % (r.numerator, r.denominator)}]

    def judge(self, inputs, label, obs):
        l, r = Fraction(inputs['l']), Fraction(inputs['r'])
        o = obs[0]
        if o.get('outcome') == 'panic':
            return 'kernel-only', 'panic %s' % o.get('panic')
        q, rem = Fraction(o['result'][0]), Fraction(o['result'][1])
        bad = q * r + rem != l or q.denominator != 1 or abs(rem) >= abs(r) or (rem != 0 and (rem > 0) != (l > 0))
        return ('kernel-only' if bad else False), 'div_rem(%s,%s) = (%s,%s)' % (l, r, q, rem)

    def vectors(self, rng):
        return [{'l': Fraction(rng.randint(-10 ** 30, 10 ** 30), rng.randint(1, 10 ** 6)), 'r': Fraction(rng.choice([-1, 1]) * rng.randint(1, 10 ** 12), rng.randint(1, 999))} for _ in range(12)]

    def agree(self, vec, outcome, o):
        t = deref_all(outcome[1])
        q = Fraction(simp(numeric_parts(t.fields[0])[1]))
        rem = Fraction(simp(numeric_parts(t.fields[1])[1]))
        return (q == Fraction(o['result'][0]) and rem == Fraction(o['result'][1])), 'MIR (%s,%s) native %s' % (q, rem, o['result'])


DURATION_UNITS = ['year', 'week', 'day', 'hour', 'minute', 'second']


def harnesses(tier):
    hs = [DivRem(), ToList(2), ToList(3), ToList(4)]
    if tier == 'thorough':
        hs += [ToList(5), ToList(6), ToList(7), ToList(8)]
    vals = dbvalues.units(DURATION_UNITS)
    consts = [(n, Fraction(vals[n]['value'])) for n in DURATION_UNITS]
    hs.append(ToList(6, consts=consts, name='to_list.duration_breakdown'))
    return hs


# --------------------------------------------------------------------------------------------------------------
class DurationReply(Harness):
    """the automatic breakdown as produced by eval_query itself (not only to_list): a plain time result"""
    name = 'eval_query.duration_reply'
    props = ('C09', 'C04')
    entry = 'eval_query'
    describe = ('eval_query on a plain expression whose value is an arbitrary number of seconds: the DurationReply fields years..seconds, '
                'with the six unit values served from the loaded database')
    stubs = (LOOKUP_STUB, SHOW_STUB, TO_PARTS_STUB, CANON_STUB, CONF_STUB, UNKNOWN_STUB, DEFAULT_PARTS,
             (r'^eval_expr$', lambda ex, nc, a: ok(dup(ex.env['value'])), 'eval_expr -> arbitrary number of seconds'))
    loop_bound = 12
    expect_classes = ['Result::Ok']
    _concrete = None

    def build(self, ex, I):
        v = I.real('v')
        vals = dbvalues.units(DURATION_UNITS)
        self.consts = [(n, Fraction(vals[n]['value'])) for n in DURATION_UNITS]
        ex.env['units'] = {n: number(rational(c), dim({'s': (True, 1)})) for n, c in self.consts}
        ex.env['value'] = variant(ex, 'Value', 'Number', [number(rational(v), dim({'s': (True, 1)}))])
        q = variant(ex, 'Query', 'Expr', [expr_const(ex, rational(Fraction(1)))])
        return [ref(Opaque('Context')), ref(q)], {'v': v}

    def post(self, ex, ctx, outcome):
        v = zreal(ctx['v'])
        r = deref_all(outcome[1])
        if not is_ok(r):
            return [('a time value has a duration breakdown', False)]
        rep = deref_all(payload(r))
        if rep.vname != 'Duration':
            return [('a time value yields a Duration reply (got %s)' % rep.vname, False)]
        dr = deref_all(rep.fields[0])
        f = ex.prog.src.structs['DurationReply']
        rv = ex.prog.src.structs['NumberParts'].index('raw_value')
        obs = []
        total = z3.RealVal(0)
        rem = v
        for key, (nm, c) in zip(['years', 'weeks', 'days', 'hours', 'minutes', 'seconds'], self.consts):
            np_ = deref_all(dr.fields[f.index(key)])
            raw = np_.fields[rv]
            if not is_some(raw):
                return [('%s carries its raw value' % key, False)]
            x = zreal(numeric_parts(number_parts(payload(raw))[0])[1])
            total = total + x * zreal(c)
            rem = rem - x * zreal(c)
            if key != 'seconds':
                obs.append(('%s is an integer' % key, z3.IsInt(x)))
                obs.append(('remainder after %s is smaller than one %s' % (key, nm), z3.If(rem >= 0, rem, -rem) < zreal(c)))
            obs.append(('%s shares the sign of the value' % key, z3.Or(x == 0, (x > 0) == (v > 0))))
        obs.append(('years..seconds times the database unit values sum to the value', total == v))
        return obs

    def prefer(self, ctx):
        return [z3.IsInt(ctx['v']), z3.And(ctx['v'] > -10 ** 10, ctx['v'] < 10 ** 10)]

    def native(self, inputs, label):
        return [{'mode': 'query', 'text': '%s s' % frac_text(Fraction(inputs['v']))}]

    def judge(self, inputs, label, obs):
        helper = ToList(6, consts=self.consts if hasattr(self, 'consts') else [(n, Fraction(dbvalues.units(DURATION_UNITS)[n]['value'])) for n in DURATION_UNITS],
                        name='x')
        return helper.judge(inputs, label, obs)


_c09_prev = harnesses


def harnesses(tier):   # noqa: F811
    return _c09_prev(tier) + [DurationReply()]


# --------------------------------------------------------------------------------------------------------------
# What is *shown* of a duration breakdown: every non-zero part (and always the seconds), in order.

class DurationShown(Harness):
    name = 'duration_reply.to_spans.shows_nonzero_parts'
    props = ('C09', 'C04')
    entry_name = '<DurationReply as TokenFmt>::to_spans'
    loop_bound = 40
    describe = ('DurationReply::to_spans on a breakdown whose parts are arbitrary numbers (each zero or not, either sign): the spans list exactly '
                'the non-zero parts among years..minutes, in order, followed by the seconds')
    bounds = ['one reply; parts carry their raw value and an exact numeral that is "0" exactly when the value is zero']
    expect_classes = ['return']
    _concrete = None
    PARTS = ['years', 'months', 'weeks', 'days', 'hours', 'minutes', 'seconds']

    def build(self, ex, I):
        f = ex.prog.src.structs['NumberParts']

        def parts(raw, exact):
            vals = [none(ex)] * len(f)
            vals[f.index('raw_value')] = some(ex, raw)
            vals[f.index('exact_value')] = some(ex, exact)
            return Struct('NumberParts', vals)
        fields = {}
        zero = {}
        vs = {}
        for n in self.PARTS:
            z = ex.choose(2, '%s is zero' % n) == 1
            v = I.real('v_' + n)
            ex.assume(v == 0 if z else v != 0)
            zero[n], vs[n] = z, v
            fields[n] = parts(number(rational(v), dim({'s': (True, 1)})), '0' if z else 'P:' + n)
        rawp = parts(number(rational(I.real('total')), dim({'s': (True, 1)})), 'TOTAL')
        rawp.fields[f.index('quantity')] = some(ex, 'time')
        df = ex.prog.src.structs['DurationReply']
        vals = dict(fields, raw=rawp)
        rep = Struct('DurationReply', [vals[k] for k in df])
        return [ref(rep)], {'zero': zero, 'rep': rep}

    def entry(self, ex, args, ctx):
        return ex.call(None, '<output::reply::DurationReply as output::fmt::TokenFmt>::to_spans', list(args))

    def post(self, ex, ctx, outcome):
        spans = deref_all(outcome[1])
        shown = []
        for s in spans.fields:
            s = deref_all(s)
            if isinstance(s, Enum) and s.vname == 'Child':
                ch = deref_all(s.fields[0])
                fidx = ex.prog.src.structs['NumberParts'].index('exact_value')
                e = deref_all(ch.fields[fidx]) if isinstance(ch, Struct) and ch.name == 'NumberParts' else None
                shown.append(deref_all(e.fields[0]) if e is not None and e.variant == 1 else '?')
        want = ['P:' + n for n in self.PARTS[:-1] if not ctx['zero'][n]] + ['0' if ctx['zero']['seconds'] else 'P:seconds']
        return [('the parts shown are the non-zero ones, then the seconds (shown %s, non-zero %s)' % (shown, want), shown == want)]

    def native(self, inputs, label):
        return [{'mode': 'query', 'text': t} for t in ('-90 min', '-(1 day + 5 min + 2.5 s)', '90 min', '-1 year - 3 s', '#2020-01-01# - #2020-01-03 06:00#')]

    def judge(self, inputs, label, obs):
        """every non-zero field of the structured reply appears in the displayed text"""
        bad = []
        for o in obs:
            if o.get('outcome') == 'panic' or o.get('render_panic'):
                bad.append('panic %s' % (o.get('panic') or o.get('render_panic')))
                continue
            j = o.get('json') or {}
            if j.get('type') != 'duration':
                continue
            disp = o.get('display') or ''
            for key, word in (('years', 'year'), ('weeks', 'week'), ('days', 'day'), ('hours', 'hour'), ('minutes', 'minute')):
                p = j.get(key) or {}
                ev = p.get('exactValue')
                if ev not in (None, '0') and word not in disp:
                    bad.append('%r: the reply has %s = %s but the text does not show it' % (disp, key, ev))
        return bool(bad), '; '.join(bad[:2]) or 'every non-zero part is shown'


_c09_prev2 = harnesses


def harnesses(tier):   # noqa: F811
    return _c09_prev2(tier) + [DurationShown()]


# --------------------------------------------------------------------------------------------------------------
# How the entries of a unit list are SHOWN: numeral times the unit name printed next to it - the name read back the way
# rink itself reads names - is the part.  Real to_list, lookup, to_parts / prettify (real prefix table), canonicalize.

def _record_numeric_value(ex, nc, args):
    n = deref_all(args[0])
    ex.env.setdefault('printed', []).append(numeric_parts(n.fields[0])[1])
    return Tup([some(ex, 'NUMERAL#%d' % len(ex.env['printed'])), none(ex)])


class ListEntryShown(Harness):
    name = 'to_list.entries_shown_in_their_units'
    props = ('C09', 'C06')
    entry_name = 'to_list ; Context::lookup on the printed names'
    loop_bound = 400
    max_paths = 40000
    _concrete = None
    stubs = (SHOW_STUB, CONF_STUB, UNKNOWN_STUB, DEFAULT_PARTS,
             (r'^Number::numeric_value$', _record_numeric_value, 'Number::numeric_value -> records the value it is asked to print, returns a marker numeral'),
             (r'^Number::unit_to_string$', None, None))

    def __init__(self, names, lo=None, hi=None):
        self.names = names
        self.lo, self.hi = lo, hi
        self.name = 'to_list.entries_shown_in_their_units' + ('' if lo is None else '.range') + ('' if list(names) == ['s', 'ms'] else '.' + '_'.join(names))
        self.describe = ('`v s -> %s` with an arbitrary rational v: for every entry, the value handed to the digit printer times the value of the unit '
                         'name printed next to it (looked up by the real Context::lookup) equals the part times its unit - real to_parts / prettify with '
                         'the database prefix table, real canonicalize') % ';'.join(names)
        self.bounds = ['the list %s over the base unit s with the database prefixes' % (names,), 'value: %s' % ('any rational' if lo is None else 'between %s and %s s' % (lo, hi))]
        self.expect_classes = ['Result::Ok']
        self.stubs = tuple(x for x in ListEntryShown.stubs if x[1] is not None)

    def build(self, ex, I):
        v = I.real('v')
        if self.lo is not None:
            ex.assume(z3.And(v > zreal(self.lo), v < zreal(self.hi)))
        table = dbvalues.prefixes()
        base = MapV()
        base.ent['s'] = [base_unit('s'), True, Tup([])]
        longn = MapV()
        longn.ent['s'] = ['s', True, 'second']
        units = MapV()
        units.ent['second'] = ['second', True, number(rational(Fraction(1)), dim({'s': (True, 1)}))]     # the loader's alias for the long name
        reg = make_struct(ex, 'Registry', {'base_units': base, 'base_unit_long_names': longn, 'units': units,
                                           'prefixes': Arr([Tup([n, rational(Fraction(val))]) for n, val in table])})
        ctxv = make_struct(ex, 'Context', {'registry': reg, 'temporaries': MapV(), 'previous_result': none(ex)})
        ex.env['printed'] = []
        top = number(rational(v), dim({'s': (True, 1)}))
        return [ref(ctxv), ref(top), ref(Arr(list(self.names)))], {'v': v, 'ctx': ctxv, 'table': {n: Fraction(val) for n, val in table}}

    def entry(self, ex, args, ctx):
        r = ex.call(None, 'runtime::eval::to_list', list(args))
        rv = deref_all(r)
        looked = []
        if is_ok(rv):
            f = ex.prog.src.structs['NumberParts']
            for p in deref_all(payload(rv)).fields:
                p = deref_all(p)
                u = deref_all(p.fields[f.index('unit')])
                label = deref_all(u.fields[0]) if u.variant == 1 else None
                lk = ex.call(None, 'loader::context::Context::lookup', [args[0], label]) if isinstance(label, str) else None
                looked.append((label, lk))
        ctx['looked'] = looked
        return r

    def post(self, ex, ctx, outcome):
        r = deref_all(outcome[1])
        if not is_ok(r):
            return [('a list of seconds units accepts a time', False)]
        f = ex.prog.src.structs['NumberParts']
        tab = ctx['table']
        obs = []
        for i, (p, (label, lk)) in enumerate(zip(deref_all(payload(r)).fields, ctx['looked'])):
            p = deref_all(p)
            raw = deref_all(p.fields[f.index('raw_value')])
            ev = deref_all(p.fields[f.index('exact_value')])
            marker = deref_all(ev.fields[0]) if ev.variant == 1 else None
            if raw.variant == 0 or not isinstance(marker, str) or '#' not in marker:
                obs.append(('entry %d carries a value and a numeral' % i, False))
                continue
            part = zreal(numeric_parts(number_parts(raw.fields[0])[0])[1])
            printed = zreal(ex.env['printed'][int(marker.split('#')[1]) - 1])
            # value of the requested unit: prefix * second
            nm = self.names[i]
            want_u = Fraction(1) if nm in ('s', 'second') else tab[nm[:-1]] if nm.endswith('s') and nm[:-1] in tab else None
            if want_u is None:
                obs.append(('harness knows the unit %s' % nm, False))
                continue
            lkv = deref_all(lk) if lk is not None else None
            if lkv is None or not is_some(lkv):
                obs.append(('entry %d: the printed unit name %r is a name rink resolves' % (i, label), False))
                continue
            lval, ldim = number_parts(payload(lkv))
            names_ = [k for k, (pp, e) in ldim.items() if pp is True or simp(pp) is True]
            obs.append(('entry %d: the printed unit name %r is a time' % (i, label), names_ == ['s']))
            obs.append(('entry %d: printed numeral * value of %r = part * %s' % (i, label, nm), printed * zreal(numeric_parts(lval)[1]) == part * zreal(want_u)))
        return obs

    def prefer(self, ctx):
        v = ctx['v']
        return [z3.And(v > 0, v < 10), z3.IsInt(v * 10000)]

    READBACK = [p_ + u_ for u_ in ('second', 'meter') for p_ in ('', 'yocto', 'zepto', 'atto', 'femto', 'pico', 'nano', 'micro', 'milli', 'kilo', 'mega',
                                                                 'giga', 'tera', 'peta', 'exa', 'zetta', 'yotta')] + ['minute', 'hour']

    def native(self, inputs, label):
        v = Fraction(inputs['v'])
        return [{'mode': 'query', 'text': '%s s -> %s' % (frac_text(v), ';'.join(self.names))}] + [{'mode': 'lookup', 'name': n} for n in self.READBACK]

    def judge(self, inputs, label, obs):
        q = obs[0]
        if q.get('outcome') == 'panic' or q.get('render_panic'):
            return True, 'panic %s' % (q.get('panic') or q.get('render_panic'))
        j = q.get('json') or {}
        if j.get('type') != 'unitList':
            return False, 'not a unit list reply: %s' % q.get('display')
        table = {}
        for n, o in zip(self.READBACK, obs[1:]):
            lk = o.get('lookup')
            if lk:
                table[n] = (Fraction(lk['value']), {k: int(e) for k, e in lk['unit'].items()})
        total = Fraction(0)
        bad = []
        for p in j.get('list') or []:
            nm = p.get('unit')
            if nm not in table:
                return False, 'printed unit %r is not in the read-back table' % nm
            val_, d = table[nm]
            if d != {'s': 1}:
                bad.append('entry `%s %s` of %r names a unit that is not a time' % (p.get('exactValue'), nm, q.get('display')))
                continue
            try:
                total += Fraction(p.get('exactValue')) * val_
            except (ValueError, TypeError):
                return False, 'numeral %r is not a plain decimal' % p.get('exactValue')
        if not bad and total != Fraction(inputs['v']):
            bad.append('%r: the entries as printed add up to %s s, the value is %s s' % (q.get('display'), total, inputs['v']))
        return bool(bad), '; '.join(bad) or 'entries read back to the value'


_c09_prev3 = harnesses


def harnesses(tier):   # noqa: F811
    if tier == 'quick':
        return _c09_prev3(tier) + [ListEntryShown(['s', 'ms'], Fraction(1, 10 ** 7), Fraction(10 ** 4))]
    # a wider range than the quick tier; without a range limit the 17 x 17 prefix choices of two entries (x 17 again for three)
    # make thousands of paths of 1.4 s each - the thorough run of that took 42 minutes and is not registered
    return _c09_prev3(tier) + [ListEntryShown(['s', 'ms'], Fraction(1, 10 ** 8), Fraction(10 ** 5))]


# --------------------------------------------------------------------------------------------------------------
# The explicit list conversion as produced by eval_query itself (`v -> hour;minute;second`), not only to_list.

class ListReply(Harness):
    name = 'eval_query.unit_list_reply'
    props = ('C09', 'C04')
    entry = 'eval_query'
    describe = ('eval_query on `v s -> hour;minute;second` (database unit values): the entries of the UnitList reply obey the decomposition law - '
                'exact sum, integral but the last, common sign, remainder below the unit')
    stubs = (LOOKUP_STUB, SHOW_STUB, TO_PARTS_STUB, CANON_STUB, CONF_STUB, UNKNOWN_STUB, DEFAULT_PARTS,
             (r'^eval_expr$', lambda ex, nc, a: ok(dup(ex.env['value'])), 'eval_expr -> arbitrary number of seconds'))
    loop_bound = 12
    expect_classes = ['Result::Ok']
    _concrete = None
    NAMES = ['hour', 'minute', 'second']

    def build(self, ex, I):
        v = I.real('v')
        vals = dbvalues.units(self.NAMES)
        self.consts = [(n, Fraction(vals[n]['value'])) for n in self.NAMES]
        ex.env['units'] = {n: number(rational(c), dim({'s': (True, 1)})) for n, c in self.consts}
        ex.env['value'] = variant(ex, 'Value', 'Number', [number(rational(v), dim({'s': (True, 1)}))])
        q = variant(ex, 'Query', 'Convert', [expr_const(ex, rational(Fraction(1))), variant(ex, 'Conversion', 'List', [Arr(list(self.NAMES))]), none(ex),
                                             variant(ex, 'Digits', 'Default')])
        reg = make_struct(ex, 'Registry', {})
        ctxv = make_struct(ex, 'Context', {'registry': reg, 'temporaries': MapV(), 'previous_result': none(ex)})
        return [ref(ctxv), ref(q)], {'v': v}

    def post(self, ex, ctx, outcome):
        v = zreal(ctx['v'])
        r = deref_all(outcome[1])
        if not is_ok(r):
            return [('a time converts to a list of time units', False)]
        rep = deref_all(payload(r))
        if rep.vname != 'UnitList':
            return [('a list conversion yields a UnitList reply (got %s)' % rep.vname, False)]
        ul = deref_all(rep.fields[0])
        lst = deref_all(ul.fields[ex.prog.src.structs['UnitListReply'].index('list')])
        rv = ex.prog.src.structs['NumberParts'].index('raw_value')
        if len(lst.fields) != len(self.consts):
            return [('one entry per unit', False)]
        obs = []
        total, rem = z3.RealVal(0), v
        for i, (np_, (nm, c)) in enumerate(zip(lst.fields, self.consts)):
            raw = deref_all(np_).fields[rv]
            if not is_some(raw):
                return [('entry %s carries its raw value' % nm, False)]
            x = zreal(numeric_parts(number_parts(payload(raw))[0])[1])
            total = total + x * zreal(c)
            rem = rem - x * zreal(c)
            if i < len(self.consts) - 1:
                obs.append(('%s is an integer' % nm, z3.IsInt(x)))
                obs.append(('remainder after %s is smaller than one %s' % (nm, nm), z3.If(rem >= 0, rem, -rem) < zreal(c)))
            obs.append(('%s shares the sign of the value' % nm, z3.Or(x == 0, (x > 0) == (v > 0))))
        obs.append(('the entries times their units sum to the value', total == v))
        return obs

    def prefer(self, ctx):
        return [z3.IsInt(ctx['v']), z3.And(ctx['v'] > -10 ** 6, ctx['v'] < 10 ** 6), ctx['v'] < 0]

    def native(self, inputs, label):
        return [{'mode': 'query', 'text': '%s s -> hour;minute;second' % frac_text(Fraction(inputs['v']))}]

    def judge(self, inputs, label, obs):
        q = obs[0]
        if q.get('outcome') == 'panic' or q.get('render_panic'):
            return True, 'panic %s' % (q.get('panic') or q.get('render_panic'))
        j = q.get('json') or {}
        if j.get('type') != 'unitList':
            return True, 'not a unit list: %s' % q.get('display')
        v = Fraction(inputs['v'])
        worth = [3600, 60, 1]
        parts = []
        for p in j.get('list') or []:
            num = ((p.get('rawValue') or {}).get('value') or {})
            parts.append(Fraction(int(num['numer']), int(num['denom'])))
        bad = []
        if sum(p * w for p, w in zip(parts, worth)) != v:
            bad.append('entries %s sum to %s s, not %s s' % (parts, sum(p * w for p, w in zip(parts, worth)), v))
        for p in parts[:-1]:
            if p.denominator != 1:
                bad.append('non-integral entry %s' % p)
        if any(p != 0 and (p > 0) != (v > 0) for p in parts):
            bad.append('entries %s do not share the sign of %s' % (parts, v))
        return bool(bad), '; '.join(bad) or 'list law holds: %s' % q.get('display')


_c09_prev4 = harnesses


def harnesses(tier):   # noqa: F811
    return _c09_prev4(tier) + [ListReply()]


# --------------------------------------------------------------------------------------------------------------
# What is *shown* of a unit list: every entry that counts something - in particular the last one, which may be a fraction
# below one - appears in the text, in order (the parts that are printed are the parts that are summed).

class UnitListShown(Harness):
    name = 'unit_list_reply.to_spans.shows_every_counting_entry'
    props = ('C09', 'C04')
    entry_name = '<UnitListReply as TokenFmt>::to_spans'
    loop_bound = 40
    describe = ('UnitListReply::to_spans on a list of 3 entries whose values are arbitrary rationals (each zero or not, the last possibly a '
                'fraction below one): every non-zero entry is among the child spans, in list order')
    bounds = ['3 entries; entries carry their raw value and a marker numeral']
    expect_classes = ['return']
    _concrete = None
    N = 3

    def build(self, ex, I):
        f = ex.prog.src.structs['NumberParts']

        def parts(raw, exact):
            vals = [none(ex)] * len(f)
            vals[f.index('raw_value')] = some(ex, raw)
            vals[f.index('exact_value')] = some(ex, exact)
            return Struct('NumberParts', vals)
        ents, zero, vs = [], [], []
        for i in range(self.N):
            z = ex.choose(2, 'entry %d is zero' % i) == 1
            v = I.real('v%d' % i)
            ex.assume(v == 0 if z else v != 0)
            if i < self.N - 1:
                ex.assume(z3.IsInt(v))
            zero.append(z)
            vs.append(v)
            ents.append(parts(number(rational(v), dim({'u%d' % i: (True, 1)})), 'E:%d' % i))
        rest = parts(number(rational(I.real('total')), dim({'s': (True, 1)})), 'TOTAL')
        rest.fields[f.index('quantity')] = some(ex, 'time')
        rep = make_struct(ex, 'UnitListReply', {'rest': rest, 'list': Arr(ents)})
        return [ref(rep)], {'zero': zero, 'vs': vs}

    def entry(self, ex, args, ctx):
        return ex.call(None, '<output::reply::UnitListReply as output::fmt::TokenFmt>::to_spans', list(args))

    def post(self, ex, ctx, outcome):
        spans = deref_all(outcome[1])
        shown = []
        fidx = ex.prog.src.structs['NumberParts'].index('exact_value')
        for s in spans.fields:
            s = deref_all(s)
            if isinstance(s, Enum) and s.vname == 'Child':
                ch = deref_all(s.fields[0])
                e = deref_all(ch.fields[fidx]) if isinstance(ch, Struct) and ch.name == 'NumberParts' else None
                shown.append(deref_all(e.fields[0]) if e is not None and e.variant == 1 else '?')
        counting = ['E:%d' % i for i in range(self.N) if not ctx['zero'][i]]
        in_order = [x for x in shown if x in counting]
        return [('every entry that counts something is shown, in order (shown %s, counting %s)' % (shown, counting), in_order == counting),
                ('nothing but entries of the list is shown', all(x in ['E:%d' % i for i in range(self.N)] for x in shown))]

    def prefer(self, ctx):
        return [ctx['vs'][-1] == z3.RealVal('1/2')]

    PROBES = [('5.04 foot -> foot;inch', [('foot', Fraction(3048, 10000)), ('inch', Fraction(254, 10000))], Fraction(504, 100) * Fraction(3048, 10000)),
              ('3 hour + 20 minute + 1|4 second -> hour;minute;second', [('hour', 3600), ('minute', 60), ('second', 1)], Fraction(3 * 3600 + 20 * 60) + Fraction(1, 4)),
              ('0.5 s -> minute;second', [('minute', 60), ('second', 1)], Fraction(1, 2)),
              ('90 s -> minute;second', [('minute', 60), ('second', 1)], Fraction(90))]

    def native(self, inputs, label):
        return [{'mode': 'query', 'text': t} for t, _, _ in self.PROBES]

    def judge(self, inputs, label, obs):
        """every non-zero entry of the structured reply must appear in the text: count the `, `-separated parts"""
        bad = []
        for (t, units, v), o in zip(self.PROBES, obs):
            if o.get('outcome') == 'panic' or o.get('render_panic'):
                bad.append('`%s` panics' % t)
                continue
            j = o.get('json') or {}
            if j.get('type') != 'unitList':
                continue
            nonzero = 0
            for p in j.get('list') or []:
                num = ((p.get('rawValue') or {}).get('value') or {})
                try:
                    if int(num['numer']) != 0:
                        nonzero += 1
                except (KeyError, ValueError, TypeError):
                    pass
            disp = (o.get('display') or '')
            body = disp.rsplit(' (', 1)[0]
            shown = len([x for x in body.split(', ') if x.strip()])
            if shown < nonzero:
                bad.append('`%s` prints %r: %d of the %d non-zero entries' % (t, disp, shown, nonzero))
        return bool(bad), '; '.join(bad[:2]) or 'every counting entry is printed'


_c09_prev5 = harnesses


def harnesses(tier):   # noqa: F811
    return _c09_prev5(tier) + [UnitListShown()]


# --------------------------------------------------------------------------------------------------------------
# The duration breakdown with the *real* labelling of its parts: to_list hands every part to to_parts, which may put an SI
# prefix on a large count (1000 years show as `1 kiloyear`); whatever label a part gets, it stays in its field of the reply.

class DurationReplyLabelled(Harness):
    name = 'eval_query.duration_reply.real_labels'
    props = ('C09',)
    entry = 'eval_query'
    loop_bound = 400
    max_paths = 40000
    _concrete = None
    describe = ('eval_query on plain time values from a fixed list with the real to_list / to_parts / prettify (database prefix table) / canonicalize: '
                'each of years..seconds carries its part whatever label prettify gave it, and the parts times the unit values sum to the value')
    bounds = ['units year..second with their database values, defined as plain (non-alias) units of a synthetic registry; the database prefix table',
              'concrete companion (no symbolic variable): nine values from half a second to 1e20 s, around 999 / 1000 / 1001 / 1e6 years']
    expect_classes = ['Result::Ok']
    stubs = (SHOW_STUB, CONF_STUB, UNKNOWN_STUB, DEFAULT_PARTS,
             (r'^Number::numeric_value$', _record_numeric_value, 'Number::numeric_value -> records the value it is asked to print, returns a marker numeral'),
             (r'^eval_expr$', lambda ex, nc, a: ok(dup(ex.env['value'])), 'eval_expr -> arbitrary number of seconds'))

    def build(self, ex, I):
        table = dbvalues.prefixes()
        vals = dbvalues.units(DURATION_UNITS)
        self.consts = [(n, Fraction(vals[n]['value'])) for n in DURATION_UNITS]
        base, longn, units, defs = MapV(), MapV(), MapV(), MapV()
        base.ent['s'] = [base_unit('s'), True, Tup([])]
        longn.ent['s'] = ['s', True, 'second']
        units.ent['second'] = ['second', True, number(rational(Fraction(1)), dim({'s': (True, 1)}))]
        defs.ent['second'] = ['second', True, expr_unit(ex, 's')]
        for n, c in self.consts[:-1]:
            units.ent[n] = [n, True, number(rational(c), dim({'s': (True, 1)}))]
            defs.ent[n] = [n, True, expr_const(ex, rational(c))]
        reg = make_struct(ex, 'Registry', {'base_units': base, 'base_unit_long_names': longn, 'units': units, 'definitions': defs,
                                           'quantities': MapV(), 'prefixes': Arr([Tup([n, rational(Fraction(val))]) for n, val in table])})
        ctxv = make_struct(ex, 'Context', {'registry': reg, 'temporaries': MapV(), 'previous_result': none(ex)})
        ex.env['printed'] = []
        # concrete companion: with all six parts symbolic the prefix choices multiply (about 1000 paths of 3 s each), so the
        # value is one of a fixed list that walks the year count through the prefixes
        cy = self.consts[0][1]
        vals_ = [cy * 1000 + 259200, cy * 999 + 259200, cy * 10 ** 6 + 1, Fraction(10) ** 20, Fraction(12 * 604800 + 1), -(cy * 2500 + 3600), cy * 1001,
                 Fraction(59), Fraction(1, 2)]
        v = vals_[ex.choose(len(vals_), 'value')]
        ex.env['value'] = variant(ex, 'Value', 'Number', [number(rational(v), dim({'s': (True, 1)}))])
        q = variant(ex, 'Query', 'Expr', [expr_const(ex, rational(Fraction(1)))])
        return [ref(ctxv), ref(q)], {'v': v}

    def post(self, ex, ctx, outcome):
        v = zreal(ctx['v'])
        r = deref_all(outcome[1])
        if not is_ok(r):
            return [('a time value has a duration breakdown', False)]
        rep = deref_all(payload(r))
        if rep.vname != 'Duration':
            return [('a time value yields a Duration reply (got %s)' % rep.vname, False)]
        dr = deref_all(rep.fields[0])
        f = ex.prog.src.structs['DurationReply']
        rv = ex.prog.src.structs['NumberParts'].index('raw_value')
        total = z3.RealVal(0)
        obs = []
        for key, (nm, c) in zip(['years', 'weeks', 'days', 'hours', 'minutes', 'seconds'], self.consts):
            np_ = deref_all(dr.fields[f.index(key)])
            raw = np_.fields[rv]
            if not is_some(raw):
                return [('%s carries its part' % key, False)]
            total = total + zreal(numeric_parts(number_parts(payload(raw))[0])[1]) * zreal(c)
        obs.append(('years..seconds times the unit values sum to the value', total == v))
        return obs

    def prefer(self, ctx):
        return []

    PROBES = ['1000 year + 3 day', '31556925975 s', '1e20 s', '-(2500 year + 1 hour)', '999 year + 3 day', '12 week + 1 s']

    def case(self, ctx, vals, label):
        c = Harness.case(self, ctx, vals, label)
        c['inputs']['v'] = str(Fraction(ctx['v']))
        return c

    def native(self, inputs, label):
        return [{'mode': 'query', 'text': '%s s' % frac_text(Fraction(inputs['v']))}] + [{'mode': 'query', 'text': t} for t in self.PROBES]

    def judge(self, inputs, label, obs):
        helper = ToList(6, consts=[(n, Fraction(dbvalues.units(DURATION_UNITS)[n]['value'])) for n in DURATION_UNITS], name='x')
        bad = []
        texts = ['%s s' % frac_text(Fraction(inputs['v']))] + self.PROBES
        for t, o in zip(texts, obs):
            if o.get('outcome') == 'panic' or o.get('render_panic'):
                bad.append('`%s` panics' % t)
                continue
            j = o.get('json') or {}
            if j.get('type') != 'duration':
                continue
            raw = obs_number_json(o)
            if raw is None:
                continue
            total = Fraction(0)
            missing = []
            for key, (nm, c) in zip(['years', 'weeks', 'days', 'hours', 'minutes', 'seconds'], helper.consts):
                num = (((j.get(key) or {}).get('rawValue') or {}).get('value') or {})
                try:
                    total += Fraction(int(num['numer']), int(num['denom'])) * c
                except (KeyError, ValueError, TypeError):
                    missing.append(key)
            if missing or total != raw[0]:
                bad.append('`%s` = %r: %s; parts sum to %s s of %s s' % (t, o.get('display'), ('no value in ' + ', '.join(missing)) if missing else 'all parts present', total, raw[0]))
        return bool(bad), '; '.join(bad[:2]) or 'long durations keep all their parts'


_c09_prev6 = harnesses


def harnesses(tier):   # noqa: F811
    return _c09_prev6(tier) + [DurationReplyLabelled()]
