"""C15 purity and `ans`: one step of `rink_core::eval` from an arbitrary context state (inductive over histories)."""
import re
import z3
from .common import *  # noqa

QUERY_SHAPES = [('Expr',), ('Convert', 'None'), ('Convert', 'Expr'), ('Convert', 'Timezone'), ('Convert', 'Offset'), ('Convert', 'Degree'),
                ('Convert', 'List'), ('Factorize',), ('UnitsFor',), ('Search',), ('Error',)]
REPLY_VARIANTS = ['Number', 'Date', 'Substance', 'Duration', 'Def', 'Conversion', 'Factorize', 'UnitsFor', 'UnitList', 'Search']


def stub_unit(ex, nc, args):
    return Tup([])


def stub_opaque(tag):
    return lambda ex, nc, args: Opaque(tag)


def stub_eval_query(ex, nc, args):
    return dup(ex.env['eval_query_result'])


class EvalStep(Harness):
    name = 'helpers.eval.one_step'
    props = ('C15', 'C04')
    entry = 'helpers::eval'
    describe = ('rink_core::eval on an arbitrary context state (flag, previous answer, registry) with parser and evaluator '
                'replaced by an arbitrary result: every QueryReply variant, raw_value present/absent, or an error')
    stubs = ((r'^Context::update_time$', stub_unit, 'Context::update_time -> no-op (clock is an input, not state the property tracks)'),
             (r'^TokenIterator::new$', stub_opaque('TokenIterator'), 'TokenIterator::new -> opaque'),
             (r'^<TokenIterator as Iterator>::peekable$', stub_opaque('Peekable<TokenIterator>'), 'peekable -> opaque'),
             (r'^parse_query$', lambda ex, nc, a: dup(ex.env['parsed_query']), 'parse_query -> an arbitrary Query (every variant, every kind of conversion target)'),
             (r'^Context::eval_query$', stub_eval_query, 'Context::eval_query(&self, ..) -> arbitrary Result<QueryReply, QueryError>'))
    expect_classes = ['Result::Ok', 'Result::Err']
    assumptions = ['eval_query takes the context by shared reference and rink-core has no interior mutability (checked on the MIR dump, see static_facts)']
    _concrete = None

    def build(self, ex, I):
        fields = ex.prog.src.structs['Context']
        flag = I.bool('save_previous_result')
        prev_kind = ex.choose(2, 'previous_result None/Some')
        pv = I.real('prev_value')
        prev = none(ex) if prev_kind == 0 else some(ex, number(rational(pv), dim({'m': (True, 1)})))
        reg = Opaque('registry')
        temps = Opaque('temporaries')
        vals = {'registry': reg, 'temporaries': temps, 'now': Opaque('now'), 'use_humanize': I.bool('use_humanize'),
                'save_previous_result': flag, 'previous_result': prev}
        ctxv = make_struct(ex, 'Context', vals)
        # the evaluator's verdict
        k = ex.choose(len(REPLY_VARIANTS) + 1, 'eval_query outcome')
        nv_ = I.real('new_value')
        newn = number(rational(nv_), dim({'s': (True, 1)}))
        raw_present = None
        if k == len(REPLY_VARIANTS):
            res = err(variant(ex, 'QueryError', 'Generic', ['message']))
            kind = 'Err'
        else:
            kind = REPLY_VARIANTS[k]
            if kind == 'Number':
                raw_present = ex.choose(2, 'raw_value None/Some')
                np_fields = ex.prog.src.structs['NumberParts']
                parts = [none(ex)] * len(np_fields)
                parts[np_fields.index('raw_value')] = some(ex, newn) if raw_present else none(ex)
                res = ok(variant(ex, 'QueryReply', 'Number', [Struct('NumberParts', parts)]))
            elif kind in ('Conversion', 'Duration'):
                # replies that carry a number of their own (the value in the target unit / the raw time): they are not the
                # result of a plain expression, so `ans` must not pick them up
                np_fields = ex.prog.src.structs['NumberParts']
                parts = [none(ex)] * len(np_fields)
                parts[np_fields.index('raw_value')] = some(ex, newn)
                inner = Struct('NumberParts', parts)
                if kind == 'Conversion':
                    payload_ = new_box(make_struct(ex, 'ConversionReply', {'value': inner}))
                else:
                    payload_ = new_box(make_struct(ex, 'DurationReply', {'raw': inner}))
                res = ok(variant(ex, 'QueryReply', kind, [payload_]))
            else:
                res = ok(variant(ex, 'QueryReply', kind, [Opaque('payload:' + kind)]))
        ex.env['eval_query_result'] = res
        # what the parser produced: the wrapper may look at it (but not let it change what the context remembers)
        qk = ex.choose(len(QUERY_SHAPES), 'parsed query shape')
        qshape = QUERY_SHAPES[qk]
        if qshape[0] == 'Convert':
            conv = variant(ex, 'Conversion', qshape[1], [Opaque('conv-payload')] if qshape[1] not in ('None',) else [])
            ex.env['parsed_query'] = variant(ex, 'Query', 'Convert', [Opaque('Expr'), conv, none(ex), variant(ex, 'Digits', 'Default')])
        else:
            ex.env['parsed_query'] = variant(ex, 'Query', qshape[0], [Opaque('query-payload')])
        hum = vals['use_humanize']
        cell = Cell(ctxv, 'ctx')
        return [Ref(cell), 'any query text'], {'cell': cell, 'flag': flag, 'prev_kind': prev_kind, 'pv': pv, 'nv': nv_, 'kind': kind,
                                               'raw_present': raw_present, 'reg': reg, 'temps': temps, 'fields': fields, 'res': res,
                                               'hum': hum, 'qshape': qshape}

    def post(self, ex, ctx, outcome):
        c = ctx['cell'].value
        f = ctx['fields']
        obs = []
        obs.append(('registry untouched', c.fields[f.index('registry')] is ctx['reg']))
        obs.append(('load-time temporaries untouched', c.fields[f.index('temporaries')] is ctx['temps']))
        obs.append(('feature flag untouched', n_eq(c.fields[f.index('save_previous_result')], ctx['flag'])))
        obs.append(('use_humanize setting untouched (whatever the query and its outcome)', n_eq(c.fields[f.index('use_humanize')], ctx['hum'])))
        after = deref_all(c.fields[f.index('previous_result')])
        should_set = ctx['kind'] == 'Number' and bool(ctx['raw_present'])
        flag = zbool(ctx['flag'])
        # value after the step as (is_some, value)
        if after.variant == 1:
            val, d = number_parts(after.fields[0])
            av = zreal(numeric_parts(val)[1])
            a_unit_is_new = 's' in d
        else:
            av = None
        if should_set:
            # set iff the flag is on
            if after.variant == 1:
                is_new = b_and(n_eq(av, ctx['nv']), a_unit_is_new)
                was_old = (ctx['prev_kind'] == 1) and not a_unit_is_new
                obs.append(('ans = the new numeric result iff the feature is on', z3.If(flag, zbool(is_new), zbool(b_and(was_old, n_eq(av, ctx['pv']) if was_old else False)))))
            else:
                obs.append(('ans stays unset only when the feature is off and it was unset', b_and(b_not(ctx['flag']), ctx['prev_kind'] == 0)))
        else:
            if ctx['prev_kind'] == 0:
                obs.append(('errors / non-numeric replies leave ans unset', after.variant == 0))
            else:
                obs.append(('errors / non-numeric replies leave ans unchanged',
                            after.variant == 1 and not a_unit_is_new and n_eq(av, ctx['pv'])))
        # the reply is handed back unchanged
        r = deref_all(outcome[1])
        exp = deref_all(ctx['res'])
        if self.entry == 'helpers::eval':
            obs.append(('eval returns exactly what the evaluator produced', r.variant == exp.variant and
                        deref_all(r.fields[0]).vname == deref_all(exp.fields[0]).vname))
        else:
            obs.append(('one_line succeeds exactly when the evaluator did', r.variant == exp.variant))
        return obs

    def native(self, inputs, label):
        # histories through the public API: flag on/off, a numeric query, then `ans`
        flag = bool(inputs.get('save_previous_result', True))
        return [{'mode': 'query', 'save_previous_result': flag, 'ans': number_json(Fraction(7), {'m': 1}), 'pre': ['3 kg', 'foo bar baz', '1 m -> cm'], 'text': 'ans'},
                {'mode': 'query', 'use_humanize': True, 'pre': ['5 m -> UTC', 'foo -> UTC', 'now -> +25:00', '1 m -> "US/Pacific"', 'now -> UTC'], 'text': '1 m'},
                {'mode': 'query', 'use_humanize': False, 'pre': ['5 m -> UTC', 'now -> UTC', '#jan 1, 2100#'], 'text': '1 m'}]

    def judge(self, inputs, label, obs):
        flag = bool(inputs.get('save_previous_result', True))
        q = obs[0]
        got = obs_number_json(q)
        # after `3 kg` (numeric), an error and a conversion: ans must be 3 kg when the flag is on, 7 m otherwise
        want = (Fraction(3), {'kg': 1}) if flag else (Fraction(7), {'m': 1})
        bad = []
        if got != want:
            bad.append('history [3 kg; error; conversion; ans] with flag=%s gave %s, expected %s' % (flag, got, want))
        if q.get('ctx_save_previous_result') is not None and q.get('ctx_save_previous_result') != flag:
            bad.append('save_previous_result changed from %s to %s' % (flag, q.get('ctx_save_previous_result')))
        for o, want_h in zip(obs[1:], (True, False)):
            if o.get('ctx_use_humanize') is not None and o.get('ctx_use_humanize') != want_h:
                bad.append('use_humanize changed from %s to %s over a history of timezone conversions and errors' % (want_h, o.get('ctx_use_humanize')))
        return bool(bad), '; '.join(bad) or 'history leaves flags alone and ans as specified'


class OneLineStep(EvalStep):
    """the text front end of eval: the same step, through rink_core::one_line"""
    name = 'helpers.one_line.one_step'
    entry = 'helpers::one_line'
    describe = ('rink_core::one_line (the plain-text wrapper) on an arbitrary context state with parser and evaluator replaced by an arbitrary result: '
                'the context is left exactly as rink_core::eval would leave it')
    stubs = EvalStep.stubs + ((r'^<(QueryReply|QueryError) as ToString>::to_string$|^<&?(QueryReply|QueryError) as ToString>::to_string$',
                               lambda ex, nc, a: 'text', 'ToString of the reply / error -> marker text'),)

    def native(self, inputs, label):
        reqs = EvalStep.native(self, inputs, label)
        for r in reqs:
            r['one_line'] = True
        return reqs


class StaticPurity(Harness):
    """Not a solver query: facts read off the regenerated MIR dump that the inductive step relies on."""
    name = 'static.context_is_shared_and_immutable'
    props = ('C15',)
    describe = 'eval_query / eval_expr take &Context; no interior-mutability type occurs in any local of rink-core\'s MIR'
    expect_classes = ['return']
    _concrete = None

    def build(self, ex, I):
        return [], {}

    def entry(self, ex, args, ctx):
        prog = ex.prog
        facts = {}
        for fn in ('eval_query', 'eval_expr', 'eval_unit_name'):
            f = prog.lookup(fn)
            f.parse()
            facts[fn] = f.arg_types[0].strip()
        bad = []
        pat = re.compile(r'\b(RefCell|Cell|Mutex|RwLock|UnsafeCell|OnceCell|OnceLock|LazyLock|Atomic\w*)<|\bAtomic(Usize|Bool|U64|I64|U32|I32|Ptr)\b|\bstatic mut\b')
        for f in prog.order:
            if f.header.startswith('static mut'):
                bad.append(f.name)
            for ln in f.lines:
                t = ln.strip()
                if t.startswith('let ') and pat.search(t):
                    bad.append('%s: %s' % (f.name[:60], t[:100]))
                    break
        ctx['facts'] = facts
        ctx['bad'] = bad
        return Tup([])

    def post(self, ex, ctx, outcome):
        obs = []
        for fn, ty in ctx['facts'].items():
            obs.append(('%s takes the context by shared reference (got `%s`)' % (fn, ty), re.match(r'^&(?!mut)\s*(\w+::)*Context$', ty) is not None))
        obs.append(('no interior mutability in rink-core locals %s' % ctx['bad'][:3], not ctx['bad']))
        return obs

    def native(self, inputs, label):
        return [{'mode': 'query', 'save_previous_result': True, 'pre': ['5 m', '2 s', 'ans * 2'], 'text': 'ans'}]

    def judge(self, inputs, label, obs):
        got = obs_number_json(obs[0])
        return (got != (Fraction(4), {'s': 1})), 'history [5 m; 2 s; ans*2; ans] gave %s' % (got,)


def harnesses(tier):
    return [EvalStep(), StaticPurity()]


# --------------------------------------------------------------------------------------------------------------
from .c09 import TO_PARTS_STUB, CANON_STUB, CONF_STUB, DEFAULT_PARTS, UNKNOWN_STUB
from .c10 import NUMVAL_STUB, UNITSTR_STUB, DESCRIBE_STUB
from .c14 import stub_date_reply
from mirsym.lib import mk_datetime, MapV


def stub_eval_expr_value(ex, nc, args):
    return ok(dup(ex.env['value']))


class ReplyKinds(Harness):
    """only a plain expression query may produce QueryReply::Number (the one variant `eval` stores as ans)"""
    name = 'eval_query.reply_kinds'
    props = ('C15', 'C04')
    entry = 'eval_query'
    describe = ('eval_query on every conversion form (base, digits modes, expression target, unit list, scale, offset), search and error, '
                'with the source expression evaluating to an arbitrary Number (dimensionless, seconds or metres) or date')
    stubs = (LOOKUP_STUB, SHOW_STUB, TO_PARTS_STUB, CANON_STUB, CONF_STUB, DEFAULT_PARTS, UNKNOWN_STUB, NUMVAL_STUB, UNITSTR_STUB, DESCRIBE_STUB,
             (r'^eval_expr$', stub_eval_expr_value, 'eval_expr -> arbitrary Value (Number with one of three units, or DateTime)'),
             (r'^Number::to_parts_digits$', TO_PARTS_STUB[1], 'Number::to_parts_digits -> NumberParts{raw_value: self}'),
             (r'^DateReply::new$', stub_date_reply, 'DateReply::new -> record'),
             (r'^(commands::)?search$', lambda ex, nc, a: Struct('SearchReply', [Arr([])]), 'commands::search -> empty SearchReply'),
             (r'^eval_unit_name$', lambda ex, nc, a: ok(Tup([MapV(), rational(Fraction(1))])), 'eval_unit_name -> ({}, 1)'))
    loop_bound = 20
    expect_classes = ['Result::Ok', 'Result::Err']
    _concrete = None
    FORMS = ['plain', 'convert_none_default', 'base', 'base_digits', 'digits', 'fullint', 'fraction', 'scientific', 'engineering',
             'expr', 'list', 'degree', 'offset', 'search', 'error']

    def build(self, ex, I):
        form = self.FORMS[ex.choose(len(self.FORMS), 'query form')]
        vk = ex.choose(4, 'value kind')
        x = I.real('x')
        if vk == 3:
            value = variant(ex, 'Value', 'DateTime', [variant(ex, 'GenericDateTime', 'Fixed', [mk_datetime(I.int('d'), Struct('FixedOffset', [0]))])])
        else:
            unit = [{}, {'s': (True, 1)}, {'m': (True, 1)}][vk]
            value = variant(ex, 'Value', 'Number', [number(rational(x), dim(unit))])
        ex.env['value'] = value
        ex.env['units'] = {'u0': number(rational(Fraction(60)), dim({'s': (True, 1)})), 'u1': number(rational(Fraction(1)), dim({'s': (True, 1)})),
                           'kelvin': number(rational(Fraction(1)), dim({'K': (True, 1)})), 'zerocelsius': number(rational(Fraction(27315, 100)), dim({'K': (True, 1)}))}
        top = expr_const(ex, rational(Fraction(1)))
        D = lambda n, f=(): variant(ex, 'Digits', n, list(f))
        C = lambda n, f=(): variant(ex, 'Conversion', n, list(f))
        Q = lambda conv, base, digits: variant(ex, 'Query', 'Convert', [top, conv, base, digits])
        q = {
            'plain': lambda: variant(ex, 'Query', 'Expr', [top]),
            'convert_none_default': lambda: Q(C('None'), none(ex), D('Default')),
            'base': lambda: Q(C('None'), some(ex, 10), D('Default')),
            'base_digits': lambda: Q(C('None'), some(ex, 16), D('Digits', [5])),
            'digits': lambda: Q(C('None'), none(ex), D('Digits', [5])),
            'fullint': lambda: Q(C('None'), none(ex), D('FullInt')),
            'fraction': lambda: Q(C('None'), none(ex), D('Fraction')),
            'scientific': lambda: Q(C('None'), none(ex), D('Scientific')),
            'engineering': lambda: Q(C('None'), none(ex), D('Engineering')),
            'expr': lambda: Q(C('Expr', [expr_const(ex, rational(Fraction(2)))]), none(ex), D('Default')),
            'list': lambda: Q(C('List', [Arr(['u0', 'u1'])]), none(ex), D('Default')),
            'degree': lambda: Q(C('Degree', [variant(ex, 'Degree', 'Celsius')]), none(ex), D('Default')),
            'offset': lambda: Q(C('Offset', [3600]), none(ex), D('Default')),
            'search': lambda: variant(ex, 'Query', 'Search', ['foo']),
            'error': lambda: variant(ex, 'Query', 'Error', ['bad']),
        }[form]()
        cf = ex.prog.src.structs['Context']
        rf = ex.prog.src.structs['Registry']
        rv = {f: MapV() for f in rf}
        rv['prefixes'] = Arr([])
        rv['datepatterns'] = Arr([])
        cv = {f: Opaque(f) for f in cf}
        cv['registry'] = make_struct(ex, 'Registry', {})
        cv['previous_result'] = none(ex)
        ctxv = make_struct(ex, 'Context', cv)
        return [ref(ctxv), ref(q)], {'form': form}

    def post(self, ex, ctx, outcome):
        r = deref_all(outcome[1])
        if is_err(r):
            return []
        rep = deref_all(payload(r))
        plain = ctx['form'] in ('plain', 'convert_none_default')
        return [('only a plain expression yields the Number reply that `eval` stores as ans (form %s gave %s)' % (ctx['form'], rep.vname),
                 (rep.vname != 'Number') or plain)]

    def case(self, ctx, vals, label):
        c = Harness.case(self, ctx, vals, label)
        c['inputs']['form'] = ctx['form']
        return c

    TEXT = {'base': '7 -> base 10', 'base_digits': '7 -> digits 5 base 16', 'digits': '7 -> digits 5', 'fullint': '7 -> digits', 'fraction': '7 -> fraction',
            'scientific': '7 -> scientific', 'engineering': '7 -> engineering', 'expr': '7 -> 2', 'list': '7 s -> minute;second',
            'degree': '300 kelvin -> degC', 'offset': 'now -> +01:00', 'search': 'search foo', 'error': '7 ->'}

    def native(self, inputs, label):
        t = self.TEXT.get(inputs['form'], '7 -> base 10')
        return [{'mode': 'query', 'save_previous_result': True, 'ans': number_json(Fraction(5), {}), 'pre': [t], 'text': 'ans'}]

    def judge(self, inputs, label, obs):
        got = obs_number_json(obs[0])
        return (got != (Fraction(5), {})), 'after `%s`, ans = %s (expected the earlier 5)' % (self.TEXT.get(inputs['form']), got)


def harnesses(tier):   # noqa: F811
    return [EvalStep(), OneLineStep(), StaticPurity(), ReplyKinds()]
