"""C03 conversions `v -> t`: the Convert(_, Conversion::Expr) arm of eval_query, conformance_err, Context::show.
C06 (second half): eval_expr and eval_unit_name must agree on every conversion target."""
import z3
from .common import *  # noqa
from .c09 import TO_PARTS_STUB, CANON_STUB, DEFAULT_PARTS
from .c10 import NUMVAL_STUB, UNITSTR_STUB, DESCRIBE_STUB, reply_raw

U = ('kg', 'm', 's')
STUBS = (LOOKUP_STUB, SHOW_STUB, TO_PARTS_STUB, CANON_STUB, DEFAULT_PARTS, NUMVAL_STUB, UNITSTR_STUB, DESCRIBE_STUB)


class ConvertArm(Harness):
    props = ('C03', 'C04')
    entry = 'eval_query'
    stubs = STUBS
    loop_bound = 12
    _concrete = None

    def __init__(self, target):
        self.target = target      # 'unit' | 'const_unit' | 'frac'
        self.name = 'eval_query.convert.%s' % target
        self.describe = {'unit': '`a -> b`', 'const_unit': '`a -> c b` (target with a constant factor)',
                         'frac': '`a -> b / c` (target with a constant divisor)'}[target] + \
            ' with a, b arbitrary Numbers (unbounded rationals, symbolic exponent vectors over %s), c an arbitrary rational' % (U,)
        self.expect_classes = ['Result::Ok', 'Result::Err']
        self.bounds = ['targets of the three shapes unit / const*unit / unit/const; digits Default, base 10']

    def build(self, ex, I):
        v = I.real('v')
        w = I.real('w')
        c = I.real('c') if self.target != 'unit' else Fraction(1)
        DA, entA = sym_dim(ex, I, 'da', U, lo=-4, hi=4)
        DB, entB = sym_dim(ex, I, 'db', U, lo=-4, hi=4)
        ex.env['units'] = {'a': number(rational(v), DA), 'b': number(rational(w), DB)}
        if self.target == 'unit':
            bottom = expr_unit(ex, 'b')
        elif self.target == 'const_unit':
            bottom = expr_mul(ex, [expr_const(ex, rational(c)), expr_unit(ex, 'b')])
        else:
            bottom = expr_binop(ex, 'Frac', expr_unit(ex, 'b'), expr_const(ex, rational(c)))
        q = variant(ex, 'Query', 'Convert', [expr_unit(ex, 'a'), variant(ex, 'Conversion', 'Expr', [bottom]), none(ex),
                                             variant(ex, 'Digits', 'Default')])
        return [ref(Opaque('Context')), ref(q)], {'v': v, 'w': w, 'c': c, 'entA': entA, 'entB': entB}

    def target_value(self, ctx):
        w, c = zreal(ctx['w']), zreal(ctx['c'])
        if self.target == 'frac':
            return w / c
        return w * c

    def post(self, ex, ctx, outcome):
        v, w, c, entA, entB = zreal(ctx['v']), zreal(ctx['w']), zreal(ctx['c']), ctx['entA'], ctx['entB']
        same = dims_equal_formula(entA, entB)
        r = deref_all(outcome[1])
        cz = (c != 0) if self.target == 'frac' else True
        t = self.target_value(ctx)
        if is_ok(r):
            rep = deref_all(payload(r))
            if not (isinstance(rep, Enum) and rep.vname == 'Conversion'):
                return [('reply is a Conversion', False)]
            raw = reply_raw(ex, rep)
            val, d = number_parts(raw)
            kind, x = numeric_parts(val)
            obs = [('conversion succeeds only between identical dimensionalities', same),
                   ('conversion to a zero-valued target is refused', z3.And(zbool(cz), t != 0)),
                   ('no float fallback', kind == 'rational')]
            if kind == 'rational':
                obs.append(('x * t = v exactly', z3.Implies(z3.And(zbool(cz), t != 0), zreal(x) * t == v)))
            obs.append(('reported number is the pure ratio (dimensionless)', dims_equal_formula(d, {})))
            return obs
        e = deref_all(payload(r))
        if isinstance(e, Enum) and e.vname == 'Conformance':
            ce = deref_all(e.fields[0])
            sugg = deref_all(ce.fields[ex.prog.src.structs['ConformanceError'].index('suggestions')])
            first = deref_all(sugg.fields[0]) if sugg.fields else None
            recip = True
            for k in sorted(set(entA) | set(entB)):
                recip = b_and(recip, n_eq(n_add(eff_exp(entA, k), eff_exp(entB, k)), 0))
            is_recip_msg = isinstance(first, str) and first.startswith('Reciprocal conversion')
            return [('conformance error only when dimensionalities differ', z3.Not(zbool(same))),
                    ('the reciprocal case is flagged exactly when v*t is dimensionless', zbool(recip) if is_recip_msg else z3.Not(zbool(recip))),
                    ('otherwise the missing factor is named (two suggestions)', True if is_recip_msg else len(sugg.fields) == 2)]
        # generic error: only division by zero (or a zero divisor inside the target)
        return [('generic error only for a zero-valued target', z3.Or(z3.Not(zbool(cz)), z3.And(zbool(same), t == 0)))]

    def prefer(self, ctx):
        prefs = []
        for ent in (ctx['entA'], ctx['entB']):
            for k, (p, e) in ent.items():
                prefs.append(z3.And(e >= -2, e <= 2))
        for x in (ctx['v'], ctx['w'], ctx['c']):
            if is_z3(x):
                prefs += [x != 0, z3.And(x > -1000, x < 1000), z3.IsInt(x * 12)]
        return prefs

    def _text(self, inputs):
        v, w = Fraction(inputs['v']), Fraction(inputs['w'])
        c = Fraction(inputs.get('c', 1))
        da, db = conc_dim(inputs, 'da', U), conc_dim(inputs, 'db', U)
        # ad-hoc units: `'x'` quotes make new base units, so arbitrary exponent vectors are expressible
        a = qty_text(v, da)
        b = qty_text(w, db)
        if self.target == 'unit':
            return a, b, w
        if self.target == 'const_unit':
            return a, '%s %s' % (frac_text(c), b), w * c
        return a, '%s / %s' % (b, frac_text(c)), (w / c if c != 0 else None)

    def native(self, inputs, label):
        a, b, t = self._text(inputs)
        return [{'mode': 'query', 'text': '%s -> %s' % (a, b)}]

    def judge(self, inputs, label, obs):
        a, b, t = self._text(inputs)
        v = Fraction(inputs['v'])
        da, db = conc_dim(inputs, 'da', U), conc_dim(inputs, 'db', U)
        q = obs[0]
        if q.get('outcome') == 'panic' or q.get('render_panic'):
            return True, '`%s -> %s` panics: %s' % (a, b, q.get('panic') or q.get('render_panic'))
        j = q.get('json') or {}
        got = obs_number_json(q)
        if da != db:
            bad = not (q.get('outcome') == 'err' and j.get('type') == 'conformance')
            return bad, '`%s -> %s` (non-conformable) gave %s' % (a, b, q.get('display'))
        if t is None or t == 0:
            return (q.get('outcome') != 'err'), '`%s -> %s` (zero target) gave %s' % (a, b, q.get('display'))
        want = v / t
        return (got is None or got[0] != want), '`%s -> %s` gave %s, expected %s' % (a, b, got, want)


class TwoEvaluators(Harness):
    """eval_expr(t).value == bottom_const(t) * prod lookup(name_i)^exp_i  -- the invariant Context::show relies on
    when it prints `factor`/`divfactor` next to the unit names."""
    props = ('C06', 'C03', 'C04')
    stubs = STUBS
    entry_name = 'eval_expr ; eval_unit_name'
    loop_bound = 12
    _concrete = None
    SHAPES = ['mul_const', 'frac_const', 'neg', 'add', 'sub', 'pow2', 'frac_units', 'mul_units', 'add_const_units', 'mod', 'pow3', 'pow-1', 'pow-2', 'constpow-3', 'frac_chain', 'frac_same', 'frac_mul_same']

    def __init__(self):
        self.name = 'conversion_target.two_evaluators_agree'
        self.describe = 'target trees over {Unit a, Unit b, Const c, Const k} with Mul, Frac, Neg, Add, Sub, Pow 2 / 3 / -1 / -2 / -3, Mod: value computed by eval_expr vs constant and unit map computed by eval_unit_name'
        self.bounds = ['17 tree shapes of depth <= 3 (three with a unit name on both sides of a quotient); a and b share one dimensionality where the shape adds them']
        self.expect_classes = ['agree-or-refused']

    def build(self, ex, I):
        va, vb, c, k = I.real('va'), I.real('vb'), I.real('c'), I.real('k')
        shape = self.SHAPES[ex.choose(len(self.SHAPES), 'shape')]
        D = dim({'m': (True, 1)})
        ex.env['units'] = {'a': number(rational(va), D), 'b': number(rational(vb), dup(D))}
        A, B = expr_unit(ex, 'a'), expr_unit(ex, 'b')
        C, K = expr_const(ex, rational(c)), expr_const(ex, rational(k))
        t = {
            'mul_const': lambda: expr_mul(ex, [C, A]),
            'frac_const': lambda: expr_binop(ex, 'Frac', A, C),
            'neg': lambda: expr_unary(ex, variant(ex, 'UnaryOpType', 'Negative'), expr_mul(ex, [C, A])),
            'add': lambda: expr_binop(ex, 'Add', A, B),
            'sub': lambda: expr_binop(ex, 'Sub', A, B),
            'pow2': lambda: expr_binop(ex, 'Pow', expr_mul(ex, [C, A]), expr_const(ex, rational(Fraction(2)))),
            'pow3': lambda: expr_binop(ex, 'Pow', expr_mul(ex, [C, A]), expr_const(ex, rational(Fraction(3)))),
            'pow-1': lambda: expr_binop(ex, 'Pow', expr_mul(ex, [C, A]), expr_const(ex, rational(Fraction(-1)))),
            'pow-2': lambda: expr_binop(ex, 'Pow', expr_mul(ex, [C, A]), expr_const(ex, rational(Fraction(-2)))),
            'constpow-3': lambda: expr_mul(ex, [expr_binop(ex, 'Pow', C, expr_const(ex, rational(Fraction(-3)))), A]),
            'frac_chain': lambda: expr_binop(ex, 'Frac', expr_binop(ex, 'Frac', expr_mul(ex, [C, A]), B), dup(B)),
            'frac_same': lambda: expr_binop(ex, 'Frac', expr_mul(ex, [C, A, dup(A)]), expr_mul(ex, [K, dup(A)])),
            'frac_mul_same': lambda: expr_mul(ex, [expr_binop(ex, 'Frac', A, B), dup(B), C]),
            'frac_units': lambda: expr_binop(ex, 'Frac', expr_mul(ex, [C, A]), expr_mul(ex, [K, B])),
            'mul_units': lambda: expr_mul(ex, [C, A, K, B]),
            'add_const_units': lambda: expr_binop(ex, 'Add', expr_mul(ex, [C, A]), expr_mul(ex, [K, A])),
            'mod': lambda: expr_binop(ex, 'Mod', expr_mul(ex, [C, A]), expr_mul(ex, [K, A])),
        }[shape]()
        return [t], {'va': va, 'vb': vb, 'c': c, 'k': k, 'shape': shape}

    def entry(self, ex, args, ctx):
        t = args[0]
        # same order as eval_query: the unit-name evaluator only runs on targets eval_expr accepted
        r1 = ex.call(None, 'runtime::eval::eval_expr', [ref(Opaque('Context')), ref(t)])
        if not is_ok(r1):
            return Tup([r1, err(Opaque('not evaluated'))])
        r2 = ex.call(None, 'runtime::eval::eval_unit_name', [ref(Opaque('Context')), ref(dup(t))])
        return Tup([r1, r2])

    def classify(self, outcome):
        return 'panic' if outcome[0] == 'panic' else 'agree-or-refused'

    def post(self, ex, ctx, outcome):
        t = deref_all(outcome[1])
        r1, r2 = deref_all(t.fields[0]), deref_all(t.fields[1])
        if not (is_ok(r1) and is_ok(r2)):
            return []          # a refused target never reaches Context::show
        v = deref_all(payload(r1))
        if not (isinstance(v, Enum) and v.vname == 'Number'):
            return []
        val, d = number_parts(v.fields[0])
        kind, x = numeric_parts(val)
        pair = deref_all(payload(r2))
        names = deref_all(pair.fields[0])
        kc, cst = numeric_parts(pair.fields[1])
        if kind != 'rational' or kc != 'rational':
            return [('both evaluators stay rational', False)]
        va, vb = zreal(ctx['va']), zreal(ctx['vb'])
        prod = zreal(cst)
        for key, (kv, p, e) in names.ent.items():
            nm = key if isinstance(key, str) else key[0] if isinstance(key, tuple) else key
            base = {'a': va, 'b': vb}[nm]
            e = simp(e)
            if not ex.branch(p, 'name %s present' % nm):
                continue
            if not is_conc(e):
                return [('unit powers are concrete in these shapes', False)]
            for _ in range(abs(int(e))):
                prod = prod * base if e > 0 else prod / base
        return [('value of the target = printed constant * product of the named units', z3.Implies(z3.And(va != 0, vb != 0), zreal(x) == prod))]

    def case(self, ctx, vals, label):
        c = Harness.case(self, ctx, vals, label)
        c['inputs']['shape'] = ctx['shape']
        return c

    def prefer(self, ctx):
        out = []
        for n in ('va', 'vb', 'c', 'k'):
            out += [ctx[n] != 0, z3.And(ctx[n] > 0, ctx[n] < 50), z3.IsInt(ctx[n])]
        return out

    def native(self, inputs, label):
        va, vb, c, k = (Fraction(inputs[n]) for n in ('va', 'vb', 'c', 'k'))
        A, B = '(%s m)' % frac_text(va), '(%s m)' % frac_text(vb)
        C, K = frac_text(c), frac_text(k)
        shape = inputs['shape']
        txt = {'mul_const': '%s %s' % (C, A), 'frac_const': '%s / %s' % (A, C), 'neg': '-(%s %s)' % (C, A),
               'add': '%s + %s' % (A, B), 'sub': '%s - %s' % (A, B), 'pow2': '(%s %s)^2' % (C, A),
               'frac_units': '(%s %s) / (%s %s)' % (C, A, K, B), 'mul_units': '%s %s %s %s' % (C, A, K, B),
               'add_const_units': '(%s %s) + (%s %s)' % (C, A, K, A), 'mod': '(%s %s) mod (%s %s)' % (C, A, K, A),
               'pow3': '(%s %s)^3' % (C, A), 'pow-1': '(%s %s)^-1' % (C, A), 'pow-2': '(%s %s)^-2' % (C, A), 'constpow-3': '(%s)^-3 %s' % (C, A), 'frac_chain': '%s %s / %s / %s' % (C, A, B, B),
               'frac_same': '(%s %s %s) / (%s %s)' % (C, A, A, K, A), 'frac_mul_same': '(%s / %s) %s %s' % (A, B, B, C)}[shape]
        # ask rink to convert a known quantity to the target and read the reply back
        power = {'pow2': 2, 'frac_units': 0, 'mul_units': 2, 'pow3': 3, 'pow-1': -1, 'pow-2': -2, 'frac_chain': -1}.get(shape, 1)
        src = '1000 m^(%d)' % power if power else '1000'
        return [{'mode': 'query', 'text': '%s -> %s' % (src, txt)}, {'mode': 'query', 'text': txt}]

    def judge(self, inputs, label, obs):
        q, direct = obs
        if q.get('outcome') == 'panic' or q.get('render_panic'):
            return True, 'panic %s' % (q.get('panic') or q.get('render_panic'))
        j = q.get('json') or {}
        parts = j.get('value') or {}
        got = obs_number_json(q)
        tv = obs_number_json(direct)
        if got is None or tv is None:
            return False, 'refused: %s' % q.get('display')
        # printed: numeral * factor / divfactor  <unit names>; here the unit names are the ad-hoc (n m) groups,
        # so compare the printed factor with the target's true value instead
        factor = Fraction(parts.get('factor') or 1) / Fraction(parts.get('divfactor') or 1)
        display = q.get('display')
        # true statement: 1000 m^p = x * target  => x = 1000 / target_value
        x = got[0]
        want = Fraction(1000) / tv[0] if tv[0] != 0 else None
        ok_value = (want is not None and x == want)
        # every unit named in these targets is the base unit itself, so the printed factor must be the target's value
        ok_factor = (factor == tv[0])
        power = {'pow2': 2, 'frac_units': 0, 'mul_units': 2, 'pow3': 3, 'pow-1': -1, 'pow-2': -2, 'frac_chain': -1}.get(inputs['shape'], 1)
        shown = {k: int(e) for k, e in (parts.get('rawUnit') or {}).items() if int(e)}
        ok_unit = shown == ({'meter': power} if power else {})
        return (not (ok_value and ok_factor and ok_unit)), 'display %r: numeral %s, printed factor %s, printed unit %s; the target is worth %s meter^%d' % (
            display, x, factor, shown, tv[0], power)


def harnesses(tier):
    return [ConvertArm('unit'), ConvertArm('const_unit'), ConvertArm('frac'), TwoEvaluators()]


# --------------------------------------------------------------------------------------------------------------
# "naming the missing factor": Context::describe_unit, whose text goes into the suggestions of a conformance error

QUANTITIES = {'length': {'m': 1}, 'time': {'s': 1}, 'velocity': {'m': 1, 's': -1}, 'area': {'m': 2}, 'acceleration': {'m': 1, 's': -2},
              'frequency': {'s': -1}}


def denote_description(text):
    """dimensionality (dict) denoted by a description such as `length^2`, `velocity`, `length / time^2`, `'kg' time`"""
    import re as _r
    out = {}
    sign = 1
    for tok in text.split():
        if tok == '/':
            sign = -1
            continue
        m = _r.match(r"^(?:'([^']+)'|([A-Za-z_]+))(?:\^(-?\d+))?$", tok)
        if not m:
            return None
        p = int(m.group(3)) if m.group(3) else 1
        if m.group(1):
            d = {m.group(1): 1}
        elif m.group(2) in QUANTITIES:
            d = QUANTITIES[m.group(2)]
        else:
            return None
        for k, e in d.items():
            out[k] = out.get(k, 0) + sign * p * e
    return {k: e for k, e in out.items() if e}


class DescribeUnit(Harness):
    name = 'context.describe_unit'
    props = ('C03', 'C04')
    entry_name = 'Context::describe_unit'
    loop_bound = 40
    _concrete = None

    def __init__(self, hi):
        self.hi = hi
        self.describe = ('Context::describe_unit on an arbitrary dimensionality over m, s (|exponent| <= %d) with the quantity table %s: the description '
                         '(a quantity, a quantity squared, a reciprocal, or a product / quotient of named factors) denotes exactly that dimensionality') % (
            hi, sorted(QUANTITIES))
        self.bounds = ['base units m, s; |exponent| <= %d; %d named quantities' % (hi, len(QUANTITIES))]
        self.assumptions = ['the described dimensionality is not dimensionless (the only caller, conformance_err, is reached for differing dimensionalities)']
        self.expect_classes = ['return']

    def build(self, ex, I):
        from mirsym.lib import MapV, freeze
        D, ent = sym_dim(ex, I, 'd', ('m', 's'), lo=-self.hi, hi=self.hi)
        q = MapV()
        for n, d in QUANTITIES.items():
            ds = dim({k: (True, e) for k, e in d.items()})
            q.ent[freeze(ds)] = [ds, True, n]
        reg = make_struct(ex, 'Registry', {'quantities': q})
        ctxv = make_struct(ex, 'Context', {'registry': reg, 'temporaries': MapV(), 'previous_result': none(ex)})
        ex.env['fmt_int_range'] = (-self.hi, self.hi)
        # callers (conformance_err) describe the quotient of two *different* dimensionalities: never dimensionless.
        # (Called directly on a dimensionless number the function panics in `buf.remove(0)`; no query reaches that.)
        ex.assume(z3.Or(*[zbool(p) for p, e in ent.values()]))
        return [ref(ctxv), ref(number(rational(I.real('v')), D))], {'ent': ent}

    def entry(self, ex, args, ctx):
        return ex.call(None, 'loader::context::Context::describe_unit', list(args))

    def post(self, ex, ctx, outcome):
        t = deref_all(outcome[1])
        recip, text = t.fields[0], deref_all(t.fields[1])
        if not isinstance(text, str):
            return [('the description is text', False)]
        den = denote_description(text)
        if den is None:
            return [('the description %r is made of quantity names, quoted base units, powers and one `/`' % text, False)]
        r = simp(recip) if is_z3(recip) else recip
        if not isinstance(r, bool):
            return [('the reciprocal flag is decided on this path', False)]
        obs = []
        for u in ('m', 's'):
            p, e = ctx['ent'][u]
            have = z3.If(zbool(p), zint(e), 0)
            want = den.get(u, 0) * (-1 if r else 1)
            obs.append(('%r%s denotes the exponent of %s' % (text, ' (reciprocal)' if r else '', u), have == want))
        extra = [k for k in den if k not in ('m', 's')]
        obs.append(('no foreign base unit in %r' % text, not extra))
        return obs

    def native(self, inputs, label):
        d = conc_dim(inputs, 'd', ('m', 's'))
        unit = ' '.join('%s^%d' % (k, e) for k, e in d.items()) or '1'
        return [{'mode': 'query', 'text': '1 kg -> 1 kg %s' % unit if d else '1 kg -> 1 kg'}]

    def judge(self, inputs, label, obs):
        # the suggestion of a conformance error names the factor: `multiply left side by <description>` etc.
        q = obs[0]
        if q.get('outcome') == 'panic' or q.get('render_panic'):
            return True, 'panic %s' % (q.get('panic') or q.get('render_panic'))
        import re as _r
        d = conc_dim(inputs, 'd', ('m', 's'))
        sug = ((q.get('json') or {}).get('suggestions')) or []
        found = []
        for s_ in sug:
            m = _r.match(r'^(multiply|divide) (left|right) side by (.*)$', s_)
            if m:
                found.append(m.groups())
        bad = []
        real_q = {'length': {'m': 1}, 'time': {'s': 1}, 'velocity': {'m': 1, 's': -1}, 'area': {'m': 2}, 'acceleration': {'m': 1, 's': -2},
                  'frequency': {'s': -1}, 'volume': {'m': 3}, 'jerk': {'m': 1, 's': -3}, 'specific_volume': None}
        for verb, side, desc in found:
            toks_ok = all(t_ == '/' or _r.sub(r"\^-?\d+$", '', t_).strip("'") in list(real_q) + ['m', 's'] for t_ in desc.split())
            if not toks_ok:
                continue
            den = denote_description(desc)
            if den is None:
                continue
            # left = 1 kg, right = 1 kg * unit: multiplying the LEFT side by `unit` (or dividing the right by it) conforms
            want = d if (verb, side) in (('multiply', 'left'), ('divide', 'right')) else {k: -e for k, e in d.items()}
            if den != want:
                bad.append('suggestion %r denotes %s, the missing factor is %s' % (' '.join((verb, side, 'side by', desc)), den, want))
        return bool(bad), '; '.join(bad) or 'suggestions %s name the missing factor' % sug


_c03_prev = harnesses


def harnesses(tier):   # noqa: F811
    return _c03_prev(tier) + [DescribeUnit(3 if tier == 'quick' else 4)]


# --------------------------------------------------------------------------------------------------------------
# A rational on one side and a float on the other (targets such as `(4 m^2)^(1/2)` are float-valued): the operands must not
# be swapped or mixed up on the way to the float operation.

class MixedFloat(Harness):
    name = 'eval_expr.rational_with_float'
    props = ('C03', 'C01')
    entry = 'eval_expr'
    stubs = (LOOKUP_STUB, SHOW_STUB)
    loop_bound = 12
    describe = ('eval_expr on `a - b`, `a / b`, `b - a`, `b / a` with a an arbitrary rational and b one of the floats 2.0, 0.5, 3.0: the float result is '
                'the exact result up to rounding (relative 1e-9)')
    bounds = ['float operand from {2.0, 0.5, 3.0}; 2^-500 < |a| < 2^500; floats by value with IEEE rounding bounds']
    expect_classes = ['Result::Ok']
    _concrete = None
    FLOATS = [Fraction(2), Fraction(1, 2), Fraction(3)]
    OPS = ['Sub', 'Frac']

    def build(self, ex, I):
        a = I.real('a')
        b = self.FLOATS[ex.choose(len(self.FLOATS), 'float operand')]
        op = self.OPS[ex.choose(len(self.OPS), 'operator')]
        left_is_float = ex.choose(2, 'float on the left')
        aa = z3.If(a >= 0, a, -a)
        ex.assume(z3.And(aa > zreal(Fraction(1, 2 ** 500)), aa < 2 ** 500))      # no float overflow / underflow in play
        ex.env['units'] = {'a': number(rational(a), dim({})), 'b': number(floatnum(F64(b, False, False)), dim({}))}
        l, r = (expr_unit(ex, 'b'), expr_unit(ex, 'a')) if left_is_float else (expr_unit(ex, 'a'), expr_unit(ex, 'b'))
        return [ref(Opaque('Context')), ref(expr_binop(ex, op, l, r))], {'a': a, 'b': b, 'op': op, 'lf': left_is_float}

    def post(self, ex, ctx, outcome):
        r = deref_all(outcome[1])
        a, b = zreal(ctx['a']), zreal(ctx['b'])
        if not is_ok(r):
            return [('rational op float is defined', False)]
        v = deref_all(payload(r))
        val, d = number_parts(v.fields[0])
        kind, x = numeric_parts(val)
        if kind != 'float':
            return [('the result of a float operand is a float', False)]
        l, rr = (b, a) if ctx['lf'] else (a, b)
        exact = l - rr if ctx['op'] == 'Sub' else l / rr
        diff = zreal(x.val) - exact
        mag = z3.If(exact >= 0, exact, -exact)
        tol = mag * zreal(Fraction(1, 10 ** 9)) + zreal(Fraction(1, 10 ** 300))
        return [('the float result is not NaN', z3.Not(zbool(x.nan))),
                ('%s %s %s up to rounding' % ('b' if ctx['lf'] else 'a', {'Sub': '-', 'Frac': '/'}[ctx['op']], 'a' if ctx['lf'] else 'b'),
                 z3.And(diff <= tol, -diff <= tol))]

    def case(self, ctx, vals, label):
        c = Harness.case(self, ctx, vals, label)
        c['inputs'].update({'b': str(ctx['b']), 'op': ctx['op'], 'float_left': int(ctx['lf'])})
        return c

    def prefer(self, ctx):
        return [ctx['a'] == 10, z3.And(ctx['a'] > 0, ctx['a'] < 1000), z3.IsInt(ctx['a'])]

    def native(self, inputs, label):
        a, b = Fraction(inputs['a']), Fraction(inputs['b'])
        ftxt = {Fraction(2): 'sqrt(4)', Fraction(1, 2): 'sqrt(1/4)', Fraction(3): 'sqrt(9)'}[b]
        sym = {'Sub': '-', 'Frac': '/'}[inputs['op']]
        l, r = (ftxt, '(%s)' % frac_text(a)) if int(inputs['float_left']) else ('(%s)' % frac_text(a), ftxt)
        return [{'mode': 'query', 'text': '%s %s %s' % (l, sym, r)}]

    def judge(self, inputs, label, obs):
        q = obs[0]
        if q.get('outcome') == 'panic' or q.get('render_panic'):
            return True, 'panic %s' % (q.get('panic') or q.get('render_panic'))
        a, b = Fraction(inputs['a']), Fraction(inputs['b'])
        l, r = (b, a) if int(inputs['float_left']) else (a, b)
        want = l - r if inputs['op'] == 'Sub' else l / r
        j = q.get('json') or {}
        rawv = ((j.get('rawValue') or {}).get('value')) if isinstance(j, dict) else None
        got = None
        if isinstance(rawv, dict):
            for key in ('approxValue', 'exactValue'):
                try:
                    got = Fraction(rawv.get(key)) if rawv.get(key) not in (None, '') else got
                except (ValueError, TypeError):
                    pass
            if got is None and rawv.get('numer') is not None:
                got = Fraction(int(rawv['numer']), int(rawv['denom']))
        if got is None:
            return False, 'no value in the reply %s' % q.get('display')
        return (abs(got - want) > abs(want) / 10 ** 5 + Fraction(1, 10 ** 9)), '%s gave %s, expected about %s' % (q.get('display'), float(got), float(want))


_c03_prev2 = harnesses


def harnesses(tier):   # noqa: F811
    return _c03_prev2(tier) + [MixedFloat()]
