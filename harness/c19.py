"""C19 (engine M part): the allocator's MIR with the parent allocator allowed to fail, one inductive step from an
arbitrary state, and two threads interleaved at atomic-call granularity."""
import z3
from .common import *  # noqa
from mirsym.sched import Scheduler

BIG = 2 ** 62


def mk_alloc(used, mx, limit):
    return Struct('Alloc', [Struct('System', []), Struct('Atomic', [used]), Struct('Atomic', [mx]), Struct('Atomic', [limit])])


ALIGN = [1]       # alignment of the layouts handed to the allocator; harnesses may set another value around a call


def layout(size):
    return Struct('Layout', [size, ALIGN[0]])


def state(a):
    return a.fields[1].fields[0], a.fields[2].fields[0], a.fields[3].fields[0]


def is_null(p):
    return deref_all(p).fields[0] == 0


OPS = ['alloc', 'alloc_zeroed', 'realloc', 'dealloc']


def call_op(ex, a, op, size, old):
    pfx = '<sandbox::alloc::Alloc as std::alloc::GlobalAlloc>::'
    if op in ('alloc', 'alloc_zeroed'):
        return ex.call(None, '<Alloc as GlobalAlloc>::' + op, [ref(a) if not isinstance(a, Ref) else a, layout(size)])
    if op == 'realloc':
        return ex.call(None, '<Alloc as GlobalAlloc>::realloc', [a if isinstance(a, Ref) else ref(a), Struct('Ptr', [7]), layout(old), size])
    return ex.call(None, '<Alloc as GlobalAlloc>::dealloc', [a if isinstance(a, Ref) else ref(a), Struct('Ptr', [7]), layout(size)])


class OneStep(Harness):
    name = 'alloc.one_step'
    props = ('C19', 'C04')
    program = 'alloc'
    entry_name = '<Alloc as GlobalAlloc>::{alloc, alloc_zeroed, realloc, dealloc}'
    describe = ('one allocator operation from an arbitrary state (used, peak, limit symbolic usize with peak >= used), arbitrary sizes, the '
                'parent allocator failing or not: accounting, limit enforcement, peak - an inductive step, so histories of any length')
    bounds = ['used, sizes <= 2^62 (no wrap-around of `used + size`)', 'single thread']
    assumptions = ['pre-state invariant: peak >= used (holds after new() and is re-established by every operation incl. reset_max)']
    expect_classes = ['success', 'refused']
    _concrete = None

    def build(self, ex, I):
        u, m, L = I.int('used', 'usize'), I.int('peak', 'usize'), I.int('limit', 'usize')
        size, old = I.int('size', 'usize'), I.int('old_size', 'usize')
        ex.assume(z3.And(u <= BIG, size <= BIG, old <= BIG, m >= u, size >= 1, old >= 1))
        op = OPS[ex.choose(len(OPS), 'operation')]
        align = [1, 8, 16][ex.choose(3, 'alignment of the layout')]
        ALIGN[0] = align
        if op in ('dealloc',):
            ex.assume(size <= u)         # the block being freed is live
        if op == 'realloc':
            ex.assume(old <= u)
        a = mk_alloc(u, m, L)
        cell = Cell(a, 'alloc')
        return [Ref(cell), op, size, old], {'cell': cell, 'u': u, 'm': m, 'L': L, 'size': size, 'old': old, 'op': op, 'align': align}

    def entry(self, ex, args, ctx):
        a, op, size, old = args
        ALIGN[0] = ctx['align']
        try:
            return call_op(ex, a, op, size, old)
        finally:
            ALIGN[0] = 1

    def classify(self, outcome):
        if outcome[0] == 'panic':
            return 'panic'
        r = deref_all(outcome[1])
        if isinstance(r, Struct) and r.name == 'Ptr':
            return 'refused' if r.fields[0] == 0 else 'success'
        return 'success'

    def post(self, ex, ctx, outcome):
        u, m, L, size, old, op = ctx['u'], ctx['m'], ctx['L'], ctx['size'], ctx['old'], ctx['op']
        u2, m2, L2 = state(ctx['cell'].value)
        obs = [('limit is not touched', n_eq(L2, L)), ('peak never decreases', n_ge(m2, m))]
        if op == 'dealloc':
            obs.append(('dealloc releases exactly the block', n_eq(u2, n_sub(u, size))))
            obs.append(('peak >= usage', n_ge(m2, u2)))
            return obs
        ok_ = not is_null(outcome[1])
        if op in ('alloc', 'alloc_zeroed'):
            if ok_:
                obs += [('success only within the limit', n_le(n_add(u, size), L)), ('usage grows by the block', n_eq(u2, n_add(u, size))),
                        ('peak covers the new usage', n_ge(m2, u2))]
            else:
                obs += [('refusal / parent failure leaves usage unchanged', n_eq(u2, u)), ('peak >= usage', n_ge(m2, u2))]
        else:
            if ok_:
                obs += [('realloc success only within the limit', n_le(n_add(n_sub(u, old), size), L)),
                        ('usage = old usage - old size + new size', n_eq(u2, n_add(n_sub(u, old), size))),
                        ('peak covers the new usage', n_ge(m2, u2))]
            else:
                obs += [('refused realloc leaves usage unchanged', n_eq(u2, u)), ('peak >= usage', n_ge(m2, u2))]
        return obs

    def case(self, ctx, vals, label):
        c = Harness.case(self, ctx, vals, label)
        c['inputs']['op'] = ctx['op']
        c['inputs']['align'] = ctx['align']
        return c

    def prefer(self, ctx):
        return [ctx['L'] <= 4096, ctx['u'] <= 4096, ctx['size'] <= 8192, ctx['m'] == ctx['u']]

    def native(self, inputs, label):
        u, L, size, old = (int(inputs[k]) for k in ('used', 'limit', 'size', 'old_size'))
        if max(u, size, old) > 1 << 24 or int(inputs['peak']) != u:
            return []
        reqs = [{'mode': 'alloc_step', 'limit': L, 'used': u, 'op': inputs['op'], 'size': size, 'old': old, 'align': int(inputs.get('align', 1))}]
        if inputs['op'] in ('alloc', 'alloc_zeroed', 'realloc'):
            # the parent allocator cannot be made to fail on demand; a request of 2^60 bytes under a limit that allows it does fail
            reqs.append({'mode': 'alloc_step', 'limit': 2 ** 60 + 1024, 'used': 64, 'op': inputs['op'], 'size': 2 ** 60, 'old': 64, 'align': 1})
        return reqs

    def judge(self, inputs, label, obs):
        u, L, size, old = (int(inputs[k]) for k in ('used', 'limit', 'size', 'old_size'))
        op = inputs['op']
        o = obs[0]
        if o.get('outcome') != 'ok':
            return True, 'native step crashed: %s' % o
        ok_, u2, m2 = o['success'], o['used_after'], o['peak_after']
        bad = []
        if op == 'dealloc':
            if u2 != u - size:
                bad.append('usage %d, expected %d' % (u2, u - size))
        elif op in ('alloc', 'alloc_zeroed'):
            if ok_ and u + size > L:
                bad.append('succeeded beyond the limit')
            if u2 != (u + size if ok_ else u):
                bad.append('usage %d, expected %d' % (u2, u + size if ok_ else u))
        else:
            if ok_ and u - old + size > L:
                bad.append('realloc succeeded beyond the limit')
            if u2 != (u - old + size if ok_ else u):
                bad.append('usage %d, expected %d' % (u2, u - old + size if ok_ else u))
        if m2 < u2:
            bad.append('peak %d below usage %d' % (m2, u2))
        if len(obs) > 1 and obs[1].get('outcome') == 'ok':
            p = obs[1]
            if p['success']:
                pass        # the system really had 2^60 bytes: nothing to conclude
            elif p['used_after'] != 64:
                bad.append('parent allocator failure (%s of 2^60 bytes within the limit): usage %d afterwards, expected 64' % (op, p['used_after']))
        return bool(bad), 'new(limit); %d bytes live; %s(size=%d, old=%d) -> %s: %s' % (u, op, size, old, o, '; '.join(bad) or 'as specified')


class Helpers(Harness):
    name = 'alloc.reset_get_set'
    props = ('C19',)
    program = 'alloc'
    entry_name = 'Alloc::{reset_max, get_max, set_limit}'
    describe = 'reset_max / get_max / set_limit from an arbitrary state'
    expect_classes = ['return']
    _concrete = None

    def build(self, ex, I):
        u, m, L, nl = I.int('used', 'usize'), I.int('peak', 'usize'), I.int('limit', 'usize'), I.int('new_limit', 'usize')
        ex.assume(m >= u)
        a = mk_alloc(u, m, L)
        cell = Cell(a, 'alloc')
        which = ['reset_max', 'get_max', 'set_limit'][ex.choose(3, 'helper')]
        return [Ref(cell), which, nl], {'cell': cell, 'u': u, 'm': m, 'L': L, 'nl': nl, 'which': which}

    def entry(self, ex, args, ctx):
        a, which, nl = args
        if which == 'set_limit':
            return ex.call(None, 'Alloc::set_limit', [a, nl])
        return ex.call(None, 'Alloc::' + which, [a])

    def post(self, ex, ctx, outcome):
        u2, m2, L2 = state(ctx['cell'].value)
        w = ctx['which']
        if w == 'reset_max':
            return [('reset_max sets the peak to the current usage', n_eq(m2, ctx['u'])), ('usage untouched', n_eq(u2, ctx['u'])), ('limit untouched', n_eq(L2, ctx['L']))]
        if w == 'get_max':
            return [('get_max reports the peak', n_eq(outcome[1], ctx['m'])), ('state untouched', b_and(n_eq(u2, ctx['u']), b_and(n_eq(m2, ctx['m']), n_eq(L2, ctx['L']))))]
        return [('set_limit installs the new limit', n_eq(L2, ctx['nl'])), ('usage and peak untouched', b_and(n_eq(u2, ctx['u']), n_eq(m2, ctx['m'])))]

    def case(self, ctx, vals, label):
        c = Harness.case(self, ctx, vals, label)
        c['inputs']['which'] = ctx['which']
        return c

    def prefer(self, ctx):
        return [ctx['L'] <= 4096, ctx['u'] <= 4096, ctx['m'] <= 8192, ctx['nl'] <= 8192]

    def native(self, inputs, label):
        u, m, L, nl = (int(inputs[k]) for k in ('used', 'peak', 'limit', 'new_limit'))
        if max(u, m) > 1 << 24:
            return []
        return [{'mode': 'alloc_helper', 'limit': L, 'used': u, 'peak': m, 'which': inputs['which'], 'new_limit': nl}]

    def judge(self, inputs, label, obs):
        if not obs:
            return False, 'state too large to reach natively'
        u, m, L, nl = (int(inputs[k]) for k in ('used', 'peak', 'limit', 'new_limit'))
        w = inputs['which']
        o = obs[0]
        if o.get('outcome') != 'ok':
            return True, 'native helper run crashed: %s' % o
        bad = []
        want_peak = u if w == 'reset_max' else m
        if o['peak_after'] != want_peak:
            bad.append('peak after %s is %d, expected %d' % (w, o['peak_after'], want_peak))
        if w == 'get_max' and o['ret'] != m:
            bad.append('get_max returned %d, the peak is %d' % (o['ret'], m))
        if o['used_after'] != u:
            bad.append('usage after %s is %d, expected %d' % (w, o['used_after'], u))
        if not o['fits']:
            bad.append('a request that fits the limit in force is refused')
        if not o['over_refused']:
            bad.append('a request one byte over the limit in force is granted')
        if not o.get('fits_freed', True):
            bad.append('with the live block freed, a request of exactly the limit in force is refused')
        if not o.get('over_refused_freed', True):
            bad.append('with the live block freed, a request one byte over the limit in force is granted')
        return bool(bad), '(used=%d, peak=%d, limit=%d); %s(%s) -> %s: %s' % (u, m, L, w, nl if w == 'set_limit' else '', o, '; '.join(bad) or 'as specified')


class TwoThreads(Harness):
    props = ('C19',)
    program = 'alloc'
    loop_bound = 8
    max_paths = 20000
    _concrete = None

    def __init__(self, ops):
        self.ops = ops
        self.name = 'alloc.two_threads.%s_%s' % ops
        self.entry_name = 'two threads: <Alloc as GlobalAlloc>::%s || ::%s' % ops
        self.describe = ('thread 1 runs %s, thread 2 runs %s on one allocator; every interleaving of their atomic operations and parent-allocator '
                         'calls (sequentially consistent) is enumerated, sizes / limit / initial usage symbolic') % ops
        self.bounds = ['2 threads x 1 operation', 'sequentially consistent interleavings at atomic-call granularity', 'used, sizes <= 2^62']
        self.expect_classes = ['return']

    def build(self, ex, I):
        u, L = I.int('used', 'usize'), I.int('limit', 'usize')
        s1, s2 = I.int('size1', 'usize'), I.int('size2', 'usize')
        o1, o2 = I.int('old1', 'usize'), I.int('old2', 'usize')
        ex.assume(z3.And(u <= BIG, s1 <= BIG, s2 <= BIG, s1 >= 1, s2 >= 1, o1 >= 1, o2 >= 1))
        need = 0
        for op, s, o in ((self.ops[0], s1, o1), (self.ops[1], s2, o2)):
            if op == 'dealloc':
                need = need + s
            if op == 'realloc':
                need = need + o
        ex.assume(u >= need)       # the blocks being freed / reallocated are live and distinct
        a = mk_alloc(u, u, L)
        cell = Cell(a, 'alloc')
        return [Ref(cell)], {'cell': cell, 'u': u, 'L': L, 's': (s1, s2), 'o': (o1, o2)}

    def entry(self, ex, args, ctx):
        a = args[0]
        (s1, s2), (o1, o2) = ctx['s'], ctx['o']
        sched = Scheduler(ex, [lambda: call_op(ex, a, self.ops[0], s1, o1), lambda: call_op(ex, a, self.ops[1], s2, o2)])
        res = sched.run()
        ctx['trace'] = sched.trace
        return Tup(list(res))

    def post(self, ex, ctx, outcome):
        u, L = ctx['u'], ctx['L']
        u2, m2, L2 = state(ctx['cell'].value)
        res = deref_all(outcome[1]).fields
        exp = u
        all_alloc_ok = True
        grow = 0
        for op, r, s, o in zip(self.ops, res, ctx['s'], ctx['o']):
            if op == 'dealloc':
                exp = n_sub(exp, s)
                all_alloc_ok = False
            elif op in ('alloc', 'alloc_zeroed'):
                if not is_null(r):
                    exp = n_add(exp, s)
                    grow = n_add(grow, s)
                else:
                    all_alloc_ok = False
            else:
                if not is_null(r):
                    exp = n_add(n_sub(exp, o), s)
                all_alloc_ok = False
        obs = [('at quiescence usage = initial + successful allocations - frees', n_eq(u2, exp)),
               ('peak >= usage at quiescence', n_ge(m2, u2))]
        if all_alloc_ok:
            obs.append(('both allocations succeeded only if together they fit the limit', n_le(n_add(u, grow), L)))
        return obs

    def prefer(self, ctx):
        return [ctx['L'] <= 4096, ctx['u'] <= 4096]

    def native(self, inputs, label):
        # a schedule cannot be forced natively without hooks: stress the same pair of operations on two real threads
        # second run: a limit that the two workers' blocks (24 and 40 bytes) cannot both fit under
        return [{'mode': 'alloc_stress', 'op1': self.ops[0], 'op2': self.ops[1], 'iters': 400000},
                {'mode': 'alloc_stress', 'op1': self.ops[0], 'op2': self.ops[1], 'iters': 400000, 'limit': 63}]

    def judge(self, inputs, label, obs):
        bad = []
        for o in obs:
            if o.get('outcome') != 'ok':
                return True, 'stress run crashed: %s' % o
            if o['used_at_quiescence'] != 0:
                bad.append('usage %d at quiescence with nothing live' % o['used_at_quiescence'])
            if o['bad_peak_observations'] > 0:
                bad.append('%d observations of a peak below a live block' % o['bad_peak_observations'])
            if o.get('over_limit_observations', 0) > 0:
                bad.append('%d observations of more than the limit (%d bytes) granted at once' % (o['over_limit_observations'], o['limit']))
        return bool(bad), 'two-thread stress (%s || %s, 400k iterations each): %s' % (self.ops[0], self.ops[1], '; '.join(bad) or obs)


def harnesses(tier):
    hs = [OneStep(), Helpers(), TwoThreads(('alloc', 'alloc')), TwoThreads(('alloc', 'dealloc'))]
    if tier == 'thorough':
        hs += [TwoThreads(('alloc', 'realloc')), TwoThreads(('realloc', 'dealloc')), TwoThreads(('alloc_zeroed', 'alloc')), TwoThreads(('realloc', 'realloc'))]
    return hs
