"""C02 (second part): function argument gates of eval_expr's Call arm, and roots."""
import z3
from .common import *  # noqa
from .c01 import EXP_BOUND

U = ('m', 'radian', 's')
ONE_ARG = ['Sqrt', 'Exp', 'Ln', 'Log2', 'Log10', 'Sin', 'Cos', 'Tan', 'Asin', 'Acos', 'Atan', 'Sinh', 'Cosh', 'Tanh', 'Asinh', 'Acosh', 'Atanh']
TWO_ARG = ['Log', 'Hypot', 'Atan2']
TRIG = ('Sin', 'Cos', 'Tan')
INV = ('Asin', 'Acos', 'Atan')


def is_dimless(ent):
    return z3.And(*[z3.Not(zbool(p)) for p, e in ent.values()]) if ent else True


def is_radian(ent):
    c = True
    for k, (p, e) in ent.items():
        c = b_and(c, b_and(p, n_eq(e, 1)) if k == 'radian' else b_not(p))
    return c


class FunctionGates(Harness):
    props = ('C02', 'C04')
    entry = 'eval_expr'
    stubs = (LOOKUP_STUB, SHOW_STUB)
    loop_bound = 12
    _concrete = None

    def __init__(self):
        self.name = 'eval_expr.call.gates'
        self.describe = 'eval_expr on f(a) / f(a, b) for all 20 built-in functions, arguments arbitrary Numbers (symbolic value and exponent vector over %s); float results opaque' % (U,)
        self.bounds = ['floats are opaque: only the unit of the result and accept/refuse are decided']
        self.expect_classes = ['Result::Ok', 'Result::Err']

    def build(self, ex, I):
        fs = ONE_ARG + TWO_ARG
        f = fs[ex.choose(len(fs), 'function')]
        x, y = I.real('x'), I.real('y')
        DX, entX = sym_dim(ex, I, 'dx', U, lo=-4, hi=4)
        DY, entY = sym_dim(ex, I, 'dy', U, lo=-4, hi=4)
        ex.env['units'] = {'a': number(rational(x), DX), 'b': number(rational(y), DY)}
        args = [expr_unit(ex, 'a')] + ([expr_unit(ex, 'b')] if f in TWO_ARG else [])
        return [ref(Opaque('Context')), ref(expr_call(ex, f, args))], {'f': f, 'x': x, 'entX': entX, 'entY': entY}

    def post(self, ex, ctx, outcome):
        f, entX, entY, x = ctx['f'], ctx['entX'], ctx['entY'], zreal(ctx['x'])
        r = deref_all(outcome[1])
        same = dims_equal_formula(entX, entY)
        dlx, dly = is_dimless(entX), is_dimless(entY)
        radx = is_radian(entX)
        even = True
        for k, (p, e) in entX.items():
            even = b_and(even, b_or(b_not(p), n_eq(e % 2, 0)))
        if f in TRIG:
            accept = z3.Or(zbool(dlx), zbool(radx))
        elif f in INV:
            accept = zbool(dlx)
        elif f in ('Hypot', 'Atan2'):
            accept = zbool(same)
        elif f == 'Log':
            accept = zbool(dly)
        elif f == 'Sqrt':
            accept = z3.And(zbool(even), x >= 0)
        else:
            accept = z3.BoolVal(True)
        if is_err(r):
            return [('%s refuses only what the algebra refuses' % f.lower(), z3.Not(accept))]
        v = deref_all(payload(r))
        val, d = number_parts(v.fields[0])
        obs = [('%s accepts only conformable arguments' % f.lower(), accept)]
        for k in U:
            eX = eff_exp(entX, k)
            if f in TRIG:
                want = 0
            elif f in INV or f == 'Atan2':
                want = 1 if k == 'radian' else 0
            elif f == 'Sqrt':
                want = None
                gp, ge = d.get(k, (False, 0))
                obs.append(('sqrt: unit[%s] halves' % k, n_eq(n_mul(eff_exp(d, k), 2), eX)))
                obs.append(('sqrt: unit[%s] no zero exponent carried' % k, b_or(b_not(gp), b_not(n_eq(ge, 0)))))
                continue
            else:
                want = eX
            gp, ge = d.get(k, (False, 0))
            obs.append(('%s: unit[%s]' % (f.lower(), k), n_eq(eff_exp(d, k), want)))
            obs.append(('%s: unit[%s] no zero exponent carried' % (f.lower(), k), b_or(b_not(gp), b_not(n_eq(ge, 0)))))
        return obs

    def case(self, ctx, vals, label):
        c = Harness.case(self, ctx, vals, label)
        c['inputs']['f'] = ctx['f']
        return c

    def prefer(self, ctx):
        out = []
        for ent in (ctx['entX'], ctx['entY']):
            for k, (p, e) in ent.items():
                out.append(z3.And(e >= -2, e <= 2))
        return out + [ctx['x'] > 0, ctx['x'] < 10]

    def _args(self, inputs):
        x = Fraction(inputs['x'])
        y = Fraction(inputs.get('y', 1))
        names = {'m': 'm', 'radian': 'radian', 's': 's'}
        dx = {names[k]: e for k, e in conc_dim(inputs, 'dx', U).items()}
        dy = {names[k]: e for k, e in conc_dim(inputs, 'dy', U).items()}
        return qty_text(x, dx), qty_text(y, dy), dx, dy

    def native(self, inputs, label):
        f = inputs['f'].lower()
        a, b, dx, dy = self._args(inputs)
        txt = '%s(%s, %s)' % (f, a, b) if inputs['f'] in TWO_ARG else '%s(%s)' % (f, a)
        return [{'mode': 'query', 'text': txt}]

    def judge(self, inputs, label, obs):
        f = inputs['f']
        a, b, dx, dy = self._args(inputs)
        q = obs[0]
        if q.get('outcome') == 'panic':
            return True, 'panic %s' % q.get('panic')
        j = q.get('json') or {}
        rd = (j.get('rawDimensions') if isinstance(j, dict) else None)
        ok_ = q.get('outcome') == 'ok' and rd is not None
        x = Fraction(inputs['x'])
        if f in TRIG:
            accept, want = (dx == {} or dx == {'radian': 1}), {}
        elif f in INV:
            accept, want = (dx == {}), {'radian': 1}
        elif f == 'Atan2':
            accept, want = (dx == dy), {'radian': 1}
        elif f == 'Hypot':
            accept, want = (dx == dy), dx
        elif f == 'Log':
            accept, want = (dy == {}), dx
        elif f == 'Sqrt':
            accept = all(e % 2 == 0 for e in dx.values()) and x >= 0
            want = {k: e // 2 for k, e in dx.items()}
        else:
            accept, want = True, dx
        if q.get('render_panic') and ok_ is False:
            return False, 'render panic on NaN belongs to C04'
        if accept != (q.get('outcome') == 'ok'):
            return True, '%s: accepted=%s but algebra says %s (%s)' % (f, q.get('outcome') == 'ok', accept, q.get('display'))
        if accept and rd is not None and {k: int(e) for k, e in rd.items()} != want:
            return True, '%s: result unit %s, expected %s' % (f, rd, want)
        return False, 'agrees'


class Roots(Harness):
    props = ('C02', 'C04')
    entry = 'eval_expr'
    stubs = (LOOKUP_STUB, SHOW_STUB)
    loop_bound = 12
    _concrete = None

    def __init__(self, tier):
        self.name = 'eval_expr.pow.roots'
        self.degrees = [2, 3, 4] if tier == 'quick' else [2, 3, 4, 5, 6]
        self.describe = '`a ^ (1/n)` for n in %s, a an arbitrary non-negative Number with symbolic exponent vector' % (self.degrees,)
        self.expect_classes = ['Result::Ok', 'Result::Err']

    def build(self, ex, I):
        x = I.real('x')
        n = self.degrees[ex.choose(len(self.degrees), 'degree')]
        DX, entX = sym_dim(ex, I, 'dx', ('kg', 'm', 's'), lo=-EXP_BOUND, hi=EXP_BOUND)
        ex.env['units'] = {'a': number(rational(x), DX)}
        e = expr_binop(ex, 'Pow', expr_unit(ex, 'a'), expr_const(ex, rational(Fraction(1, n))))
        return [ref(Opaque('Context')), ref(e)], {'x': x, 'n': n, 'entX': entX}

    def post(self, ex, ctx, outcome):
        x, n, entX = zreal(ctx['x']), ctx['n'], ctx['entX']
        r = deref_all(outcome[1])
        div = True
        for k, (p, e) in entX.items():
            div = b_and(div, b_or(b_not(p), n_eq(e % n, 0)))
        if is_err(r):
            return [('root refused only for negative values or non-divisible exponents', z3.Or(x < 0, z3.Not(zbool(div))))]
        v = deref_all(payload(r))
        val, d = number_parts(v.fields[0])
        obs = [('root accepted only when every exponent is divisible by %d' % n, div), ('root of a negative number refused', x >= 0)]
        for k in entX:
            gp, ge = d.get(k, (False, 0))
            obs.append(('unit[%s] * %d = original exponent' % (k, n), n_eq(n_mul(eff_exp(d, k), n), eff_exp(entX, k))))
            obs.append(('unit[%s] no zero exponent carried' % k, b_or(b_not(gp), b_not(n_eq(ge, 0)))))
        return obs

    def case(self, ctx, vals, label):
        c = Harness.case(self, ctx, vals, label)
        c['inputs']['n'] = ctx['n']
        return c

    def prefer(self, ctx):
        return [z3.And(e >= -12, e <= 12) for k, (p, e) in ctx['entX'].items()] + [ctx['x'] > 0, ctx['x'] < 100]

    def native(self, inputs, label):
        x = Fraction(inputs['x'])
        dx = conc_dim(inputs, 'dx', ('kg', 'm', 's'))
        t = qty_text(x, dx)
        if t is None:
            return []
        return [{'mode': 'query', 'text': '%s^(1/%d)' % (t, int(inputs['n']))}]

    def judge(self, inputs, label, obs):
        x = Fraction(inputs['x'])
        n = int(inputs['n'])
        dx = conc_dim(inputs, 'dx', ('kg', 'm', 's'))
        q = obs[0]
        if q.get('outcome') == 'panic':
            return True, 'panic %s' % q.get('panic')
        accept = x >= 0 and all(e % n == 0 for e in dx.values())
        j = q.get('json') or {}
        rd = j.get('rawDimensions') if isinstance(j, dict) else None
        if accept != (q.get('outcome') == 'ok'):
            return True, 'root %d of %s: accepted=%s, algebra says %s' % (n, dx, q.get('outcome') == 'ok', accept)
        if accept and rd is not None and {k: int(e) for k, e in rd.items()} != {k: e // n for k, e in dx.items() if e // n != 0}:
            return True, 'root %d of %s gave unit %s' % (n, dx, rd)
        return False, 'agrees'


def harnesses(tier):
    return [FunctionGates(), Roots(tier)]
