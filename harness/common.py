"""Shared builders/extractors for rink values in the mirsym value model."""
from fractions import Fraction
import z3
from mirsym.values import *  # noqa
from mirsym.lib import MapV, some, none, ok, err
from mirsym.driver import Harness


def bigrat(v):
    return Struct('BigRat', [v])


def bigint(i):
    return Struct('BigInt', [i])


def rational(v):
    return Enum('Numeric', 0, 'Rational', [bigrat(v)])


def floatnum(f):
    return Enum('Numeric', 1, 'Float', [f])


def base_unit(name):
    return Struct('BaseUnit', [new_box(name)])


def dim(entries):
    """entries: {name: (presence, exponent)}"""
    m = MapV()
    for k, (p, e) in entries.items():
        m.ent[k_of(k)] = [base_unit(k), p, e]
    return Struct('Dimensionality', [m])


def k_of(name):
    return (name,)   # freeze(BaseUnit{id: Arc<String>}) == (string,)


def number(value, unit):
    return Struct('Number', [value, unit])


def ref(v, tag='arg'):
    return Ref(Cell(v, tag))


def numeric_parts(v):
    """Numeric value -> ('rational', real) | ('float', F64)"""
    v = deref_all(v)
    assert isinstance(v, Enum) and v.ty == 'Numeric', v
    if v.variant == 0:
        return 'rational', deref_all(v.fields[0]).fields[0]
    return 'float', v.fields[0]


def number_parts(v):
    v = deref_all(v)
    assert isinstance(v, Struct) and v.name == 'Number', v
    return v.fields[0], dim_entries(v.fields[1])


def dim_entries(d):
    d = deref_all(d)
    assert isinstance(d, Struct) and d.name == 'Dimensionality', d
    m = d.fields[0]
    return {k[0]: (p, e) for k, (kv, p, e) in m.ent.items()}


def sym_dim(ex, I, tag, universe, exp_ty='i64', nonzero=True, lo=None, hi=None):
    """a Dimensionality over `universe` with symbolic presence + exponent (rep. invariant: no zero)"""
    ent = {}
    for u in universe:
        p = I.bool('%s_has_%s' % (tag, u))
        e = I.int('%s_exp_%s' % (tag, u), exp_ty)
        if nonzero:
            ex.assume(z3.Implies(p, e != 0))
        if lo is not None:
            ex.assume(z3.And(e >= lo, e <= hi))
        ent[u] = (p, e)
    return dim(ent), ent


def trunc_real(x):
    return r_trunc(x)


def is_ok(v):
    v = deref_all(v)
    return isinstance(v, Enum) and v.ty == 'Result' and v.variant == 0


def is_err(v):
    v = deref_all(v)
    return isinstance(v, Enum) and v.ty == 'Result' and v.variant == 1


def is_some(v):
    v = deref_all(v)
    return isinstance(v, Enum) and v.ty == 'Option' and v.variant == 1


def is_none(v):
    v = deref_all(v)
    return isinstance(v, Enum) and v.ty == 'Option' and v.variant == 0


def payload(v):
    return deref_all(v).fields[0]


def dims_equal_formula(a, b):
    """two {name:(p,e)} dicts denote the same dimensionality"""
    c = True
    for k in sorted(set(a) | set(b)):
        pa, ea = a.get(k, (False, 0))
        pb, eb = b.get(k, (False, 0))
        c = b_and(c, n_eq(pa, pb))
        c = b_and(c, b_or(b_not(b_and(pa, pb)), n_eq(ea, eb)))
    return c


def eff_exp(ent, k):
    """effective exponent (0 when absent)"""
    p, e = ent.get(k, (False, 0))
    if isinstance(p, bool):
        return e if p else 0
    return z3.If(p, zint(e), z3.IntVal(0))
