"""Shared builders/extractors for rink values in the mirsym value model."""
import sys as _sys
if hasattr(_sys, 'set_int_max_str_digits'):
    _sys.set_int_max_str_digits(0)      # exact fractions with thousands of digits are ordinary here

from fractions import Fraction
import z3
from mirsym.values import *  # noqa
from mirsym.lib import MapV, some, none, ok, err
from mirsym.driver import Harness


def bigrat(v):
    return Struct('BigRat', [v])


def bigint(i):
    return Struct('BigInt', [i])


def rational(v):
    return Enum('Numeric', 0, 'Rational', [bigrat(v)])


def floatnum(f):
    return Enum('Numeric', 1, 'Float', [f])


def base_unit(name):
    return Struct('BaseUnit', [new_box(name)])


def dim(entries):
    """entries: {name: (presence, exponent)}"""
    m = MapV()
    for k, (p, e) in entries.items():
        m.ent[k_of(k)] = [base_unit(k), p, e]
    return Struct('Dimensionality', [m])


def k_of(name):
    return name   # freeze(BaseUnit{id: Arc<String>}) collapses to the string (Borrow<str>)


def number(value, unit):
    return Struct('Number', [value, unit])


def ref(v, tag='arg'):
    return Ref(Cell(v, tag))


def numeric_parts(v):
    """Numeric value -> ('rational', real) | ('float', F64)"""
    v = deref_all(v)
    assert isinstance(v, Enum) and v.ty == 'Numeric', v
    if v.variant == 0:
        return 'rational', deref_all(v.fields[0]).fields[0]
    return 'float', v.fields[0]


def number_parts(v):
    v = deref_all(v)
    assert isinstance(v, Struct) and v.name == 'Number', v
    return v.fields[0], dim_entries(v.fields[1])


def dim_entries(d):
    d = deref_all(d)
    assert isinstance(d, Struct) and d.name == 'Dimensionality', d
    m = d.fields[0]
    return {(k if isinstance(k, str) else k[0]): (p, e) for k, (kv, p, e) in m.ent.items()}


def sym_dim(ex, I, tag, universe, exp_ty='i64', nonzero=True, lo=None, hi=None):
    """a Dimensionality over `universe` with symbolic presence + exponent (rep. invariant: no zero)"""
    ent = {}
    for u in universe:
        p = I.bool('%s_has_%s' % (tag, u))
        e = I.int('%s_exp_%s' % (tag, u), exp_ty)
        if nonzero:
            ex.assume(z3.Implies(p, e != 0))
        if lo is not None:
            ex.assume(z3.And(e >= lo, e <= hi))
        ent[u] = (p, e)
    return dim(ent), ent


def trunc_real(x):
    return r_trunc(x)


def is_ok(v):
    v = deref_all(v)
    return isinstance(v, Enum) and v.ty == 'Result' and v.variant == 0


def is_err(v):
    v = deref_all(v)
    return isinstance(v, Enum) and v.ty == 'Result' and v.variant == 1


def is_some(v):
    v = deref_all(v)
    return isinstance(v, Enum) and v.ty == 'Option' and v.variant == 1


def is_none(v):
    v = deref_all(v)
    return isinstance(v, Enum) and v.ty == 'Option' and v.variant == 0


def payload(v):
    return deref_all(v).fields[0]


def dims_equal_formula(a, b):
    """two {name:(p,e)} dicts denote the same dimensionality"""
    c = True
    for k in sorted(set(a) | set(b)):
        pa, ea = a.get(k, (False, 0))
        pb, eb = b.get(k, (False, 0))
        c = b_and(c, n_eq(pa, pb))
        c = b_and(c, b_or(b_not(b_and(pa, pb)), n_eq(ea, eb)))
    return c


def eff_exp(ent, k):
    """effective exponent (0 when absent)"""
    p, e = ent.get(k, (False, 0))
    if isinstance(p, bool):
        return e if p else 0
    return z3.If(p, zint(e), z3.IntVal(0))


# ----------------------------------------------------------------------------- AST builders

def variant(ex, enum, vname, fields=()):
    return ex.make_variant(enum, vname, list(fields))


def expr_unit(ex, name):
    return variant(ex, 'Expr', 'Unit', [name])


def expr_quote(ex, name):
    return variant(ex, 'Expr', 'Quote', [name])


def expr_const(ex, numeric):
    return variant(ex, 'Expr', 'Const', [numeric])


def expr_binop(ex, op, left, right):
    b = Struct('BinOpExpr', [variant(ex, 'BinOpType', op), new_box(left), new_box(right)])
    assert ex.prog.src.structs['BinOpExpr'] == ['op', 'left', 'right'], ex.prog.src.structs['BinOpExpr']
    return variant(ex, 'Expr', 'BinOp', [b])


def expr_unary(ex, op_value, inner):
    assert ex.prog.src.structs['UnaryOpExpr'] == ['op', 'expr']
    return variant(ex, 'Expr', 'UnaryOp', [Struct('UnaryOpExpr', [op_value, new_box(inner)])])


def expr_mul(ex, items):
    return variant(ex, 'Expr', 'Mul', [Arr(list(items))])


def expr_call(ex, func, args):
    return variant(ex, 'Expr', 'Call', [variant(ex, 'Function', func), Arr(list(args))])


def value_number(ex, n):
    return variant(ex, 'Value', 'Number', [n])


# ----------------------------------------------------------------------------- stubs

def stub_lookup(ex, nc, args):
    """Context::lookup(&self, name) -> Option<Number>: the harness supplies the unit table in ex.env['units']"""
    name = deref_all(args[1])
    units = ex.env.get('units', {})
    if name in units:
        return some(ex, dup(units[name]))
    return none(ex)


def stub_show(ex, nc, args):
    return Opaque('string', 'show')


def stub_opaque_string(ex, nc, args):
    return Opaque('string', nc)


LOOKUP_STUB = (r'^Context::lookup$', stub_lookup, 'Context::lookup -> harness unit table (arbitrary Number per name)')
SHOW_STUB = (r'^<.* as Show>::show$', stub_show, 'Show::show -> opaque string (only used in messages)')


# ----------------------------------------------------------------------------- text lifting

def frac_text(v):
    v = Fraction(v)
    if v.denominator == 1:
        return '(%d)' % v.numerator if v.numerator < 0 else '%d' % v.numerator
    return '(%d/%d)' % (v.numerator, v.denominator)


def unit_text(exps):
    """{name: exponent} -> rink text, or None when not expressible"""
    parts = []
    for k in sorted(exps):
        e = exps[k]
        if e == 0:
            continue
        if abs(e) >= 2 ** 31:
            return None
        parts.append('(%s^(%d))' % (k, e) if e != 1 else k)
    return ' '.join(parts)


def qty_text(v, exps):
    u = unit_text(exps)
    if u is None:
        return None
    return ('(%s %s)' % (frac_text(v), u)) if u else frac_text(v)


def conc_dim(inputs, tag, universe):
    """effective exponent dict of a sym_dim from concrete inputs"""
    out = {}
    for u in universe:
        if inputs.get('%s_has_%s' % (tag, u)):
            out[u] = int(inputs['%s_exp_%s' % (tag, u)])
    return out


def obs_number_json(o):
    """observation of a query -> (Fraction value | 'float', {unit: exp}) or None"""
    j = o.get('json')
    if not isinstance(j, dict):
        return None
    raw = j.get('rawValue') or (j.get('value') or {}).get('rawValue') or (j.get('raw') or {}).get('rawValue')
    if not raw:
        return None
    v = raw['value']
    try:
        val = Fraction(int(v['numer']), int(v['denom']))
    except Exception:
        return None
    return val, {k: int(e) for k, e in raw['unit'].items()}


def kernel_number(o):
    """observation of number_op -> (Fraction|'float:..', dims) or None"""
    n = o.get('number')
    if not n:
        return None
    v = n['value']
    if isinstance(v, str) and v.startswith('float'):
        return v, {k: int(e) for k, e in n['unit'].items()}
    return Fraction(v), {k: int(e) for k, e in n['unit'].items()}


def number_json(v, exps):
    v = Fraction(v)
    return {'value': '%d/%d' % (v.numerator, v.denominator), 'unit': {k: int(e) for k, e in exps.items() if e != 0}}


def model_number_obs(outcome_value):
    """value-model Number (concrete) -> (Fraction|'float', dims)"""
    val, d = number_parts(outcome_value)
    kind, x = numeric_parts(val)
    dims = {}
    for k, (p, e) in d.items():
        if p is True or (not isinstance(p, bool) and simp(p) is True):
            dims[k] = int(simp(e)) if not isinstance(e, int) else e
    if kind == 'float':
        return 'float', dims
    x = simp(x)
    return Fraction(x), dims


def default_field(ex, ty):
    """a neutral value for a struct field the harness does not care about, chosen from its declared type"""
    t = ty.replace('std::collections::', '').replace('std::cell::', '').strip()
    if t.startswith(('BTreeMap', 'BTreeSet', 'HashMap', 'HashSet')):
        return MapV()
    if t.startswith('Vec<'):
        return Arr([])
    if t.startswith(('Cell<', 'RefCell<')):
        inner = t[t.index('<') + 1:-1]
        return Struct('Cell', [default_field(ex, inner)])
    if t.startswith('Option<'):
        return none(ex)
    if t in ('usize', 'u8', 'u16', 'u32', 'u64', 'i8', 'i16', 'i32', 'i64', 'isize'):
        return 0
    if t == 'bool':
        return False
    if t == 'String':
        return ''
    return Opaque('field:' + t)


def make_struct(ex, name, given):
    """Struct `name` with the fields in `given`; every other field gets a neutral default from its declared type"""
    fields = ex.prog.src.structs[name]
    types = ex.prog.src.struct_types.get(name, [None] * len(fields))
    vals = []
    for f, t in zip(fields, types):
        vals.append(given[f] if f in given else default_field(ex, t or ''))
    return Struct(name, vals)


# ---------------------------------------------------------------------------------------------------------------
# reading a printed numeral back (exact fractions): used by judges that replay BigRat::to_string natively

_DIG = '0123456789abcdefghijklmnopqrstuvwxyz'


def read_numeral(text, base, sci):
    """-> dict(value Fraction (magnitude incl. exponent), neg, frac_len, block (digits or None), period_text, exp) or None"""
    import re as _r
    t = text
    exp = 0
    if sci:
        t, sep, e = t.rpartition('e')
        if not sep or not _r.match(r'^-?\d+$', e):
            return None
        exp = int(e)
    m = _r.match(r'^(-?)([0-9a-z]+)(?:\.([0-9a-z]*))?(?:\[([0-9a-z]+)(?:, period (\d+))?\]\.\.\.)?$', t)
    if not m:
        return None
    neg, ip, fp, blk, ptxt = m.group(1) == '-', m.group(2), m.group(3) or '', m.group(4), m.group(5)
    for c in ip + fp + (blk or ''):
        if _DIG.index(c) >= base:
            return None
    val_ = Fraction(0)
    for c in ip:
        val_ = val_ * base + _DIG.index(c)
    scale = Fraction(1)
    for c in fp:
        scale /= base
        val_ += _DIG.index(c) * scale
    if blk:
        b = 0
        for c in blk:
            b = b * base + _DIG.index(c)
        val_ += Fraction(b, base ** len(blk) - 1) * scale
    return {'value': val_ * Fraction(base) ** exp, 'neg': neg, 'frac_len': len(fp), 'block': blk,
            'period_text': int(ptxt) if ptxt else None, 'ulp': scale * Fraction(base) ** exp, 'exp': exp}


def numeral_problem(text, exact, v, base, sci=False):
    """what is wrong with `text` as a numeral for the exact value v (None = nothing): an exact or recurring numeral denotes v;
    an approximate one is v truncated toward zero at its last digit"""
    v = Fraction(v)
    cands = [read_numeral(text, base, sci)] if sci is not None else [read_numeral(text, base, False), read_numeral(text, base, True)]
    cands = [c for c in cands if c is not None]
    if not cands:
        return 'not a base-%d numeral: %r' % (base, text)
    probs = []
    for p in cands:
        pr = None
        if p['neg'] and v >= 0 or (not p['neg'] and v < 0 and p['value'] != 0):
            pr = 'sign of %r does not match the value %s' % (text, v)
        elif p['block'] is not None:
            if p['value'] != abs(v):
                pr = 'recurring numeral %r denotes %s, the value is %s' % (text, p['value'], abs(v))
            elif p['period_text'] is not None and p['period_text'] != len(p['block']):
                pr = 'numeral %r states period %d for a block of %d digits' % (text, p['period_text'], len(p['block']))
            elif not exact:
                pr = 'recurring numeral %r is exact but flagged approximate' % text
        elif exact:
            if p['value'] != abs(v):
                pr = 'numeral %r is flagged exact and denotes %s, the value is %s' % (text, p['value'], abs(v))
        else:
            if not (p['value'] <= abs(v) < p['value'] + p['ulp']):
                pr = 'approximate numeral %r denotes %s, the value %s is not within one unit of its last digit' % (text, p['value'], abs(v))
            elif p['value'] == abs(v):
                pr = 'numeral %r denotes the value %s exactly but is flagged approximate' % (text, abs(v))
        if pr is None:
            return None
        probs.append(pr)
    return probs[0]
