"""C16 substances: Substance::get, Mul/Div by a Number, chemical formulas."""
import z3
from .common import *  # noqa
from mirsym.lib import MapV

U = ('kg', 'm')


def prop_struct(ex, inp, in_name, out, out_name):
    f = ex.prog.src.structs['Property']
    vals = {'input': inp, 'input_name': in_name, 'output': out, 'output_name': out_name, 'doc': none(ex)}
    return Struct('Property', [vals[k] for k in f])


def substance(ex, amount, name, props):
    m = MapV()
    for k, p in props.items():
        m.ent[k] = [k, True, p]
    pf = ex.prog.src.structs['Properties']
    pv = {'name': name, 'properties': m}
    return Struct('Substance', [amount, new_box(Struct('Properties', [pv[k] for k in pf]))])


class SubstanceGet(Harness):
    props = ('C16', 'C04')
    stubs = (SHOW_STUB,)
    loop_bound = 12
    _concrete = None
    QUERIES = ['p1', 'out1', 'in1', 'p2', 'out2', 'in2', 'nope']

    def __init__(self, scaled, op='mul'):
        self.scaled = scaled
        self.op = op
        self.name = 'substance.get' + (({'mul': '.scaled', 'div': '.divided', 'mulunit': '.times_quantity'}[op]) if scaled else '')
        self.entry_name = 'Substance::get' + (' ; <&Substance as Mul<&Number>>::mul ; Substance::get' if scaled else '')
        self.describe = ('property lookup on an arbitrary amount of a substance with two properties (arbitrary non-zero input/output '
                         'Numbers, symbolic units)' + ('; then the same lookup on the substance multiplied by an arbitrary dimensionless k' if scaled else ''))
        self.assumptions = ['property inputs are non-zero; outputs may be zero (the loader refuses a zero output, a formula with a zero count produces one)',
                            'property, input and output names are pairwise distinct within the substance (the statement\'s unambiguity premise)']
        self.bounds = ['2 properties per substance; units over %s' % (U,)]
        self.expect_classes = ['Result::Ok', 'Result::Err']

    def build(self, ex, I):
        a = I.real('a')
        DA, entA = sym_dim(ex, I, 'da', U, lo=-3, hi=3)
        props = {}
        meta = {}
        for i in (1, 2):
            iv, ov = I.real('in%d' % i), I.real('out%d' % i)
            ex.assume(iv != 0)
            # outputs may be zero: the loader refuses that, but a formula such as `H0` yields a substance whose molar mass is 0
            DI, entI = sym_dim(ex, I, 'di%d' % i, U, lo=-3, hi=3)
            DO, entO = sym_dim(ex, I, 'do%d' % i, U, lo=-3, hi=3)
            props['p%d' % i] = prop_struct(ex, number(rational(iv), DI), 'in%d' % i, number(rational(ov), DO), 'out%d' % i)
            meta[i] = (iv, ov, entI, entO)
        q = self.QUERIES[ex.choose(len(self.QUERIES), 'queried name')]
        s = substance(ex, number(rational(a), DA), 'stuff', props)
        k = I.real('k') if self.scaled else None
        DK, entK = (None, None)
        if self.op == 'mulunit':
            # the multiplier is a quantity of its own (any unit), the amount may already be a number or a quantity
            DK, entK = sym_dim(ex, I, 'dk', U, lo=-3, hi=3)
        return [s, q], {'a': a, 'entA': entA, 'meta': meta, 'q': q, 'k': k, 'DK': DK, 'entK': entK}

    def entry(self, ex, args, ctx):
        s, q = args
        r1 = ex.call(None, 'runtime::substance::Substance::get', [ref(s), q])
        if not self.scaled:
            return r1
        if self.op == 'div':
            # dividing by 1/k is scaling by k
            ex.assume(ctx['k'] != 0)
            kn = number(rational(1 / zreal(ctx['k'])), dim({}))
            s2 = ex.call(None, '<&runtime::substance::Substance as std::ops::Div<&types::number::Number>>::div', [ref(s), ref(kn)])
        else:
            kn = number(rational(ctx['k']), ctx['DK'] if self.op == 'mulunit' else dim({}))
            s2 = ex.call(None, '<&runtime::substance::Substance as std::ops::Mul<&types::number::Number>>::mul', [ref(s), ref(kn)])
        s2v = deref_all(s2)
        if s2v.variant != 0:
            return Tup([r1, s2, none(ex)])
        r2 = ex.call(None, 'runtime::substance::Substance::get', [ref(s2v.fields[0]), q])
        return Tup([r1, s2, some(ex, r2)])

    def classify(self, outcome):
        if outcome[0] == 'panic':
            return 'panic'
        v = deref_all(outcome[1])
        if self.scaled:
            v = deref_all(v.fields[0])
        return 'Result::Ok' if v.variant == 0 else 'Result::Err'

    def expected(self, ctx):
        """-> (kind, value formula, unit ents) for the first lookup"""
        a, entA, q = zreal(ctx['a']), ctx['entA'], ctx['q']
        dimlessA = z3.And(*[z3.Not(zbool(p)) for p, e in entA.values()])
        return a, dimlessA

    def check_one(self, ctx, r, a, entA, tag):
        """obligations for one get() result against the statement"""
        q = ctx['q']
        obs = []
        dimlessA = z3.And(*[z3.Not(zbool(p)) for p, e in entA.values()])
        r = deref_all(r)
        i = {'p1': 1, 'out1': 1, 'in1': 1, 'p2': 2, 'out2': 2, 'in2': 2}.get(q)
        if i is None:
            obs.append((tag + 'unknown property is an error', is_err(r)))
            return obs
        iv, ov, entI, entO = ctx['meta'][i]
        iv, ov = zreal(iv), zreal(ov)
        sameI = dims_equal_formula(entA, entI)
        sameO = dims_equal_formula(entA, entO)
        if is_ok(r):
            val, d = number_parts(payload(r))
            kind, x = numeric_parts(val)
            if kind != 'rational':
                return [(tag + 'result is rational', False)]
            x = zreal(x)
            if q.startswith('p'):
                obs.append((tag + 'direct property only for dimensionless amounts', dimlessA))
                obs.append((tag + 'value = amount * output / input', x * iv == a * ov))
                for u in U:
                    obs.append((tag + 'unit[%s] = amount + output - input' % u,
                                n_eq(eff_exp(d, u), n_sub(n_add(eff_exp(entA, u), eff_exp(entO, u)), eff_exp(entI, u)))))
            elif q.startswith('out'):
                obs.append((tag + 'output for an amount: amount must have the input dimensionality', z3.And(z3.Not(dimlessA), zbool(sameI))))
                obs.append((tag + 'value = output * (amount / input)', x * iv == ov * a))
                for u in U:
                    obs.append((tag + 'unit[%s] = output' % u, n_eq(eff_exp(d, u), eff_exp(entO, u))))
            else:
                obs.append((tag + 'input for an amount: amount must have the output dimensionality', z3.And(z3.Not(dimlessA), zbool(sameO))))
                obs.append((tag + 'input for an amount of a zero output is refused, not answered', ov != 0))
                obs.append((tag + 'value = input * (amount / output)', x * ov == iv * a))
                for u in U:
                    obs.append((tag + 'unit[%s] = input' % u, n_eq(eff_exp(d, u), eff_exp(entI, u))))
            for u in U:
                gp, ge = d.get(u, (False, 0))
                obs.append((tag + 'unit[%s]: no zero exponent carried' % u, b_or(b_not(gp), b_not(n_eq(ge, 0)))))
        else:
            e = deref_all(payload(r))
            conf = isinstance(e, Enum) and e.vname == 'Conformance'
            if q.startswith('p'):
                obs.append((tag + 'direct property refused only for dimensioned amounts', z3.Not(dimlessA)))
            elif q.startswith('out'):
                obs.append((tag + 'wrong-dimension amount is refused with a conformance error',
                            z3.Or(dimlessA, z3.And(zbool(conf), z3.Not(zbool(sameI)))) if conf else z3.Or(dimlessA, False)))
            else:
                obs.append((tag + 'wrong-dimension amount is refused with a conformance error',
                            z3.Or(dimlessA, z3.And(zbool(conf), z3.Not(zbool(sameO)))) if conf else z3.Or(dimlessA, ov == 0)))
        return obs

    def post(self, ex, ctx, outcome):
        a, entA = zreal(ctx['a']), ctx['entA']
        if not self.scaled:
            return self.check_one(ctx, outcome[1], a, entA, '')
        t = deref_all(outcome[1])
        r1, s2, r2o = deref_all(t.fields[0]), deref_all(t.fields[1]), deref_all(t.fields[2])
        k = zreal(ctx['k'])
        obs = [('substance * number never fails', s2.variant == 0)]
        if s2.variant != 0:
            return obs
        amt, amt_d = number_parts(deref_all(s2.fields[0]).fields[0])
        obs.append(('(s * k).amount = s.amount * k', zreal(numeric_parts(amt)[1]) == a * k))
        r2 = deref_all(r2o.fields[0])
        if self.op == 'mulunit':
            entAK = {}
            for u in U:
                e = zint(eff_exp(entA, u)) + zint(eff_exp(ctx['entK'], u))
                entAK[u] = (e != 0, e)
                obs.append(('(s * k).amount unit[%s] = amount + multiplier' % u, zint(eff_exp(amt_d, u)) == e))
            obs += self.check_one(ctx, r2, a * k, entAK, 'times a quantity: ')
            return obs
        obs += self.check_one(ctx, r2, a * k, entA, 'scaled: ')
        if is_ok(r1) and is_ok(r2):
            v1 = zreal(numeric_parts(number_parts(payload(r1))[0])[1])
            v2 = zreal(numeric_parts(number_parts(payload(r2))[0])[1])
            obs.append(('scaling the substance scales the reported property by the same factor', v2 == k * v1))
        return obs

    def case(self, ctx, vals, label):
        c = Harness.case(self, ctx, vals, label)
        c['inputs']['q'] = ctx['q']
        return c

    def prefer(self, ctx):
        out = [ctx['a'] != 0, z3.And(ctx['a'] > -100, ctx['a'] < 100), z3.IsInt(ctx['a'])]
        for i in (1, 2):
            iv, ov, entI, entO = ctx['meta'][i]
            out += [z3.And(iv > 0, iv < 20), z3.IsInt(iv), z3.And(ov > 0, ov < 20), z3.IsInt(ov)]
        return out

    @staticmethod
    def _dims(inputs, tag):
        return {u: int(inputs['%s_exp_%s' % (tag, u)]) for u in U if inputs.get('%s_has_%s' % (tag, u))}

    def native(self, inputs, label):
        # the substance the solver's model describes, built natively (Substance / Property have public fields)
        def num(v, tag):
            f = Fraction(inputs[v])
            return {'value': '%d/%d' % (f.numerator, f.denominator), 'unit': self._dims(inputs, tag)}
        props = {'p%d' % i: {'input': num('in%d' % i, 'di%d' % i), 'input_name': 'in%d' % i,
                             'output': num('out%d' % i, 'do%d' % i), 'output_name': 'out%d' % i} for i in (1, 2)}
        req = {'mode': 'substance_get', 'amount': num('a', 'da'), 'props': props, 'q': inputs['q']}
        if self.scaled:
            k = Fraction(inputs.get('k', 1))
            if self.op == 'div':
                kd = 1 / k
                req['kdiv'] = '%d/%d' % (kd.numerator, kd.denominator)
            elif self.op == 'mulunit':
                req['knum'] = {'value': '%d/%d' % (k.numerator, k.denominator), 'unit': self._dims(inputs, 'dk')}
            else:
                req['k'] = '%d/%d' % (k.numerator, k.denominator)
        return [req]

    def judge(self, inputs, label, obs):
        o = obs[0]
        if o.get('outcome') != 'ok':
            return True, 'Substance::get: %s %s' % (o.get('outcome'), o.get('panic', ''))
        if 'mul_error' in o:
            return True, 'substance * number failed: %s' % o['mul_error']
        q = inputs['q']
        amt = Fraction(inputs['a']) * (Fraction(inputs.get('k', 1)) if self.scaled else 1)
        dA = self._dims(inputs, 'da')
        if self.op == 'mulunit':
            dK = self._dims(inputs, 'dk')
            dA = {u: dA.get(u, 0) + dK.get(u, 0) for u in U}
            dA = {u: e for u, e in dA.items() if e}
        got_amt = Fraction(o['amount']['value'])
        if got_amt != amt or {k: int(v) for k, v in o['amount']['unit'].items()} != dA:
            return True, 'amount of the (scaled) substance is %s, expected %s %s' % (o['amount'], amt, dA)
        i = {'p1': 1, 'out1': 1, 'in1': 1, 'p2': 2, 'out2': 2, 'in2': 2}.get(q)
        if i is None:
            return (o['ok'], 'unknown property `%s` -> %s' % (q, o))
        iv, ov = Fraction(inputs['in%d' % i]), Fraction(inputs['out%d' % i])
        dI, dO = self._dims(inputs, 'di%d' % i), self._dims(inputs, 'do%d' % i)
        if q.startswith('p'):
            want = None
            if not dA:
                u = {k: dA.get(k, 0) + dO.get(k, 0) - dI.get(k, 0) for k in U}
                want = (amt * ov / iv, {k: e for k, e in u.items() if e})
            kind = None
        elif q.startswith('out'):
            want = (ov * amt / iv, dO) if dA and dA == dI else None
            kind = 'conformance' if dA and dA != dI else None
        else:
            want = (iv * amt / ov, dI) if dA and dA == dO and ov != 0 else None
            kind = 'conformance' if dA and dA != dO and ov != 0 else None
        if want is None:
            if o['ok']:
                return True, '`%s` of %s %s stuff is answered (%s) but must be refused' % (q, amt, dA, o['number'])
            if kind and o.get('kind') != kind:
                return True, '`%s` refused with a %s error, expected a conformance error' % (q, o.get('kind'))
            return False, 'refused as specified'
        if not o['ok']:
            return True, '`%s` of %s %s stuff is refused (%s), expected %s %s' % (q, amt, dA, o.get('error') or o.get('kind'), want[0], want[1])
        got = (Fraction(o['number']['value']), {k: int(v) for k, v in o['number']['unit'].items()})
        return (got != want), '`%s` of %s %s stuff = %s %s, expected %s %s' % (q, amt, dA, got[0], got[1], want[0], want[1])


class Formula(Harness):
    name = 'formula.count_token'
    props = ('C16', 'C04')
    entry = 'substance_from_formula'
    describe = 'substance_from_formula on "H" followed by 1..11 symbolic characters (digits or not), hydrogen with an arbitrary molar mass'
    loop_bound = 16
    bounds = ['one element symbol followed by at most 11 further characters']
    expect_classes = ['Option::Some', 'Option::None']
    _concrete = None

    def __init__(self, maxlen):
        self.maxlen = maxlen

    def build(self, ex, I):
        n = 1 + ex.choose(self.maxlen, 'number of characters after the symbol')
        cs = [I.int('c%d' % i) for i in range(n)]
        for c in cs:
            ex.assume(z3.And(c >= 32, c <= 126))
            # keep the symbol a single letter: no lower-case continuation, no second symbol
            ex.assume(z3.Not(z3.And(c >= 97, c <= 122)))
            ex.assume(z3.Not(z3.And(c >= 65, c <= 90)))
        m = I.real('molar_mass')
        ex.assume(m > 0)
        kgmol = dim({'kg': (True, 1), 'mol': (True, -1)})
        h = substance(ex, number(rational(Fraction(1)), dim({})), 'hydrogen',
                      {'molar_mass': prop_struct(ex, number(rational(Fraction(1)), dim({})), 'amount', number(rational(m), kgmol), 'mass')})
        symbols = MapV()
        symbols.ent['H'] = ['H', True, 'hydrogen']
        subs = MapV()
        subs.ent['hydrogen'] = ['hydrogen', True, h]
        return [SymStr([ord('H')] + cs), ref(symbols), ref(subs)], {'cs': cs, 'm': m}

    def post(self, ex, ctx, outcome):
        cs, m = ctx['cs'], zreal(ctx['m'])
        r = deref_all(outcome[1])
        alldig = z3.And(*[z3.And(c >= 48, c <= 57) for c in cs])
        count = z3.IntVal(0)
        for c in cs:
            count = count * 10 + (c - 48)
        if is_some(r):
            s = deref_all(payload(r))
            props = deref_all(deref_all(s.fields[1]).fields[1])
            mm = props.ent['molar_mass'][2]
            out = mm.fields[ex.prog.src.structs['Property'].index('output')]
            val, d = number_parts(out)
            return [('only H<digits> is a formula here', alldig),
                    ('molar mass = count * element mass', zreal(numeric_parts(val)[1]) == z3.ToReal(count) * m),
                    ('count fits the documented range', count <= 2 ** 32 - 1)]
        return [('a well-formed formula with a count up to 2^32-1 is accepted', z3.Not(z3.And(alldig, count <= 2 ** 32 - 1)))]

    def _text(self, inputs):
        n = len([k for k in inputs if k.startswith('c') and k[1:].isdigit()])
        return 'H' + ''.join(chr(int(inputs['c%d' % i])) for i in range(n))

    def native(self, inputs, label):
        m = Fraction(inputs['molar_mass'])
        return [{'mode': 'formula', 'text': self._text(inputs), 'elements': {'H': {'name': 'hydrogen', 'mass': '%d/%d' % (m.numerator, m.denominator)}}},
                {'mode': 'query', 'text': self._text(inputs)}]

    def judge(self, inputs, label, obs):
        f, q = obs
        t = self._text(inputs)
        if q.get('outcome') == 'panic' or q.get('render_panic'):
            return True, '`%s` panics: %s' % (t, q.get('panic') or q.get('render_panic'))
        if f.get('outcome') != 'ok':
            return True, 'substance_from_formula(%r): %s %s' % (t, f.get('outcome'), f.get('panic', ''))
        m = Fraction(inputs['molar_mass'])
        tail = t[1:]
        wf = tail.isdigit() and tail.isascii() and int(tail) <= 2 ** 32 - 1
        if not wf:
            return f['some'], 'substance_from_formula(%r) is %s' % (t, 'accepted: %s' % f.get('molar_mass') if f['some'] else 'refused')
        if not f['some']:
            return True, 'substance_from_formula(%r) is refused' % t
        got = Fraction(f['molar_mass']['value'])
        return (got != int(tail) * m), 'substance_from_formula(%r) has molar mass %s, expected %s' % (t, got, int(tail) * m)


class FormulaSum(Harness):
    """several element symbols with symbolic counts (digits only): exact count-weighted sum"""
    props = ('C16', 'C04')
    entry = 'substance_from_formula'
    loop_bound = 40
    _concrete = None

    def __init__(self, symbols, ndigits):
        self.symbols = symbols
        self.ndigits = ndigits
        self.name = 'formula.sum.' + ''.join(symbols)
        self.describe = 'substance_from_formula on %s, each followed by %d symbolic digits; H and O with arbitrary molar masses' % ('+'.join(symbols), ndigits)
        self.bounds = ['%d element terms, counts of exactly %d digits (leading zeros allowed)' % (len(symbols), ndigits)]
        self.expect_classes = ['Option::Some']

    def build(self, ex, I):
        chars = []
        counts = []
        for i, sym in enumerate(self.symbols):
            chars.append(ord(sym))
            ds = [I.int('d%d_%d' % (i, j)) for j in range(self.ndigits)]
            for c in ds:
                ex.assume(z3.And(c >= 48, c <= 57))
            cnt = z3.IntVal(0)
            for c in ds:
                cnt = cnt * 10 + (c - 48)
            ex.assume(cnt <= 2 ** 32 - 1)
            counts.append((sym, cnt))
            chars += ds
        masses = {'H': I.real('mass_H'), 'O': I.real('mass_O')}
        for m in masses.values():
            ex.assume(m > 0)
        kgmol = lambda: dim({'kg': (True, 1), 'mol': (True, -1)})
        symbols = MapV()
        subs = MapV()
        for sym, nm in (('H', 'hydrogen'), ('O', 'oxygen')):
            symbols.ent[sym] = [sym, True, nm]
            subs.ent[nm] = [nm, True, substance(ex, number(rational(Fraction(1)), dim({})), nm,
                                              {'molar_mass': prop_struct(ex, number(rational(Fraction(1)), dim({})), 'amount',
                                                                         number(rational(masses[sym]), kgmol()), 'mass')})]
        return [SymStr(chars), ref(symbols), ref(subs)], {'counts': counts, 'masses': masses}

    def post(self, ex, ctx, outcome):
        r = deref_all(outcome[1])
        if not is_some(r):
            return [('a well-formed formula with counts up to 2^32-1 is accepted', False)]
        s = deref_all(payload(r))
        props = deref_all(deref_all(s.fields[1]).fields[1])
        out = props.ent['molar_mass'][2].fields[ex.prog.src.structs['Property'].index('output')]
        val, d = number_parts(out)
        want = z3.RealVal(0)
        for sym, cnt in ctx['counts']:
            want = want + z3.ToReal(cnt) * zreal(ctx['masses'][sym])
        return [('molar mass = exact count-weighted sum', zreal(numeric_parts(val)[1]) == want)]

    def _text(self, inputs):
        out = ''
        for i, sym in enumerate(self.symbols):
            out += sym + ''.join(chr(int(inputs['d%d_%d' % (i, j)])) for j in range(self.ndigits))
        return out

    def native(self, inputs, label):
        t = self._text(inputs)
        return [{'mode': 'query', 'text': 'molar_mass of %s' % t}, {'mode': 'query', 'text': 'molar_mass of hydrogen'}, {'mode': 'query', 'text': 'molar_mass of oxygen'}]

    def judge(self, inputs, label, obs):
        q, h, o = obs
        if q.get('outcome') == 'panic' or q.get('render_panic'):
            return True, 'panic %s' % (q.get('panic') or q.get('render_panic'))
        got, mh, mo = obs_number_json(q), obs_number_json(h), obs_number_json(o)
        if mh is None or mo is None:
            return False, 'reference queries failed'
        want = Fraction(0)
        for i, sym in enumerate(self.symbols):
            cnt = int(''.join(chr(int(inputs['d%d_%d' % (i, j)])) for j in range(self.ndigits)))
            want += cnt * (mh[0] if sym == 'H' else mo[0])
        t = self._text(inputs)
        return (got is None or got[0] != want), 'molar_mass of %s = %s, expected %s' % (t, got, want)

    def prefer(self, ctx):
        return []


def harnesses(tier):
    hs = [SubstanceGet(False), SubstanceGet(True), SubstanceGet(True, op='div'), SubstanceGet(True, op='mulunit'), Formula(11), FormulaSum(['H', 'H'], 10), FormulaSum(['H', 'O', 'H'], 3 if tier == 'quick' else 10)]
    if tier == 'thorough':
        hs += [FormulaSum(['H', 'O', 'H', 'O'], 10), FormulaSum(['O', 'H', 'O', 'H', 'O', 'H'], 4)]
    return hs


# --------------------------------------------------------------------------------------------------------------
# `substance -> unit`: each ratio property shown in the requested unit (Substance::get_in_unit, dimensionless amount).
# The shown numeral times the printed constant times the named units is the property's value (C06 for substance replies).

def _stub_to_parts_raw(ex, nc, args):
    n = dup(deref_all(args[0]))
    f = ex.prog.src.structs['NumberParts']
    vals = [none(ex)] * len(f)
    vals[f.index('raw_value')] = some(ex, n)
    # the physical quantity shown in parentheses is a function of the dimensionality: stand-in text that spells it out
    ents = dim_entries(n.fields[1])
    desc = []
    for k in sorted(ents):
        p, e = ents[k]
        p = simp(p) if is_z3(p) else p
        e = simp(e) if is_z3(e) else e
        if p is True and is_conc(e):
            desc.append('%s^%d' % (k, int(e)))
        elif p is not False:
            desc = None
            break
    vals[f.index('quantity')] = some(ex, 'Q:' + ' '.join(desc)) if desc is not None else some(ex, Opaque('string', 'quantity'))
    return Struct('NumberParts', vals)


class GetInUnit(Harness):
    name = 'substance.get_in_unit.ratio_property'
    props = ('C06', 'C16', 'C04')
    entry_name = 'Substance::get_in_unit'
    loop_bound = 20
    describe = ('`substance -> c unit` for a substance with one ratio property (arbitrary non-zero input and output, input dimensioned) and a '
                'target `c * unit` of the output dimensionality with an arbitrary constant c: the shown numeral, times the printed factor / divisor, '
                'times the named units, is output / input')
    bounds = ['one property; dimensionless amount; units over kg, m']
    assumptions = ['the target names one unit `u` worth an arbitrary value; c > 0']
    expect_classes = ['Result::Ok']
    _concrete = None
    stubs = (SHOW_STUB,
             (r'^Number::(to_parts|to_parts_digits|to_parts_simple)$', _stub_to_parts_raw, 'Number::to_parts -> raw value only'),
             (r'^Number::prettify$', lambda ex, nc, a: dup(deref_all(a[0])), 'Number::prettify -> identity (decided separately by number.prettify)'),
             (r'^Number::numeric_value$', lambda ex, nc, a: Tup([some(ex, 'NUMERAL'), none(ex)]), 'Number::numeric_value -> marker'),
             (r'^Number::unit_to_string$', lambda ex, nc, a: 'unit', 'Number::unit_to_string -> marker'))

    def build(self, ex, I):
        a, iv, ov, c, uval = I.real('a'), I.real('in'), I.real('out'), I.real('c'), I.real('u')
        ex.assume(z3.And(iv != 0, ov != 0, c > 0, uval > 0, a != 0))
        dI = dim({'m': (True, 3)})
        dO = dim({'kg': (True, 1)})
        props = {'density': prop_struct(ex, number(rational(iv), dI), 'volume', number(rational(ov), dO), 'mass')}
        s = substance(ex, number(rational(a), dim({})), 'stuff', props)
        unit = number(rational(c * uval), dim({'kg': (True, 1)}))       # the value of `c u`
        names = MapV()
        names.ent['u'] = ['u', True, 1]
        reg = make_struct(ex, 'Registry', {})
        ctxv = make_struct(ex, 'Context', {'registry': reg, 'temporaries': MapV(), 'previous_result': none(ex)})
        return [ref(s), unit, ref(ctxv), names, rational(c), 10, variant(ex, 'Digits', 'Default')], {'a': a, 'iv': iv, 'ov': ov, 'c': c, 'u': uval}

    def entry(self, ex, args, ctx):
        return ex.call(None, 'runtime::substance::Substance::get_in_unit', list(args))

    def post(self, ex, ctx, outcome):
        r = deref_all(outcome[1])
        if not is_ok(r):
            return [('a ratio property converts to a unit of its output', False)]
        rep = deref_all(payload(r))
        props = deref_all(rep.fields[ex.prog.src.structs['SubstanceReply'].index('properties')])
        if len(props.fields) != 1:
            return [('exactly the one matching property is listed (got %d)' % len(props.fields), False)]
        pr = deref_all(props.fields[0])
        parts = deref_all(pr.fields[ex.prog.src.structs['PropertyReply'].index('value')])
        f = ex.prog.src.structs['NumberParts']
        raw = deref_all(parts.fields[f.index('raw_value')])
        if raw.variant == 0:
            return [('the property carries a value', False)]
        val, d = number_parts(raw.fields[0])
        kind, x = numeric_parts(val)

        def intval(opt):
            opt = deref_all(opt)
            if opt.variant == 0:
                return z3.IntVal(1)
            t = deref_all(opt.fields[0])
            if isinstance(t, str) and t.isdigit():
                return z3.IntVal(int(t))
            if isinstance(t, Opaque) and isinstance(t.info, tuple) and t.info[0] == 'pieces' and len(t.info[1]) == 1 and isinstance(t.info[1][0], tuple):
                return zint(deref_all(t.info[1][0][1]))
            return None
        fv, dv = intval(parts.fields[f.index('factor')]), intval(parts.fields[f.index('divfactor')])
        if fv is None or dv is None or kind != 'rational':
            return [('numeral, factor and divisor are readable', False)]
        names = [k for k, (p, e) in d.items() if p is True or simp(p) is True]
        # shown quantity = numeral * factor / divfactor * u / m^3 ; u is worth ctx['u'] kg
        a, iv, ov, c, u = (zreal(ctx[k]) for k in ('a', 'iv', 'ov', 'c', 'u'))
        q = deref_all(parts.fields[f.index('quantity')])
        qtxt = deref_all(q.fields[0]) if q.variant == 1 else None
        return [('the shown unit names the target unit over the input unit (%s)' % sorted(names), sorted(names) == ['m', 'u']),
                ('the quantity in parentheses is that of output / input (got %r)' % (qtxt,), qtxt == 'Q:kg^1 m^-3'),
                ('numeral * printed constant * unit = output / input', z3.Implies(dv != 0, zreal(x) * z3.ToReal(fv) * u * iv == ov * z3.ToReal(dv)))]

    def prefer(self, ctx):
        out = []
        for k, want in (('c', 1000), ('u', 1), ('a', 1), ('in', 1), ('out', 1)):
            key = {'in': 'iv', 'out': 'ov'}.get(k, k)
            out.append(ctx[key] == want)
        return out

    def native(self, inputs, label):
        return [{'mode': 'query', 'text': t} for t in ('water -> 1000 gram', 'water -> gram', 'water -> 2 kg', 'water -> kg', 'water -> 3 liter')]

    def judge(self, inputs, label, obs):
        """density of water read back from each reply: numeral * factor / divisor * (named units) must be 1000 kg/m^3"""
        bad = []
        worth = {'kilogram': Fraction(1), 'gram': Fraction(1, 1000), 'millimeter': Fraction(1, 1000), 'meter': Fraction(1), 'liter': Fraction(1, 1000),
                 'centimeter': Fraction(1, 100), 'milliliter': Fraction(1, 10 ** 6), 'tonne': Fraction(1000)}
        for o in obs:
            if o.get('outcome') == 'panic' or o.get('render_panic'):
                bad.append('panic %s' % (o.get('panic') or o.get('render_panic')))
                continue
            for p in ((o.get('json') or {}).get('properties') or []):
                if p.get('name') not in ('density', 'specific_volume'):
                    continue
                v = p.get('value') or {}
                rv = (v.get('rawValue') or {})
                num = rv.get('value') or {}
                try:
                    x = Fraction(int(num['numer']), int(num['denom']))
                    x *= Fraction(v.get('factor') or 1) / Fraction(v.get('divfactor') or 1)
                    for name, e in (rv.get('unit') or {}).items():
                        x *= worth[name] ** int(e)
                except (KeyError, ValueError, TypeError, ZeroDivisionError):
                    continue
                want = Fraction(1000) if p['name'] == 'density' else Fraction(1, 1000)
                if x != want:
                    bad.append('%s of water read back from %r is %s, not %s (SI)' % (p['name'], (o.get('display') or '')[:70], x, want))
        return bool(bad), '; '.join(bad[:2]) or 'substance properties read back to their values'


_c16_prev = harnesses


def harnesses(tier):   # noqa: F811
    return _c16_prev(tier) + [GetInUnit()]


# --------------------------------------------------------------------------------------------------------------
# substance + substance (mixtures): never a panic; the shared molar property is the amount-weighted sum.

class GetInUnitConst(GetInUnit):
    """the other kind of property: a constant one (dimensionless input, e.g. `mass_shelled` of an egg), which scales with a
    dimensionless amount: `3 egg -> g` shows three times the mass of one"""
    name = 'substance.get_in_unit.constant_property'
    describe = ('`k substance -> c unit` for a substance with one constant property (dimensionless non-zero input, arbitrary output) and an '
                'arbitrary dimensionless amount k: the shown numeral, times the printed factor / divisor, times the named unit, is k * output / input')
    bounds = ['one property; dimensionless amount; output in kg']

    def build(self, ex, I):
        a, iv, ov, c, uval = I.real('a'), I.real('in'), I.real('out'), I.real('c'), I.real('u')
        ex.assume(z3.And(iv != 0, ov != 0, c > 0, uval > 0, a != 0))
        props = {'mass_each': prop_struct(ex, number(rational(iv), dim({})), 'count', number(rational(ov), dim({'kg': (True, 1)})), 'mass')}
        s = substance(ex, number(rational(a), dim({})), 'stuff', props)
        unit = number(rational(c * uval), dim({'kg': (True, 1)}))
        names = MapV()
        names.ent['u'] = ['u', True, 1]
        reg = make_struct(ex, 'Registry', {})
        ctxv = make_struct(ex, 'Context', {'registry': reg, 'temporaries': MapV(), 'previous_result': none(ex)})
        return [ref(s), unit, ref(ctxv), names, rational(c), 10, variant(ex, 'Digits', 'Default')], {'a': a, 'iv': iv, 'ov': ov, 'c': c, 'u': uval}

    def post(self, ex, ctx, outcome):
        r = deref_all(outcome[1])
        if not is_ok(r):
            return [('a constant property converts to a unit of its output', False)]
        rep = deref_all(payload(r))
        props = deref_all(rep.fields[ex.prog.src.structs['SubstanceReply'].index('properties')])
        if len(props.fields) != 1:
            return [('exactly the one matching property is listed (got %d)' % len(props.fields), False)]
        pr = deref_all(props.fields[0])
        parts = deref_all(pr.fields[ex.prog.src.structs['PropertyReply'].index('value')])
        f = ex.prog.src.structs['NumberParts']
        raw = deref_all(parts.fields[f.index('raw_value')])
        if raw.variant == 0:
            return [('the property carries a value', False)]
        val, d = number_parts(raw.fields[0])
        kind, x = numeric_parts(val)
        ru = deref_all(parts.fields[f.index('raw_unit')])
        names = sorted(dim_entries(ru.fields[0])) if ru.variant == 1 else None

        def intval(opt):
            opt = deref_all(opt)
            if opt.variant == 0:
                return z3.IntVal(1)
            t = deref_all(opt.fields[0])
            if isinstance(t, str) and t.isdigit():
                return z3.IntVal(int(t))
            if isinstance(t, Opaque) and isinstance(t.info, tuple) and t.info[0] == 'pieces' and len(t.info[1]) == 1 and isinstance(t.info[1][0], tuple):
                return zint(deref_all(t.info[1][0][1]))
            return None
        fv, dv = intval(parts.fields[f.index('factor')]), intval(parts.fields[f.index('divfactor')])
        if fv is None or dv is None or kind != 'rational':
            return [('numeral, factor and divisor are readable', False)]
        a, iv, ov, c, u = (zreal(ctx[k]) for k in ('a', 'iv', 'ov', 'c', 'u'))
        return [('the shown unit is the target unit (%s)' % names, names == ['u']),
                ('numeral * printed constant * unit = amount * output / input',
                 z3.Implies(dv != 0, zreal(x) * z3.ToReal(fv) * u * iv == a * ov * z3.ToReal(dv)))]

    def prefer(self, ctx):
        return [ctx['a'] == 3, ctx['c'] == 1, ctx['u'] == 1, ctx['iv'] == 1, ctx['ov'] == 1]

    def native(self, inputs, label):
        return [{'mode': 'query', 'text': t} for t in ('3 egg -> g', '12 egg -> 2 g', 'egg / 2 -> g', 'egg -> g', 'mass_shelled of egg')]

    def judge(self, inputs, label, obs):
        bad = []
        one = obs_number_json(obs[-1])
        if one is None:
            return False, 'reference query failed'
        worth = {'gram': Fraction(1, 1000), 'kilogram': Fraction(1)}
        for (t, k), o in zip((('3 egg -> g', 3), ('12 egg -> 2 g', 12), ('egg / 2 -> g', Fraction(1, 2)), ('egg -> g', 1)), obs):
            if o.get('outcome') == 'panic' or o.get('render_panic'):
                bad.append('`%s` panics' % t)
                continue
            for p in ((o.get('json') or {}).get('properties') or []):
                if p.get('name') != 'mass_shelled':
                    continue
                v = p.get('value') or {}
                rv = (v.get('rawValue') or {})
                num = rv.get('value') or {}
                try:
                    x = Fraction(int(num['numer']), int(num['denom'])) * Fraction(v.get('factor') or 1) / Fraction(v.get('divfactor') or 1)
                    for name, e in (v.get('rawUnit') or {}).items():
                        x *= worth[name] ** int(e)
                except (KeyError, ValueError, TypeError, ZeroDivisionError):
                    continue
                if x != k * one[0]:
                    bad.append('`%s` shows mass_shelled = %s kg, %s eggs weigh %s kg' % (t, x, k, k * one[0]))
        return bool(bad), '; '.join(bad[:2]) or 'constant properties scale with the amount'


_c16_prev_const = harnesses


def harnesses(tier):   # noqa: F811
    return _c16_prev_const(tier) + [GetInUnitConst()]


class SubstanceAdd(Harness):
    name = 'substance.add'
    props = ('C16', 'C04')
    entry_name = '<&Substance as Add<&Substance>>::add'
    loop_bound = 20
    describe = ('substance + substance for two substances with a molar property each (arbitrary outputs) and arbitrary amounts carrying arbitrary '
                'units: a Result, never a panic; when accepted, the property of the sum is amount1 * output1 + amount2 * output2')
    bounds = ['one shared property per substance; units over kg, m']
    expect_classes = ['Result::Ok', 'Result::Err']
    _concrete = None
    stubs = ((r'^Number::to_parts_simple$', lambda ex, nc, a: Struct('NumberParts', [none(ex)] * len(ex.prog.src.structs['NumberParts'])), 'Number::to_parts_simple -> empty parts'),
             (r'^NumberParts::format$', lambda ex, nc, a: 'amount', 'NumberParts::format -> marker text'),
             (r'^NumberPartsFmt::to_string$|^<NumberPartsFmt as ToString>::to_string$|^<NumberPartsFmt as Display>::fmt$', lambda ex, nc, a: 'amount', 'display of the amount -> marker'))

    def build(self, ex, I):
        subs = []
        meta = []
        mol = dim({'mol': (True, 1)})
        for i in (1, 2):
            a, o = I.real('a%d' % i), I.real('o%d' % i)
            DA, entA = sym_dim(ex, I, 'da%d' % i, U, lo=-2, hi=2)
            props = {'molar_mass': prop_struct(ex, number(rational(Fraction(1)), dup(mol)), 'amount', number(rational(o), dim({'kg': (True, 1), 'mol': (True, -1)})), 'mass')}
            subs.append(substance(ex, number(rational(a), DA), 'stuff%d' % i, props))
            meta.append((a, o, entA))
        return [ref(subs[0]), ref(subs[1])], {'meta': meta}

    def entry(self, ex, args, ctx):
        return ex.call(None, '<&runtime::substance::Substance as std::ops::Add<&runtime::substance::Substance>>::add', list(args))

    def post(self, ex, ctx, outcome):
        (a1, o1, e1), (a2, o2, e2) = ctx['meta']
        same = dims_equal_formula(e1, e2)
        r = deref_all(outcome[1])
        if not is_ok(r):
            return [('a mixture is refused only when the two amounts differ in dimension', z3.Not(zbool(same)))]
        s = deref_all(payload(r))
        props = deref_all(deref_all(s.fields[1]).fields[1])
        ent = props.ent.get('molar_mass')
        if ent is None:
            return [('the shared property is kept', False)]
        out = ent[2].fields[ex.prog.src.structs['Property'].index('output')]
        val, d = number_parts(out)
        return [('amounts of different dimension cannot be mixed', same),
                ('property of the mixture = amount1 * output1 + amount2 * output2', zreal(numeric_parts(val)[1]) == zreal(a1) * zreal(o1) + zreal(a2) * zreal(o2))]

    def native(self, inputs, label):
        return [{'mode': 'query', 'text': t} for t in ('gold kg + silver', 'gold + silver kg', '2 kg gold + 3 m silver', 'gold + silver', '2 kg gold + 3 kg silver')]

    def judge(self, inputs, label, obs):
        bad = ['`%s` panics: %s' % (t, o.get('panic') or o.get('render_panic')) for t, o in zip(('gold kg + silver', 'gold + silver kg', '2 kg gold + 3 m silver', 'gold + silver', '2 kg gold + 3 kg silver'), obs)
               if o.get('outcome') == 'panic' or o.get('render_panic')]
        for t, o in zip(('gold kg + silver', 'gold + silver kg', '2 kg gold + 3 m silver'), obs):
            if o.get('outcome') == 'ok':
                bad.append('`%s` is answered: %s' % (t, (o.get('display') or '')[:80]))
        return bool(bad), '; '.join(bad[:2]) or 'mixtures of unlike amounts are refused, like amounts are summed'


_c16_prev2 = harnesses


def harnesses(tier):   # noqa: F811
    return _c16_prev2(tier) + [SubstanceAdd()]


# --------------------------------------------------------------------------------------------------------------
# Which names eval_expr takes for a substance: a substance name, an element symbol, a well-formed formula - nothing else.

class SubstanceNames(Harness):
    name = 'eval_expr.substance_names'
    props = ('C16', 'C07')
    entry = 'eval_expr'
    loop_bound = 30
    describe = ('concrete companion (no symbolic variable): eval_expr on a bare name over a database with the substances hydrogen / oxygen and the '
                'symbols H / O: names, symbols and well-formed formulas are substances; near misses (`H2s`, `hydrogens`, `H2x`, `h2`, `Hs`) are not found')
    bounds = ['a fixed list of names; one base unit (kg), one unit (g), two prefixes (k, M)']
    # names with a unit reading (exact, prefix + unit, plural) that are also a substance name or an element symbol: the unit wins,
    # as for every other name (C07) - `Mg` is a megagram although magnesium has that symbol
    UNITS = {'g': Fraction(1, 1000), 'kg': Fraction(1), 'Mg': Fraction(1000), 'gs': Fraction(1, 1000), 'kgs': Fraction(1), 'Mgs': Fraction(1000)}
    expect_classes = ['Result::Ok', 'Result::Err']
    _concrete = None
    GOOD = ['hydrogen', 'H', 'O', 'H2', 'H2O', 'HO', 'O2H4']
    BAD = ['H2s', 'hydrogens', 'H2x', 'h2', 'Hs', 'H2Os', 'Os', 'H2 ', 'sH2', 'H2ss', 'oxygens']
    stubs = ((r'^Context::unknown_unit_err$', lambda ex, nc, a: Struct('NotFoundError', [Opaque('got'), none(ex)]), 'Context::unknown_unit_err -> opaque'),)

    def build(self, ex, I):
        names = self.GOOD + self.BAD + sorted(self.UNITS)
        nm = names[ex.choose(len(names), 'name')]
        kgmol = lambda: dim({'kg': (True, 1), 'mol': (True, -1)})
        symbols, subs = MapV(), MapV()
        for sym, full, mass in (('H', 'hydrogen', Fraction(1, 1000)), ('O', 'oxygen', Fraction(16, 1000))):
            symbols.ent[sym] = [sym, True, full]
            subs.ent[full] = [full, True, substance(ex, number(rational(Fraction(1)), dim({})), full,
                                                   {'molar_mass': prop_struct(ex, number(rational(Fraction(1)), dim({})), 'amount',
                                                                              number(rational(mass), kgmol()), 'mass')})]
        for sym, full in (('Mg', 'magnesium'), ('Mgs', 'magnesiumsulfide'), ('gs', 'gs')):
            if sym != full:
                symbols.ent[sym] = [sym, True, full]
            subs.ent[full] = [full, True, substance(ex, number(rational(Fraction(1)), dim({})), full,
                                                   {'molar_mass': prop_struct(ex, number(rational(Fraction(1)), dim({})), 'amount',
                                                                              number(rational(Fraction(24, 1000)), kgmol()), 'mass')})]
        base, units = MapV(), MapV()
        base.ent['kg'] = [base_unit('kg'), True, Tup([])]
        units.ent['g'] = ['g', True, number(rational(Fraction(1, 1000)), dim({'kg': (True, 1)}))]
        plist = Arr([Tup(['k', rational(Fraction(1000))]), Tup(['M', rational(Fraction(10 ** 6))])])
        reg = make_struct(ex, 'Registry', {'substances': subs, 'substance_symbols': symbols, 'base_units': base, 'units': units, 'prefixes': plist})
        ctxv = make_struct(ex, 'Context', {'registry': reg, 'temporaries': MapV(), 'previous_result': none(ex)})
        return [ref(ctxv), ref(expr_unit(ex, nm))], {'nm': nm}

    def post(self, ex, ctx, outcome):
        r = deref_all(outcome[1])
        nm = ctx['nm']
        if nm in self.UNITS:
            if not (is_ok(r) and deref_all(payload(r)).vname == 'Number'):
                return [('`%s` has a unit reading, so it is that unit and not a substance' % nm, False)]
            val, d = number_parts(deref_all(payload(r)).fields[0])
            return [('`%s` denotes its unit reading (%s kg)' % (nm, self.UNITS[nm]), n_eq(numeric_parts(val)[1], self.UNITS[nm]))]
        if nm in self.GOOD:
            okk = is_ok(r) and deref_all(payload(r)).vname == 'Substance'
            return [('`%s` is a substance' % nm, bool(okk))]
        return [('`%s` is not a substance, a symbol or a well-formed formula: not found' % nm, bool(is_err(r)))]

    def case(self, ctx, vals, label):
        c = Harness.case(self, ctx, vals, label)
        c['inputs']['name'] = ctx['nm']
        return c

    def native(self, inputs, label):
        return [{'mode': 'query', 'text': t} for t in ('NaCls', 'H2s', 'CH4s', 'waters', 'molar_mass of C8H10N4O2s', 'NaCl', 'H2O',
                                                         '3 Mg -> kg', '2 hg -> kg', '1 Pt -> m', '1 Ga -> year')]

    def judge(self, inputs, label, obs):
        bad = []
        for t, o in zip(('NaCls', 'H2s', 'CH4s', 'waters', 'molar_mass of C8H10N4O2s'), obs):
            if o.get('outcome') == 'ok':
                bad.append('`%s` is answered: %s' % (t, (o.get('display') or '')[:60]))
            if o.get('outcome') == 'panic':
                bad.append('`%s` panics' % t)
        for t, o in zip(('NaCl', 'H2O'), obs[5:]):
            if o.get('outcome') != 'ok':
                bad.append('`%s` is refused: %s' % (t, o.get('display')))
        # prefix + unit names that are also element symbols: the unit (megagram, hectogram, petatonne, gigayear)
        for (t, want), o in zip((('3 Mg -> kg', Fraction(3000)), ('2 hg -> kg', Fraction(1, 5)), ('1 Pt -> m', None), ('1 Ga -> year', Fraction(10 ** 9))), obs[7:]):
            j = o.get('json') or {}
            if j.get('type') == 'substance' or (o.get('outcome') == 'ok' and 'molar' in str(o.get('display'))):
                bad.append('`%s` is read as a substance: %s' % (t, (o.get('display') or '')[:60]))
                continue
            got = obs_number_json(o)
            if want is not None and (got is None or got[0] != want):
                bad.append('`%s` = %s, the unit reading gives %s' % (t, (o.get('display') or '')[:60], want))
        return bool(bad), '; '.join(bad[:3]) or 'near misses are refused, formulas accepted'


_c16_prev3 = harnesses


def harnesses(tier):   # noqa: F811
    return _c16_prev3(tier) + [SubstanceNames()]
