"""C01 exact arithmetic: Numeric / Number kernels"""
import z3
from .common import *  # noqa


class NumberRem(Harness):
    name = 'c01.number_rem'
    props = ('C01', 'C04')
    entry = 'Number::rem'
    describe = 'l mod r on dimensionless rationals'

    def build(self, ex, I):
        l = I.real('l')
        r = I.real('r')
        a = number(rational(l), dim({}))
        b = number(rational(r), dim({}))
        return [ref(a), ref(b)], {'l': l, 'r': r}

    def post(self, ex, ctx, outcome):
        l, r = ctx['l'], ctx['r']
        v = outcome[1]
        obs = []
        if is_ok(v):
            val, d = number_parts(payload(v))
            kind, x = numeric_parts(val)
            obs.append(('mod by zero must be an error', r != 0))
            obs.append(('result is rational', kind == 'rational'))
            if kind == 'rational':
                obs.append(('l mod r = l - r*trunc(l/r)', z3.Implies(r != 0, x == l - r * z3.ToReal(trunc_real(l / r)))))
        else:
            obs.append(('error only when r == 0', r == 0))
        return obs


class DivRem(Harness):
    name = 'c09.div_rem'
    props = ('C09',)
    entry = 'Numeric::div_rem'

    def build(self, ex, I):
        l = I.real('l')
        r = I.real('r')
        ex.assume(r != 0)
        return [ref(rational(l)), ref(rational(r))], {'l': l, 'r': r}

    def post(self, ex, ctx, outcome):
        l, r = ctx['l'], ctx['r']
        t = deref_all(outcome[1])
        kq, q = numeric_parts(t.fields[0])
        kr, rem = numeric_parts(t.fields[1])
        absr = z3.If(r >= 0, r, -r)
        absrem = z3.If(rem >= 0, rem, -rem)
        return [('both rational', kq == 'rational' and kr == 'rational'),
                ('l = q*r + rem', l == q * r + rem),
                ('q integral', z3.IsInt(q)),
                ('|rem| < |r|', absrem < absr),
                ('sign(rem) in {0, sign(l)}', z3.Or(rem == 0, (rem > 0) == (l > 0)))]


HARNESSES = [NumberRem(), DivRem()]
