"""C01 exact arithmetic + C02 dimensional analysis on the evaluator's operator dispatch.

Entry: `eval_expr(ctx, BinOp{op, Unit a, Unit b})` with `Context::lookup` stubbed to hand out two
arbitrary Numbers (unbounded rational value, symbolic exponent vector over a small base-unit
universe).  Everything below the evaluator is the real MIR: Value ops, Number ops, Numeric ops,
BigRat/BigInt wrappers, Dimensionality, btree_merge.
"""
import random
import z3
from .common import *  # noqa

U_QUICK = ('kg', 'm', 's')
U_THOROUGH = ('K', 'kg', 'm', 's')
EXP_BOUND = 2 ** 31

OPSYM = {'Add': '+', 'Sub': '-', 'Frac': '/', 'Mod': 'mod', 'Mul': '*', 'Pow': '^', 'ShiftL': '<<', 'ShiftR': '>>',
         'And': 'and', 'Or': 'or', 'Xor': 'xor'}


def trunc_frac(x):
    x = Fraction(x)
    q = abs(x.numerator) // x.denominator
    return q if x >= 0 else -q


def oracle(op, l, r, dl, dr):
    """textbook result: ('ok', value, dims) | ('err', why)"""
    def merged(sign):
        out = {}
        for k in set(dl) | set(dr):
            e = dl.get(k, 0) + sign * dr.get(k, 0)
            if e != 0:
                out[k] = e
        return out
    dl = {k: e for k, e in dl.items() if e != 0}
    dr = {k: e for k, e in dr.items() if e != 0}
    if op in ('Add', 'Sub'):
        if dl != dr:
            return ('err', 'dimension mismatch')
        return ('ok', l + r if op == 'Add' else l - r, dl)
    if op == 'Mul':
        return ('ok', l * r, merged(1))
    if op == 'Frac':
        if r == 0:
            return ('err', 'division by zero')
        return ('ok', l / r, merged(-1))
    if op == 'Mod':
        if dl != dr:
            return ('err', 'dimension mismatch')
        if r == 0:
            return ('err', 'mod by zero')
        return ('ok', l - r * trunc_frac(l / r), dl)
    if op in ('And', 'Or', 'Xor'):
        if dl or dr:
            return ('err', 'not dimensionless')
        if l.denominator != 1 or r.denominator != 1:
            return ('err', 'not integers')
        a, b = l.numerator, r.numerator
        return ('ok', Fraction({'And': a & b, 'Or': a | b, 'Xor': a ^ b}[op]), {})
    if op in ('ShiftL', 'ShiftR'):
        if dr:
            return ('err', 'shift count not dimensionless')
        if r.denominator != 1:
            return ('err', 'shift count not an integer')
        if abs(r) >= 2 ** 31:
            return ('err', 'shift count too large')
        e = r.numerator
        if abs(e) > 4096:
            return ('huge', None)
        f = Fraction(2) ** e
        return ('ok', l * f if op == 'ShiftL' else l / f, dl)
    if op == 'Pow':
        if dr:
            return ('err', 'exponent not dimensionless')
        if abs(r) >= 2 ** 31:
            return ('err', 'exponent too large')
        if r.denominator != 1:
            return ('float-or-root', None)
        e = r.numerator
        if l == 0 and e < 0:
            return ('err', 'zero to a negative power')
        if abs(e) > 64:
            return ('huge', None)
        dims = {}
        for k, x in dl.items():
            if x * e != 0:
                dims[k] = x * e
        return ('ok', Fraction(l) ** e, dims)
    raise ValueError(op)


class EvalBinOp(Harness):
    props = ('C01', 'C02', 'C04')
    entry = 'eval_expr'
    stubs = (LOOKUP_STUB, SHOW_STUB)
    loop_bound = 12

    def __init__(self, op, universe, tier, exps=None, name=None):
        self.op = op
        self.U = universe
        self.exps = exps           # concrete right operands (pow / shifts value checks)
        self.name = name or 'eval_expr.%s' % op.lower()
        self.describe = 'eval_expr on `a %s b`, a and b arbitrary Numbers (unbounded rational value, exponent vectors over %s)' % (
            OPSYM[op], '/'.join(universe))
        self.bounds = ['base-unit universe %s, exponents within +-2^31 per operand' % (universe,)]
        if exps is not None:
            self.bounds.append('right operand concrete in %s (z3 has no symbolic exponentiation)' % (list(exps),))
        self.assumptions = ['operand exponent maps carry no zero entry (representation invariant; asserted on outputs)']
        self.expect_classes = ['Result::Ok', 'Result::Err'] if (op not in ('Mul',) and exps is None) else ['Result::Ok']
        self._concrete = None
        self.dimless_right = op in ('Pow', 'ShiftL', 'ShiftR') and exps is not None
        self.int_ops = op in ('And', 'Or', 'Xor')

    # -- symbolic pre-state
    def build(self, ex, I):
        l = I.real('l')
        if self.exps is not None:
            if self._concrete is not None:
                r = Fraction(self._concrete['r'])
            else:
                k = ex.choose(len(self.exps), 'right operand')
                r = Fraction(self.exps[k])
            entR = {}
            DR = dim({})
        else:
            r = I.real('r')
            DR, entR = sym_dim(ex, I, 'dr', self.U, lo=-EXP_BOUND, hi=EXP_BOUND)
        DL, entL = sym_dim(ex, I, 'dl', self.U, lo=-EXP_BOUND, hi=EXP_BOUND)
        ex.env['units'] = {'a': number(rational(l), DL), 'b': number(rational(r), DR)}
        if self.op == 'Mul':
            e = expr_mul(ex, [expr_unit(ex, 'a'), expr_unit(ex, 'b')])
        else:
            e = expr_binop(ex, self.op, expr_unit(ex, 'a'), expr_unit(ex, 'b'))
        return [ref(Opaque('Context')), ref(e)], {'l': l, 'r': r, 'entL': entL, 'entR': entR}

    # -- obligations
    def post(self, ex, ctx, outcome):
        l, r, entL, entR = ctx['l'], ctx['r'], ctx['entL'], ctx['entR']
        op = self.op
        v = deref_all(outcome[1])
        obs = []
        same = dims_equal_formula(entL, entR)
        dimlessL = z3.And(*[z3.Not(zbool(p)) for p, e in entL.values()]) if entL else True
        dimlessR = z3.And(*[z3.Not(zbool(p)) for p, e in entR.values()]) if entR else True
        lz, rz = zreal(l), zreal(r)
        if is_ok(v):
            val = deref_all(payload(v))
            if not (isinstance(val, Enum) and val.ty == 'Value' and val.vname == 'Number'):
                return [('result is a Number', False)]
            num, d = number_parts(val.fields[0])
            kind, x = numeric_parts(num)
            # --- definedness (C01/C02: refused cases must not yield a number)
            if op in ('Add', 'Sub', 'Mod'):
                obs.append(('%s accepted only between identical dimensionalities' % op, same))
            if op in ('Frac', 'Mod'):
                obs.append(('%s by zero must be an error' % op, rz != 0))
            if op in ('And', 'Or', 'Xor'):
                obs.append(('bit operator operands dimensionless', b_and(dimlessL, dimlessR)))
                obs.append(('bit operator operands integral', z3.And(z3.IsInt(lz), z3.IsInt(rz))))
            if op in ('ShiftL', 'ShiftR', 'Pow'):
                obs.append(('right operand dimensionless', dimlessR))
            if op in ('ShiftL', 'ShiftR'):
                obs.append(('shift count integral', z3.IsInt(rz)))
                obs.append(('shift count within +-2^31', z3.And(rz > -2 ** 31, rz < 2 ** 31)))
            if op == 'Pow':
                obs.append(('zero to a negative integer power must be an error', z3.Not(z3.And(lz == 0, rz < 0, z3.IsInt(rz)))))
            # --- exactness
            exact_expected = not (op == 'Pow' and self.exps is None)
            if exact_expected:
                obs.append(('no float fallback for rational operands', kind == 'rational'))
            if kind == 'rational':
                x = zreal(x)
                if op == 'Add':
                    obs.append(('value = l + r', x == lz + rz))
                elif op == 'Sub':
                    obs.append(('value = l - r', x == lz - rz))
                elif op == 'Mul':
                    obs.append(('value = l * r', x == lz * rz))
                elif op == 'Frac':
                    obs.append(('value * r = l', z3.Implies(rz != 0, x * rz == lz)))
                elif op == 'Mod':
                    obs.append(('value = l - r*trunc(l/r)', z3.Implies(rz != 0, x == lz - rz * z3.ToReal(trunc_real(lz / rz)))))
                elif op in ('And', 'Or', 'Xor'):
                    f = z3.Function('bigint_bit' + op.lower(), z3.IntSort(), z3.IntSort(), z3.IntSort())
                    obs.append(('value = %s of the two integer values' % op.lower(), x == z3.ToReal(f(z3.ToInt(lz), z3.ToInt(rz)))))
                elif op in ('ShiftL', 'ShiftR') and self.exps is not None:
                    e = int(r)
                    f = Fraction(2) ** e if op == 'ShiftL' else Fraction(1) / (Fraction(2) ** e)
                    obs.append(('value = l * 2^(%s%d)' % ('' if op == 'ShiftL' else '-', e), x == lz * zreal(f)))
                elif op == 'Pow' and self.exps is not None and Fraction(r).denominator == 1:
                    e = int(r)
                    if e >= 0:
                        p = z3.RealVal(1)
                        for _ in range(e):
                            p = p * lz
                        obs.append(('value = l^%d' % e, x == p))
                    else:
                        p = z3.RealVal(1)
                        for _ in range(-e):
                            p = p * lz
                        obs.append(('value * l^%d = 1' % -e, z3.Implies(lz != 0, x * p == 1)))
            # --- dimensional algebra (C02)
            for k in sorted(set(entL) | set(entR) | set(d)):
                eL = eff_exp(entL, k)
                eR = eff_exp(entR, k)
                if op in ('Add', 'Sub', 'Mod', 'ShiftL', 'ShiftR', 'And', 'Or', 'Xor'):
                    want = eL
                elif op == 'Mul':
                    want = n_add(eL, eR)
                elif op == 'Frac':
                    want = n_sub(eL, eR)
                elif op == 'Pow':
                    if self.exps is not None and Fraction(r).denominator == 1:
                        want = n_mul(eL, int(r))
                    else:
                        # any accepted power: every exponent is multiplied by r exactly (roots and rational powers are
                        # refused unless exact)
                        got_p, got_e = d.get(k, (False, 0))
                        obs.append(('unit[%s]: exponent * r is exact' % k, z3.ToReal(zint(eff_exp(d, k))) == z3.ToReal(zint(eL)) * rz))
                        obs.append(('unit[%s]: no zero exponent carried' % k, b_or(b_not(got_p), b_not(n_eq(got_e, 0)))))
                        continue
                got_p, got_e = d.get(k, (False, 0))
                obs.append(('unit[%s]: present iff exponent != 0' % k, n_eq(got_p, b_not(n_eq(want, 0)))))
                obs.append(('unit[%s]: exponent' % k, b_or(b_not(got_p), n_eq(got_e, want))))
                obs.append(('unit[%s]: no zero exponent carried' % k, b_or(b_not(got_p), b_not(n_eq(got_e, 0)))))
        elif is_err(v):
            e = deref_all(payload(v))
            obs.append(('error is QueryError::Generic', isinstance(e, Enum) and e.vname == 'Generic'))
            # an error is legitimate only when the mathematics is undefined / operands are refused
            if op in ('Add', 'Sub'):
                obs.append(('error only on dimension mismatch', z3.Not(zbool(same))))
            elif op == 'Mul':
                obs.append(('multiplication never fails', False))
            elif op == 'Frac':
                obs.append(('error only when r == 0', rz == 0))
            elif op == 'Mod':
                obs.append(('error only on mismatch or r == 0', z3.Or(z3.Not(zbool(same)), rz == 0)))
            elif op in ('And', 'Or', 'Xor'):
                obs.append(('error only for dimensioned or non-integer operands',
                            z3.Or(z3.Not(zbool(dimlessL)), z3.Not(zbool(dimlessR)), z3.Not(z3.IsInt(lz)), z3.Not(z3.IsInt(rz)))))
            elif op in ('ShiftL', 'ShiftR'):
                obs.append(('error only for dimensioned / non-integer / huge shift count',
                            z3.Or(z3.Not(zbool(dimlessR)), z3.Not(z3.IsInt(rz)), rz >= 2 ** 31, rz <= -2 ** 31)))
            elif op == 'Pow':
                root_refusal = True   # roots / fractional powers have their own refusals (C02 harness)
                if self.exps is not None and Fraction(r).denominator == 1:
                    obs.append(('integer power refused only for 0^negative', z3.And(lz == 0, rz < 0)))
        else:
            obs.append(('eval_expr returns a Result', False))
        return obs

    def prefer(self, ctx):
        """preferences for counterexample models: small exponents, small non-zero values"""
        prefs = []
        if self.op == 'Pow' and is_z3(ctx['r']):
            # a rational a hair away from 1/3 under a cube: code that decides exactness of `exponent * r` in f64 accepts it
            # (f64(1/3 + 2^-70) * 3.0 == 1.0), exact arithmetic does not - makes float-rounding slips reproducible
            prefs.append(ctx['r'] == zreal(Fraction(1, 3) + Fraction(1, 2 ** 70)))
            first = sorted(ctx['entL'])[0]
            p0, e0 = ctx['entL'][first]
            if is_z3(e0):
                prefs.append(z3.And(zbool(p0), e0 == 3))
        for ent in (ctx['entL'], ctx['entR']):
            for k, (p, e) in ent.items():
                if is_z3(e):
                    prefs.append(z3.And(e >= -3, e <= 3))
        for v in (ctx['l'], ctx['r']):
            if is_z3(v):
                prefs.append(v != 0)
                prefs.append(z3.And(v >= -1000, v <= 1000))
                prefs.append(z3.IsInt(v * 12))
        return prefs

    # -- native confirmation
    def _conc(self, inputs):
        l = Fraction(inputs['l'])
        r = Fraction(inputs['r']) if 'r' in inputs else None
        dl = conc_dim(inputs, 'dl', self.U)
        dr = conc_dim(inputs, 'dr', self.U)
        return l, r, dl, dr

    def case(self, ctx, vals, label):
        c = Harness.case(self, ctx, vals, label)
        if self.exps is not None:
            c['inputs']['r'] = jsonable_frac(ctx['r'])
        return c

    def native(self, inputs, label):
        l, r, dl, dr = self._conc(inputs)
        kop = {'Add': 'add', 'Sub': 'sub', 'Mul': 'mul', 'Frac': 'div', 'Mod': 'rem', 'Pow': 'pow', 'ShiftL': 'shl',
               'ShiftR': 'shr', 'And': 'and', 'Or': 'or', 'Xor': 'xor'}[self.op]
        reqs = [{'mode': 'number_op', 'op': kop, 'a': number_json(l, dl), 'b': number_json(r, dr)}]
        a, b = qty_text(l, dl), qty_text(r, dr)
        if a is not None and b is not None and self._cheap(l, r):
            reqs.append({'mode': 'query', 'text': '%s %s %s' % (a, OPSYM[self.op], b)})
        return reqs

    def _cheap(self, l, r):
        if self.op in ('ShiftL', 'ShiftR'):
            return r.denominator == 1 and abs(r) <= 4096
        if self.op == 'Pow':
            return abs(r) <= 4096
        return True

    def judge(self, inputs, label, obs):
        l, r, dl, dr = self._conc(inputs)
        exp = oracle(self.op, l, r, dl, dr)
        if exp[0] == 'float-or-root' and dl:
            # a non-integer power of a dimensioned value: refused, or every exponent times r is an integer
            for lvl, o in (('kernel', obs[0]), ('query', obs[1] if len(obs) > 1 else None)):
                if o is None:
                    continue
                if o.get('outcome') == 'panic':
                    return True, '%s: panic %s' % (lvl, o.get('panic'))
                got = kernel_number(o) if lvl == 'kernel' else obs_number_json(o)
                if got is not None:
                    want = {k_: e * r for k_, e in dl.items() if e != 0}
                    okd = all(v_.denominator == 1 for v_ in want.values()) and got[1] == {k_: int(v_) for k_, v_ in want.items() if v_ != 0}
                    if not okd:
                        return (True if lvl == 'query' or len(obs) == 1 else 'kernel-only'), '%s: (%s %s)^(%s) accepted with unit %s; exact exponents would be %s' % (
                            lvl, l, dl, r, got[1], {k_: str(v_) for k_, v_ in want.items()})
            return False, 'refused or exact'
        k = obs[0]
        q = obs[1] if len(obs) > 1 else None
        verdicts = []
        for lvl, o in (('kernel', k), ('query', q)):
            if o is None:
                continue
            if o.get('outcome') == 'panic':
                verdicts.append((lvl, True, 'panic: %s' % o.get('panic')))
                continue
            if o.get('outcome') == 'timeout':
                cheap = exp[0] in ('ok', 'err')
                verdicts.append((lvl, cheap, 'no answer within 8 s / 8 GiB although the exact result is small' if cheap else 'timeout on a legitimately huge result'))
                continue
            if o.get('render_panic'):
                verdicts.append((lvl, True, 'render panic: %s' % o.get('render_panic')))
                continue
            got = kernel_number(o) if lvl == 'kernel' else obs_number_json(o)
            if exp[0] == 'err':
                bad = got is not None
                verdicts.append((lvl, bad, 'expected an error (%s), got %s' % (exp[1], got)))
            elif exp[0] == 'ok':
                if got is None:
                    verdicts.append((lvl, True, 'expected %s %s, got an error/none: %s' % (exp[1], exp[2], (o.get('display') or o.get('error') or o.get('outcome')))))
                else:
                    bad = (got[0] != exp[1]) or (got[1] != exp[2])
                    verdicts.append((lvl, bad, 'expected %s %s, got %s %s' % (exp[1], exp[2], got[0], got[1])))
            else:
                verdicts.append((lvl, False, 'no exact oracle (%s)' % exp[0]))
        text = '; '.join('%s: %s' % (lvl, w) for lvl, b, w in verdicts)
        qv = [b for lvl, b, w in verdicts if lvl == 'query']
        kv = [b for lvl, b, w in verdicts if lvl == 'kernel']
        if qv and qv[0]:
            return True, text
        if kv and kv[0]:
            return ('kernel-only' if not qv else False), text
        return False, text

    # -- translator validation vectors
    def vectors(self, rng):
        vals = [Fraction(0), Fraction(1), Fraction(-1), Fraction(7, 2), Fraction(-22, 7), Fraction(2 ** 70 + 1, 3),
                Fraction(-5), Fraction(12), Fraction(1, 2 ** 65), Fraction(255), Fraction(-256)]
        out = []
        for _ in range(10):
            v = {'l': rng.choice(vals), 'r': rng.choice(vals)}
            if self.exps is not None:
                v['r'] = Fraction(rng.choice(self.exps))
            for tag in ('dl', 'dr'):
                same = rng.random() < 0.5
                for u in self.U:
                    has = rng.random() < 0.4
                    v['%s_has_%s' % (tag, u)] = has
                    v['%s_exp_%s' % (tag, u)] = rng.choice([1, -1, 2, 3, -2]) if has else 1
            if rng.random() < 0.5:
                for u in self.U:
                    v['dr_has_%s' % u] = v['dl_has_%s' % u]
                    v['dr_exp_%s' % u] = v['dl_exp_%s' % u]
            if self.exps is not None:
                for u in self.U:
                    v['dr_has_%s' % u] = False
            if self.op in ('And', 'Or', 'Xor', 'ShiftL', 'ShiftR', 'Pow') and rng.random() < 0.7:
                for u in self.U:
                    v['dr_has_%s' % u] = False
                    if self.op in ('And', 'Or', 'Xor'):
                        v['dl_has_%s' % u] = False
                if self.op in ('ShiftL', 'ShiftR', 'Pow') and self.exps is None:
                    v['r'] = Fraction(rng.choice([0, 1, 2, 3, 5, 7] if self.op != 'Pow' else [0, 1, 2, 3, 5, -1, -2]))
            out.append(v)
        return out

    def build_concrete_choice(self):
        pass

    def agree(self, vec, outcome, o):
        """MIR interpretation vs native number_op on the same concrete inputs"""
        if outcome[0] == 'panic':
            if outcome[1].startswith('RESOURCE'):
                return (o.get('outcome') == 'timeout'), 'MIR: %s native: %s' % (outcome[1], o.get('outcome'))
            return (o.get('outcome') == 'panic'), 'MIR: panic (%s) native: %s' % (outcome[1], o.get('outcome'))
        v = deref_all(outcome[1])
        if is_ok(v):
            val = deref_all(payload(v))
            mine = model_number_obs(val.fields[0])
            got = kernel_number(o)
            if got is None:
                return False, 'MIR: Ok %s native: %s' % (mine, o)
            if mine[0] == 'float':
                return (isinstance(got[0], str) and mine[1] == got[1]), 'MIR float vs native %s' % (got,)
            return (mine[0] == got[0] and mine[1] == got[1]), 'MIR: %s native: %s' % (mine, got)
        return (o.get('outcome') in ('err', 'none')), 'MIR: Err native: %s' % o.get('outcome')


def jsonable_frac(v):
    v = Fraction(v)
    return '%d/%d' % (v.numerator, v.denominator)


def harnesses(tier):
    U = U_QUICK if tier == 'quick' else U_THOROUGH
    hs = []
    for op in ('Add', 'Sub', 'Mul', 'Frac', 'Mod', 'And', 'Or', 'Xor', 'ShiftL', 'ShiftR', 'Pow'):
        hs.append(EvalBinOp(op, U, tier))
    ints = list(range(-4, 5)) if tier == 'quick' else list(range(-8, 9))
    hs.append(EvalBinOp('Pow', U, tier, exps=ints, name='eval_expr.pow.int_exponents'))
    hs.append(EvalBinOp('ShiftL', U, tier, exps=[0, 1, 2, 7, 64, -1, -3], name='eval_expr.shiftl.values'))
    hs.append(EvalBinOp('ShiftR', U, tier, exps=[0, 1, 2, 7, 64, -1, -3], name='eval_expr.shiftr.values'))
    return hs


HARNESSES = harnesses('quick')
