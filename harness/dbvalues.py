"""Constants read from the *loaded* database at run time (through the native observer), cached per repo hash."""
import json
import os
from checker import build

_cache = {}


def _observe(reqs):
    from checker.main import native_observe
    return native_observe(reqs)


def units(names):
    key = ('units', tuple(names))
    if key in _cache:
        return _cache[key]
    hsh = build.tree_hash([os.path.join(build.REPO, 'core')])
    path = os.path.join(build.BUILD, 'db-%s-%s.json' % (hsh, abs(hash(tuple(names))) % 10 ** 8))
    if os.path.exists(path):
        r = json.load(open(path))
    else:
        o = _observe([{'mode': 'dump_units', 'names': list(names)}])[0]
        r = o['units']
        os.makedirs(build.BUILD, exist_ok=True)
        json.dump(r, open(path, 'w'))
    _cache[key] = r
    return r


def prefixes():
    key = 'prefixes'
    if key in _cache:
        return _cache[key]
    hsh = build.tree_hash([os.path.join(build.REPO, 'core')])
    path = os.path.join(build.BUILD, 'dbp-%s.json' % hsh)
    if os.path.exists(path):
        r = json.load(open(path))
    else:
        r = _observe([{'mode': 'dump_prefixes'}])[0]['prefixes']
        json.dump(r, open(path, 'w'))
    _cache[key] = r
    return r
