MODULES = [
    'harness.c01',
    'harness.c02',
    'harness.c09',
    'harness.c14',
    'harness.c10',
    'harness.c03',
    'harness.c15',
    'harness.c16',
    'harness.c07',
    'harness.c06',
    'harness.c05',
]
