MODULES = [
    'harness.c01',
    'harness.c09',
    'harness.c14',
]
