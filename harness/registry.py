MODULES = [
    'harness.c01',
    'harness.c09',
]
