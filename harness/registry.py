MODULES = [
    'harness.c01',
]
