"""C14 (date literals): the pattern-element matchers of `parse_date` on tokens with symbolic digit strings."""
import glob
import os
import re
import z3
from .common import *  # noqa
from mirsym.lib import PeekableV, VecIter, mk_datetime


def parsed_fields():
    """field order of chrono::format::Parsed, read from the crate source the build uses"""
    ver = None
    lock = open('/repo/Cargo.lock').read()
    m = re.search(r'name = "chrono"\nversion = "([^"]+)"', lock)
    if m:
        ver = m.group(1)
    for p in glob.glob(os.path.expanduser('~/.cargo/registry/src/*/chrono-%s/src/format/parsed.rs' % ver)):
        src = open(p).read()
        body = src[src.index('pub struct Parsed'):]
        body = body[:body.index('\n}')]
        return re.findall(r'^\s+(?:pub(?:\([a-z]+\))? )?([a-z_0-9]+): ', body, re.M)
    return None


# element -> (digit counts allowed, lo, hi, [(field, function of value)])
NUMERIC = {
    'fullyear': ([4], 0, 9999, [('year', lambda v: v)]),
    'shortyear': ([2], 0, 99, [('year_mod_100', lambda v: v)]),
    'century': ([2], 0, 99, [('year_div_100', lambda v: v)]),
    'monthnum': ([2], 1, 12, [('month', lambda v: v)]),
    'day': ([1, 2, 3], 1, 31, [('day', lambda v: v)]),      # `day` takes any digit count
    'fullday': ([2], 1, 31, [('day', lambda v: v)]),
    'min': ([2], 0, 59, [('minute', lambda v: v)]),          # a minute is 0..59 (the table once said 60, copied from the code: F27)
    'ordinal': ([3], 1, 366, [('ordinal', lambda v: v)]),
    'isoyear': ([4], 0, 9999, [('isoyear', lambda v: v)]),
    'isoweek': ([2], 1, 53, [('isoweek', lambda v: v)]),
    'hour24': ([2], 0, 23, [('hour_div_12', lambda v: v / 12), ('hour_mod_12', lambda v: v % 12)]),
    'hour12': ([2], 1, 12, [('hour_mod_12', lambda v: v % 12)]),
    'sec': ([2], 0, 60, [('second', lambda v: v)]),
}


def digits(ex, I, tag, n):
    cs = [I.int('%s%d' % (tag, i)) for i in range(n)]
    v = z3.IntVal(0)
    for c in cs:
        ex.assume(z3.And(c >= 48, c <= 57))
        v = v * 10 + (c - 48)
    return cs, v


def run_parse_date(ex, tokens, element):
    fields = parsed_fields()
    out = Struct('Parsed', [none(ex) for _ in fields])
    out_cell = Cell(out, 'parsed')
    tz_cell = Cell(none(ex), 'tz')
    it = PeekableV(VecIter(tokens))
    pat = Arr([variant(ex, 'DatePattern', 'Match', [element])])
    r = ex.call(None, 'parsing::datetime::parse_date', [Ref(out_cell), Ref(tz_cell), ref(it), ref(pat)])
    return r, out_cell.value, fields


def written(out, fields):
    w = {}
    for f, v in zip(fields, out.fields):
        v = deref_all(v)
        if isinstance(v, Enum) and v.variant == 1:
            w[f] = v.fields[0]
    return w


class NumericElements(Harness):
    name = 'parse_date.numeric_elements'
    props = ('C14', 'C04')
    entry_name = 'parse_date'
    loop_bound = 20
    describe = 'parse_date on one pattern element (%s) and a Number token with symbolic digits' % ', '.join(sorted(NUMERIC))
    bounds = ['one pattern element at a time; digit strings of the length the element documents (plus one wrong length)']
    expect_classes = ['Result::Ok', 'Result::Err']
    _concrete = None

    def build(self, ex, I):
        names = sorted(NUMERIC)
        el = names[ex.choose(len(names), 'element')]
        lens, lo, hi, eff = NUMERIC[el]
        options = lens + ([max(lens) + 1] if el != 'day' else [])
        n = options[ex.choose(len(options), 'digit count')]
        cs, v = digits(ex, I, 'c', n)
        tok = variant(ex, 'DateToken', 'Number', [SymStr(cs), none(ex)])
        return [tok], {'el': el, 'n': n, 'v': v}

    def entry(self, ex, args, ctx):
        r, out, fields = run_parse_date(ex, [args[0]], ctx['el'])
        ctx['out'] = out
        ctx['fields'] = fields
        return r

    def post(self, ex, ctx, outcome):
        el, n, v = ctx['el'], ctx['n'], ctx['v']
        lens, lo, hi, eff = NUMERIC[el]
        r = deref_all(outcome[1])
        valid = z3.And(v >= lo, v <= hi) if n in lens else z3.BoolVal(False)
        if is_err(r):
            return [('%s refused only for a wrong digit count or an out-of-range value' % el, z3.Not(valid))]
        w = written(ctx['out'], ctx['fields'])
        obs = [('%s accepted only for %s digits in %d..=%d' % (el, lens, lo, hi), valid)]
        want = {f: fn(v) for f, fn in eff}
        obs.append(('%s sets exactly the fields %s (set: %s)' % (el, sorted(want), sorted(w)), sorted(w) == sorted(want)))
        for f, val in want.items():
            if f in w:
                obs.append(('%s: field %s denotes the digits' % (el, f), zint(w[f]) == val))
        return obs

    def case(self, ctx, vals, label):
        c = Harness.case(self, ctx, vals, label)
        c['inputs']['el'] = ctx['el']
        return c

    def native(self, inputs, label):
        n = len([x for x in inputs if re.match(r'^c\d+$', x)])
        text = ''.join(chr(int(inputs['c%d' % i])) for i in range(n))
        return [{'mode': 'parse_date', 'element': inputs['el'], 'tokens': [{'kind': 'Number', 'text': text}]}]

    def judge(self, inputs, label, obs):
        o = obs[0]
        if o.get('outcome') != 'ok':
            return True, 'parse_date: %s %s' % (o.get('outcome'), o.get('panic', ''))
        el = inputs['el']
        text = o_text = None
        n = len([x for x in inputs if re.match(r'^c\d+$', x)])
        text = ''.join(chr(int(inputs['c%d' % i])) for i in range(n))
        lens, lo, hi, eff = NUMERIC[el]
        v = int(text)
        valid = n in lens and lo <= v <= hi
        if not o['ok']:
            return (valid, '%s on %r refused: %s' % (el, text, o.get('error')))
        if not valid:
            return True, '%s accepts %r (documented: %s digits in %d..=%d)' % (el, text, lens, lo, hi)
        want = {f: (fn(v) if not isinstance(fn(v), float) else int(fn(v))) for f, fn in eff}
        want = {f: int(x) for f, x in want.items()}
        if el == 'hour24':
            want = {'hour_div_12': v // 12, 'hour_mod_12': v % 12}
        return (o['fields'] != want), '%s on %r sets %s, documented %s' % (el, text, o['fields'], want)


class Seconds(Harness):
    name = 'parse_date.fractional_seconds'
    props = ('C14', 'C04')
    entry_name = 'parse_date'
    loop_bound = 30
    describe = 'parse_date `sec` on ss.fff... with 1..10 symbolic fraction digits'
    bounds = ['fraction of 1..10 digits']
    expect_classes = ['Result::Ok']
    _concrete = None

    def build(self, ex, I):
        k = 1 + ex.choose(10, 'fraction digits')
        ss, sv = digits(ex, I, 's', 2)
        fs, fv = digits(ex, I, 'f', k)
        tok = variant(ex, 'DateToken', 'Number', [SymStr(ss), some(ex, SymStr(fs))])
        return [tok], {'sv': sv, 'fv': fv, 'k': k}

    def entry(self, ex, args, ctx):
        r, out, fields = run_parse_date(ex, [args[0]], 'sec')
        ctx['out'] = out
        ctx['fields'] = fields
        return r

    def post(self, ex, ctx, outcome):
        r = deref_all(outcome[1])
        k, sv, fv = ctx['k'], ctx['sv'], ctx['fv']
        if is_err(r):
            return [('fractional seconds up to 9 digits are accepted', k > 9)]
        w = written(ctx['out'], ctx['fields'])
        obs = [('second and nanosecond are set', sorted(w) == ['nanosecond', 'second'])]
        if 'second' in w:
            obs.append(('second denotes ss', zint(w['second']) == sv))
        if 'nanosecond' in w and k <= 9:
            obs.append(('nanosecond = fraction * 10^(9-len)', zint(w['nanosecond']) == fv * 10 ** (9 - k)))
        if k > 9:
            obs.append(('more than 9 fraction digits cannot be a nanosecond count', False))
        else:
            obs.append(('nanosecond stays below one second', True))
        return obs

    def _text(self, inputs):
        k = len([x for x in inputs if re.match(r'^f\d+$', x)])
        return chr(int(inputs['s0'])) + chr(int(inputs['s1'])) + '.' + ''.join(chr(int(inputs['f%d' % i])) for i in range(k))

    _hard = {}

    @classmethod
    def hard_fraction(cls, k):
        """a k-digit decimal fraction whose nearest double times 1e9, truncated, is not the exact count of nanoseconds
        (found by trying candidates with Python's doubles): steers counterexamples of float-based scaling to one that is real"""
        if k not in cls._hard:
            found = None
            for n in range(1, min(10 ** k, 200000)):
                ds = str(n).rjust(k, '0')
                if int(float('0.' + ds) * 1e9) != n * 10 ** (9 - k):
                    found = ds
                    break
            cls._hard[k] = found
        return cls._hard[k]

    def prefer(self, ctx):
        k = ctx['k']
        out = []
        ds = self.hard_fraction(k) if k <= 9 else None
        if ds:
            val_ = int(ds)
            out.append(ctx['fv'] == val_)
        return out

    def native(self, inputs, label):
        t = self._text(inputs)
        ss, _, ff = t.partition('.')
        return [{'mode': 'parse_date', 'element': 'sec', 'tokens': [{'kind': 'Number', 'text': ss, 'frac': ff}]},
                {'mode': 'query', 'text': '#2020-01-01 00:00:%s#' % t}]

    def judge(self, inputs, label, obs):
        o, q = obs
        t = self._text(inputs)
        if q.get('outcome') == 'panic' or q.get('render_panic'):
            return True, '`#2020-01-01 00:00:%s#` panics: %s' % (t, q.get('panic') or q.get('render_panic'))
        if o.get('outcome') != 'ok':
            return True, 'parse_date: %s %s' % (o.get('outcome'), o.get('panic', ''))
        ss, _, ff = t.partition('.')
        if not o['ok']:
            return (len(ff) <= 9 and int(ss) <= 60), 'sec on %r refused: %s' % (t, o.get('error'))
        if len(ff) > 9:
            return True, 'sec accepts %d fraction digits: %s' % (len(ff), o['fields'])
        want = {'second': int(ss), 'nanosecond': int(ff) * 10 ** (9 - len(ff))}
        return (o['fields'] != want), 'sec on %r sets %s, documented %s' % (t, o['fields'], want)


class Offset(Harness):
    name = 'parse_date.offset'
    props = ('C14', 'C04')
    entry_name = 'parse_date'
    loop_bound = 20
    describe = 'parse_date `offset` on +hhmm / -hhmm and +hh:mm / -hh:mm with symbolic digits'
    expect_classes = ['Result::Ok', 'Result::Err']
    _concrete = None

    def build(self, ex, I):
        sign = [1, -1][ex.choose(2, 'sign')]
        form = ['compact', 'colon'][ex.choose(2, 'form')]
        st = variant(ex, 'DateToken', 'Plus' if sign == 1 else 'Dash')
        if form == 'compact':
            cs, v = digits(ex, I, 'h', 4)
            toks = [st, variant(ex, 'DateToken', 'Number', [SymStr(cs), none(ex)])]
            hh = (cs[0] - 48) * 10 + (cs[1] - 48)
            mm = (cs[2] - 48) * 10 + (cs[3] - 48)
        else:
            nh = [2, 1, 3, 5, 9, 10][ex.choose(6, 'hour digits')]
            hs, hh = digits(ex, I, 'h', nh)
            ms, mm = digits(ex, I, 'm', 2)
            toks = [st, variant(ex, 'DateToken', 'Number', [SymStr(hs), none(ex)]), variant(ex, 'DateToken', 'Colon'),
                    variant(ex, 'DateToken', 'Number', [SymStr(ms), none(ex)])]
        return toks, {'sign': sign, 'form': form, 'hh': hh, 'mm': mm, 'nh': len(hs) if form == 'colon' else 2}

    def entry(self, ex, args, ctx):
        r, out, fields = run_parse_date(ex, list(args), 'offset')
        ctx['out'] = out
        ctx['fields'] = fields
        return r

    def post(self, ex, ctx, outcome):
        r = deref_all(outcome[1])
        sign, hh, mm = ctx['sign'], ctx['hh'], ctx['mm']
        if is_err(r):
            return [('offset refused only for minutes above 59 in the colon form, or for an offset of 24 h or more',
                     z3.Or(z3.And(ctx['form'] == 'colon', mm > 59), hh * 3600 + mm * 60 >= 86400))]
        w = written(ctx['out'], ctx['fields'])
        obs = [('only the offset field is set (set: %s)' % sorted(w), sorted(w) == ['offset'])]
        if 'offset' in w:
            obs.append(('offset = sign * (hh*3600 + mm*60) seconds', zint(w['offset']) == sign * (hh * 3600 + mm * 60)))
        return obs

    def case(self, ctx, vals, label):
        c = Harness.case(self, ctx, vals, label)
        c['inputs']['sign'] = ctx['sign']
        c['inputs']['form'] = ctx['form']
        return c

    def prefer(self, ctx):
        # offsets that exist: the replay through a date literal can only tell them apart inside +-24 h
        hh, mm = ctx['hh'], ctx['mm']
        return [hh <= 12, mm <= 59, mm >= 1, hh >= 1]

    def _text(self, inputs):
        s = '+' if int(inputs['sign']) > 0 else '-'
        if inputs['form'] == 'compact':
            return s + ''.join(chr(int(inputs['h%d' % i])) for i in range(4))
        nh = len([x for x in inputs if re.match(r'^h\d+$', x)])
        return s + ''.join(chr(int(inputs['h%d' % i])) for i in range(nh)) + ':' + chr(int(inputs['m0'])) + chr(int(inputs['m1']))

    def native(self, inputs, label):
        t = self._text(inputs)
        return [{'mode': 'query', 'text': '#2020-01-01 12:00:00 %s# - #2020-01-01 12:00:00 +00:00#' % t}]

    def judge(self, inputs, label, obs):
        q = obs[0]
        t = self._text(inputs)
        if q.get('outcome') == 'panic' or q.get('render_panic'):
            return True, 'panic %s' % (q.get('panic') or q.get('render_panic'))
        if ':' in t:
            hh, mm = int(t[1:].split(':')[0]), int(t.split(':')[1])
        else:
            hh, mm = int(t[1:3]), int(t[3:])
        off = (1 if t[0] == '+' else -1) * (hh * 3600 + mm * 60)
        got = obs_number_json(q)
        if abs(off) >= 86400 or mm > 59:
            return False, 'out-of-range offset %s: %s' % (t, q.get('display'))
        want = Fraction(-off)
        return (got is None or got[0] != want), '`... %s# - ...+00:00#` = %s, expected %s s' % (t, got, want)


# --------------------------------------------------------------------------------------------------------------
# `attempt`: one date pattern against a literal, including what happens to the parsed offset afterwards.
# chrono's Parsed -> NaiveDate/NaiveTime/FixedOffset conversions are replaced by their documented contracts.

def _stub_parsed_new(ex, nc, args):
    return Struct('Parsed', [none(ex) for _ in parsed_fields()])


def _stub_naive(kind):
    def f(ex, nc, args):
        return ex.make_variant('Result', 'Ok', [Opaque(kind)])
    return f


def _stub_to_fixed_offset(ex, nc, args):
    """Parsed::to_fixed_offset: Err(NOT_ENOUGH) without an offset, Err(OUT_OF_RANGE) unless |offset| < 86400 s"""
    p = deref_all(args[0])
    off = deref_all(p.fields[parsed_fields().index('offset')])
    if off.variant == 0:
        return ex.make_variant('Result', 'Err', [Opaque('ParseError', 'NotEnough')])
    x = off.fields[0]
    if ex.branch(z3.And(zint(x) > -86400, zint(x) < 86400), 'offset within +-24h'):
        return ex.make_variant('Result', 'Ok', [Struct('FixedOffset', [x])])
    return ex.make_variant('Result', 'Err', [Opaque('ParseError', 'OutOfRange')])


def _stub_from_local(ex, nc, args):
    off = dup(deref_all(args[0]))
    return Struct('LocalResult', [mk_datetime(ex.fresh('instant', 'Int'), off)])


def _stub_earliest(ex, nc, args):
    return some(ex, deref_all(args[0]).fields[0])


def _stub_with_time(ex, nc, args):
    d = deref_all(args[0])
    return Struct('LocalResult', [mk_datetime(ex.fresh('instant', 'Int'), d.fields[1])])


class LiteralOffset(Harness):
    name = 'datetime.attempt.offset_is_honoured'
    props = ('C14', 'C04')
    entry = 'parsing::datetime::attempt'
    loop_bound = 20
    describe = ('attempt() on the pattern `offset` and a literal +hhmm / +h..h:mm with symbolic digits: the instant is built with exactly the '
                'offset written, and an offset of 24 h or more is refused instead of being replaced')
    bounds = ['pattern = [offset] alone; date and time parts replaced by chrono contracts (present / absent)', 'hours of 1..10 digits in the colon form']
    expect_classes = ['Result::Ok', 'Result::Err']
    _concrete = None
    stubs = ((r'^Parsed::new$', _stub_parsed_new, 'chrono Parsed::new -> all fields None'),
             (r'^Parsed::to_naive_time$', _stub_naive('NaiveTime'), 'chrono Parsed::to_naive_time -> Ok(opaque)'),
             (r'^Parsed::to_naive_date$', _stub_naive('NaiveDate'), 'chrono Parsed::to_naive_date -> Ok(opaque)'),
             (r'^Parsed::to_fixed_offset$', _stub_to_fixed_offset, 'chrono Parsed::to_fixed_offset -> its documented contract'),
             (r'^NaiveDate::and_time$', lambda ex, nc, a: Opaque('NaiveDateTime'), 'chrono NaiveDate::and_time -> opaque'),
             (r'from_local_datetime$', _stub_from_local, 'TimeZone::from_local_datetime -> a single instant carrying the zone it was asked for'),
             (r'^LocalResult::(earliest|single|latest)$', _stub_earliest, 'LocalResult::earliest -> Some'),
             (r'^DateTime::with_time$', _stub_with_time, 'DateTime::with_time -> keeps the zone'),
             (r'^LocalResult::unwrap$', lambda ex, nc, a: deref_all(a[0]).fields[0], 'LocalResult::unwrap'))

    def build(self, ex, I):
        sign = [1, -1][ex.choose(2, 'sign')]
        form = ['compact', 'colon'][ex.choose(2, 'form')]
        st = variant(ex, 'DateToken', 'Plus' if sign == 1 else 'Dash')
        if form == 'compact':
            cs, v = digits(ex, I, 'h', 4)
            toks = [st, variant(ex, 'DateToken', 'Number', [SymStr(cs), none(ex)])]
            hh = (cs[0] - 48) * 10 + (cs[1] - 48)
            mm = (cs[2] - 48) * 10 + (cs[3] - 48)
        else:
            nh = [2, 1, 3][ex.choose(3, 'hour digits')]
            hs, hh = digits(ex, I, 'h', nh)
            ms, mm = digits(ex, I, 'm', 2)
            toks = [st, variant(ex, 'DateToken', 'Number', [SymStr(hs), none(ex)]), variant(ex, 'DateToken', 'Colon'),
                    variant(ex, 'DateToken', 'Number', [SymStr(ms), none(ex)])]
        now = mk_datetime(I.int('now_ns'), Opaque('Local'))
        pat = Arr([variant(ex, 'DatePattern', 'Match', ['offset'])])
        return [now, ref(Arr(toks)), ref(pat)], {'sign': sign, 'form': form, 'hh': hh, 'mm': mm}

    def post(self, ex, ctx, outcome):
        r = deref_all(outcome[1])
        off = ctx['sign'] * (ctx['hh'] * 3600 + ctx['mm'] * 60)
        in_range = z3.And(off > -86400, off < 86400)
        if is_err(r):
            return [('a literal with a valid offset is accepted', z3.Or(z3.Not(in_range), z3.And(ctx['form'] == 'colon', ctx['mm'] > 59)))]
        g = deref_all(payload(r))
        obs = [('an offset of 24 h or more is refused', in_range)]
        if not (isinstance(g, Enum) and g.vname == 'Fixed'):
            return obs + [('a numeric offset yields a fixed-offset instant', False)]
        zone = deref_all(deref_all(g.fields[0]).fields[1])
        if not (isinstance(zone, Struct) and zone.name == 'FixedOffset'):
            return obs + [('the instant carries a fixed offset', False)]
        obs.append(('the instant is built with the offset that was written', zint(zone.fields[0]) == off))
        return obs

    case = Offset.case
    _text = Offset._text
    prefer = Offset.prefer

    def native(self, inputs, label):
        t = self._text(inputs)
        return [{'mode': 'query', 'text': '#2020-01-01 12:00:00 %s# - #2020-01-01 12:00:00 +00:00#' % t}]

    def judge(self, inputs, label, obs):
        q = obs[0]
        t = self._text(inputs)
        if q.get('outcome') == 'panic' or q.get('render_panic'):
            return True, 'panic %s' % (q.get('panic') or q.get('render_panic'))
        if ':' in t:
            hh, mm = int(t[1:].split(':')[0]), int(t.split(':')[1])
        else:
            hh, mm = int(t[1:3]), int(t[3:])
        off = (1 if t[0] == '+' else -1) * (hh * 3600 + mm * 60)
        got = obs_number_json(q)
        if abs(off) >= 86400 or (':' in t and mm > 59):
            return (got is not None), 'a literal with the offset %s is %s' % (t, 'accepted: %s' % q.get('display') if got is not None else 'refused')
        want = Fraction(-off)
        return (got is None or got[0] != want), '`... %s# - ...+00:00#` = %s, expected %s s' % (t, got, want)


def harnesses(tier):
    if parsed_fields() is None:
        return []
    return [NumericElements(), Seconds(), Offset(), LiteralOffset(), LiteralTimeOnly()]


# --------------------------------------------------------------------------------------------------------------
# A literal that gives only a time of day and an offset: "today" is today *in that offset*.

def _stub_to_naive_time(ex, nc, args):
    p = deref_all(args[0])
    f = parsed_fields()

    def fld(n):
        v = deref_all(p.fields[f.index(n)])
        return v.fields[0] if v.variant == 1 else None
    hd, hm, mi = fld('hour_div_12'), fld('hour_mod_12'), fld('minute')
    if hd is None or hm is None or mi is None:
        return ex.make_variant('Result', 'Err', [Opaque('ParseError', 'NotEnough')])
    se = fld('second')
    # chrono: hour_div_12 in 0..=1, hour_mod_12 in 0..=11, minute in 0..=59, second in 0..=60, else OUT_OF_RANGE
    okr = z3.And(zint(hd) >= 0, zint(hd) <= 1, zint(hm) >= 0, zint(hm) <= 11, zint(mi) >= 0, zint(mi) <= 59)
    if se is not None:
        okr = z3.And(okr, zint(se) >= 0, zint(se) <= 60)
    if not ex.branch(okr, 'time fields in range'):
        return ex.make_variant('Result', 'Err', [Opaque('ParseError', 'OutOfRange')])
    ns = (zint(hd) * 12 + zint(hm)) * 3600 * 10 ** 9 + zint(mi) * 60 * 10 ** 9 + (zint(se) * 10 ** 9 if se is not None else 0)
    return ex.make_variant('Result', 'Ok', [Struct('NaiveTime', [ns])])


class LiteralTimeOnly(Harness):
    name = 'datetime.attempt.time_only_literal'
    props = ('C14',)
    entry = 'parsing::datetime::attempt'
    loop_bound = 30
    describe = ('attempt() on the pattern `hour24:min offset` (no date) with symbolic digits and an arbitrary `now`: the instant has the time of day '
                'that was written, in the offset that was written, on the calendar day that `now` falls on in that offset')
    bounds = ['chrono by contract (day = floor((instant + offset) / 24 h)); offsets +hh:mm within +-24 h; now in an arbitrary zone']
    expect_classes = ['Result::Ok', 'Result::Err']
    _concrete = None
    stubs = ((r'^Parsed::new$', _stub_parsed_new, 'chrono Parsed::new -> all fields None'),
             (r'^Parsed::to_naive_time$', _stub_to_naive_time, 'chrono Parsed::to_naive_time -> the time of day the fields spell'),
             (r'^Parsed::to_naive_date$', lambda ex, nc, a: ex.make_variant('Result', 'Err', [Opaque('ParseError', 'NotEnough')]), 'chrono Parsed::to_naive_date -> Err (no date fields)'),
             (r'^Parsed::to_fixed_offset$', _stub_to_fixed_offset, 'chrono Parsed::to_fixed_offset -> its documented contract'))

    def build(self, ex, I):
        hs, hh = digits(ex, I, 't', 2)
        ms, mm = digits(ex, I, 'u', 2)
        os_, oh = digits(ex, I, 'h', 2)
        om_, om = digits(ex, I, 'm', 2)
        sign = [1, -1][ex.choose(2, 'sign')]
        T = lambda k, f=(): variant(ex, 'DateToken', k, list(f))
        toks = [T('Number', [SymStr(hs), none(ex)]), T('Colon'), T('Number', [SymStr(ms), none(ex)]), T('Space'),
                T('Plus' if sign == 1 else 'Dash'), T('Number', [SymStr(os_), none(ex)]), T('Colon'), T('Number', [SymStr(om_), none(ex)])]
        P = lambda k, f=(): variant(ex, 'DatePattern', k, list(f))
        pat = Arr([P('Match', ['hour24']), P('Colon'), P('Match', ['min']), P('Space'), P('Match', ['offset'])])
        now_i = I.int('now_ns')
        now_off = I.int('local_off_s')
        ex.assume(z3.And(now_off > -86400, now_off < 86400, now_i > -10 ** 18, now_i < 10 ** 18))
        now = mk_datetime(now_i, Struct('FixedOffset', [now_off]))      # the context's clock in its local zone
        return [now, ref(Arr(toks)), ref(pat)], {'hh': hh, 'mm': mm, 'oh': oh, 'om': om, 'sign': sign, 'now': now_i}

    def post(self, ex, ctx, outcome):
        r = deref_all(outcome[1])
        hh, mm, oh, om, sign, now = (ctx[k] for k in ('hh', 'mm', 'oh', 'om', 'sign', 'now'))
        off = sign * (oh * 3600 + om * 60)
        valid = z3.And(hh <= 23, mm <= 59, om <= 59, off > -86400, off < 86400)
        if is_err(r):
            return [('a well-formed time with a valid offset is accepted', z3.Not(valid))]
        g = deref_all(payload(r))
        if not (isinstance(g, Enum) and g.vname == 'Fixed'):
            return [('a numeric offset yields a fixed-offset instant', False)]
        dt = deref_all(g.fields[0])
        inst, zone = dt.fields[0], deref_all(dt.fields[1])
        DAY = 86400 * 10 ** 9
        offn = off * 10 ** 9
        local = zint(inst) + offn
        tod = (hh * 3600 + mm * 60) * 10 ** 9
        return [('accepted only when time and offset are valid', valid),
                ('the instant carries the offset that was written', zint(zone.fields[0]) == off),
                ('its time of day in that offset is the one written', local % DAY == tod),
                ('its calendar day is the day `now` falls on in that offset', local / DAY == (zint(now) + offn) / DAY)]

    def case(self, ctx, vals, label):
        c = Harness.case(self, ctx, vals, label)
        c['inputs']['sign'] = ctx['sign']
        return c

    def prefer(self, ctx):
        return [ctx['now'] == 1470180600 * 10 ** 9, ctx['hh'] == 1, ctx['mm'] == 0, ctx['oh'] == 5, ctx['om'] == 0]

    def _text(self, inputs):
        g = lambda t: ''.join(chr(int(inputs['%s%d' % (t, i)])) for i in range(2))
        return '%s:%s %s%s:%s' % (g('t'), g('u'), '+' if int(inputs['sign']) > 0 else '-', g('h'), g('m'))

    def native(self, inputs, label):
        import datetime as _dt
        now = int(inputs.get('now_ns', 0)) // 10 ** 9
        now = max(min(now, 4 * 10 ** 9), 0)
        iso = _dt.datetime.fromtimestamp(now, _dt.timezone.utc).strftime('%Y-%m-%dT%H:%M:%S+00:00')
        return [{'mode': 'query', 'now': iso, 'text': '#%s#' % self._text(inputs)},
                {'mode': 'query', 'now': '2016-08-02T23:30:00+00:00', 'text': '#01:00 +05:00#'},
                {'mode': 'query', 'now': '2016-08-02T00:30:00+00:00', 'text': '#20:00 -08:00#'}]

    def judge(self, inputs, label, obs):
        import datetime as _dt
        bad = []
        now = max(min(int(inputs.get('now_ns', 0)) // 10 ** 9, 4 * 10 ** 9), 0)
        cases = [(now, self._text(inputs)), (1470180600, '01:00 +05:00'), (1470097800, '20:00 -08:00')]
        for (n, t), o in zip(cases, obs):
            if o.get('outcome') == 'panic' or o.get('render_panic'):
                bad.append('`#%s#` panics: %s' % (t, o.get('panic') or o.get('render_panic')))
                continue
            m = re.match(r'^(\d\d):(\d\d) ([+-])(\d\d):(\d\d)$', t)
            hh, mm, sg, oh, om = int(m.group(1)), int(m.group(2)), (1 if m.group(3) == '+' else -1), int(m.group(4)), int(m.group(5))
            off = sg * (oh * 3600 + om * 60)
            if hh > 23 or mm > 59 or om > 59 or abs(off) >= 86400:
                continue
            day = (n + off) // 86400
            want = day * 86400 + hh * 3600 + mm * 60 - off
            j = o.get('json') or {}
            got = j.get('rfc3339')
            if o.get('outcome') != 'ok' or not got:
                bad.append('`#%s#` at now=%d: %s' % (t, n, o.get('display')))
                continue
            ts = int(_dt.datetime.fromisoformat(got).timestamp())
            if ts != want:
                bad.append('`#%s#` with the clock at %s UTC denotes %s, expected the instant %s UTC' % (
                    t, _dt.datetime.fromtimestamp(n, _dt.timezone.utc).isoformat(), got, _dt.datetime.fromtimestamp(want, _dt.timezone.utc).isoformat()))
        return bool(bad), '; '.join(bad[:2]) or 'time-only literals denote today in their own offset'


# --------------------------------------------------------------------------------------------------------------
# A literal that names a zone: the instant is the one whose wall-clock reading *in that zone* is the one written.

# local readings around the 2021 daylight-saving changes of four zones and the instants (unix seconds) they denote
# (IANA rules as every tz database since 2007 has them; an ambiguous reading denotes its earlier instant, readings
# inside a gap are left out)
ZONE_READINGS = [
    ('America/New_York', '2021-03-14 00:30', 1615699800), ('America/New_York', '2021-03-14 01:30', 1615703400),
    ('America/New_York', '2021-03-14 03:30', 1615707000), ('America/New_York', '2021-03-14 04:30', 1615710600),
    ('America/New_York', '2021-03-14 06:30', 1615717800), ('America/New_York', '2021-03-14 09:30', 1615728600),
    ('America/New_York', '2021-03-14 20:15', 1615767300), ('America/New_York', '2021-11-07 00:30', 1636259400),
    ('America/New_York', '2021-11-07 01:30', 1636263000), ('America/New_York', '2021-11-07 02:30', 1636270200),
    ('America/New_York', '2021-11-07 03:30', 1636273800), ('America/New_York', '2021-11-07 04:30', 1636277400),
    ('America/New_York', '2021-11-07 06:30', 1636284600), ('America/New_York', '2021-11-07 12:00', 1636304400),
    ('America/New_York', '2021-07-01 12:00', 1625155200),
    ('Europe/Berlin', '2021-03-28 00:30', 1616887800), ('Europe/Berlin', '2021-03-28 01:30', 1616891400),
    ('Europe/Berlin', '2021-03-28 03:30', 1616895000), ('Europe/Berlin', '2021-03-28 04:30', 1616898600),
    ('Europe/Berlin', '2021-03-28 12:00', 1616925600), ('Europe/Berlin', '2021-10-31 00:30', 1635633000),
    ('Europe/Berlin', '2021-10-31 01:30', 1635636600), ('Europe/Berlin', '2021-10-31 02:30', 1635640200),
    ('Europe/Berlin', '2021-10-31 03:30', 1635647400), ('Europe/Berlin', '2021-10-31 04:30', 1635651000),
    ('Australia/Sydney', '2021-04-04 01:30', 1617460200), ('Australia/Sydney', '2021-04-04 02:30', 1617463800),
    ('Australia/Sydney', '2021-04-04 03:30', 1617471000), ('Australia/Sydney', '2021-04-04 12:00', 1617501600),
    ('Australia/Sydney', '2021-10-03 01:30', 1633188600), ('Australia/Sydney', '2021-10-03 03:30', 1633192200),
    ('Australia/Sydney', '2021-10-03 09:30', 1633213800),
    ('Asia/Tokyo', '2021-03-14 02:30', 1615656600), ('Asia/Tokyo', '2021-03-14 12:00', 1615690800),
]


def _stub_tz_from_str(ex, nc, args):
    return ex.make_variant('Result', 'Ok', [Struct('Tz', [Opaque('tz_lit')])])


def _stub_to_naive_date_day(ex, nc, args):
    # the date fields are not spelled out in this harness: the date is an arbitrary calendar day (a day number)
    d = ex.env['literal_day']
    return ex.make_variant('Result', 'Ok', [Struct('NaiveDate', [d])])


class LiteralNamedZone(Harness):
    props = ('C14',)
    entry = 'parsing::datetime::attempt'
    loop_bound = 30
    expect_classes = ['Result::Ok', 'Result::Err']
    _concrete = None
    stubs = ((r'^Parsed::new$', _stub_parsed_new, 'chrono Parsed::new -> all fields None'),
             (r'^Parsed::to_naive_time$', _stub_to_naive_time, 'chrono Parsed::to_naive_time -> the time of day the fields spell'),
             (r'^Parsed::to_naive_date$', _stub_to_naive_date_day, 'chrono Parsed::to_naive_date -> Ok(an arbitrary day)'),
             (r'^<Tz as FromStr>::from_str$', _stub_tz_from_str, 'chrono_tz Tz::from_str -> Ok(an abstract named zone)'))

    def __init__(self, kind):
        self.kind = kind
        self.name = 'datetime.attempt.%s_literal' % ('named_zone' if kind == 'named' else 'dated_time')
        where = 'in the named zone' if kind == 'named' else 'in UTC (no offset written)'
        self.describe = ('attempt() on `hour24:min%s` with symbolic digits on an arbitrary calendar day: the instant returned has, %s, exactly the '
                         'wall-clock reading that was written%s; a literal whose time fields are out of range is refused, not read as another time') % (
            ' <zone name>' if kind == 'named' else '', where,
            ' (the zone is abstract: any offset function of the instant, so every daylight-saving rule at once), and a reading is refused only if no '
            'instant has it' if kind == 'named' else '')
        self.bounds = ['date fields replaced by an arbitrary day number (chrono Parsed::to_naive_date by contract); zone offsets are whole seconds within '
                       '+-24 h; chrono TimeZone::from_local_datetime / offset_from_utc_datetime / from_utc_datetime by their documented contracts']

    def build(self, ex, I):
        hs, hh = digits(ex, I, 't', 2)
        ms, mm = digits(ex, I, 'u', 2)
        T = lambda k, f=(): variant(ex, 'DateToken', k, list(f))
        P = lambda k, f=(): variant(ex, 'DatePattern', k, list(f))
        toks = [T('Number', [SymStr(hs), none(ex)]), T('Colon'), T('Number', [SymStr(ms), none(ex)])]
        pat = [P('Match', ['hour24']), P('Colon'), P('Match', ['min'])]
        if self.kind == 'named':
            toks += [T('Space'), T('Literal', ['Some/Zone'])]
            pat += [P('Space'), P('Match', ['offset'])]
        day = I.int('day')
        ex.assume(z3.And(day > -10 ** 6, day < 10 ** 6))
        ex.env['literal_day'] = day
        ex.env['tz_gap_taken'] = False
        now = mk_datetime(I.int('now_ns'), Struct('FixedOffset', [0]))
        return [now, ref(Arr(toks)), ref(Arr(pat))], {'hh': hh, 'mm': mm, 'day': day}

    def post(self, ex, ctx, outcome):
        r = deref_all(outcome[1])
        hh, mm, day = ctx['hh'], ctx['mm'], ctx['day']
        valid = z3.And(hh <= 23, mm <= 59)
        if is_err(r):
            # refusing is right when the fields are out of range or the zone has no such reading (the contract's gap branch)
            gap = bool(ex.env.get('tz_gap_taken'))
            return [('a reading that exists is accepted', True if gap else z3.Not(valid))]
        g = deref_all(payload(r))
        want_variant = 'Timezone' if self.kind == 'named' else 'Fixed'
        if not (isinstance(g, Enum) and g.vname == want_variant):
            return [('the literal yields an instant in the zone it names', False)]
        dt = deref_all(g.fields[0])
        inst, zone = dt.fields[0], deref_all(dt.fields[1])
        if not (isinstance(zone, Struct) and zone.name == ('Tz' if self.kind == 'named' else 'FixedOffset')):
            return [('the instant carries the zone that was written', False)]
        from mirsym.lib import zone_offset_ns
        local = zint(inst) + zint(zone_offset_ns(ex, zone, inst))
        want = zint(day) * 86400 * 10 ** 9 + (hh * 3600 + mm * 60) * 10 ** 9
        return [('accepted only when the time fields are valid', valid),
                ('the wall-clock reading of the instant is the one written', local == want)]

    def prefer(self, ctx):
        return [ctx['hh'] == 12, ctx['mm'] == 60]

    def _hm(self, inputs):
        g = lambda t: ''.join(chr(int(inputs['%s%d' % (t, i)])) for i in range(2))
        return g('t'), g('u')

    def native(self, inputs, label):
        h, m = self._hm(inputs)
        zone = ' America/New_York' if self.kind == 'named' else ''
        reqs = [{'mode': 'query', 'text': '#2021-07-01 %s:%s%s# - #1970-01-01 00:00:00 +00:00#' % (h, m, zone)}]
        if self.kind == 'named':
            reqs += [{'mode': 'query', 'text': '#%s %s# - #1970-01-01 00:00:00 +00:00#' % (t, z)} for z, t, _ in ZONE_READINGS]
        return reqs

    def judge(self, inputs, label, obs):
        bad = []
        h, m = self._hm(inputs)
        o = obs[0]
        lit = '#2021-07-01 %s:%s%s#' % (h, m, ' America/New_York' if self.kind == 'named' else '')
        got = obs_number_json(o)
        if o.get('outcome') == 'panic' or o.get('render_panic'):
            bad.append('`%s` panics: %s' % (lit, o.get('panic') or o.get('render_panic')))
        elif int(h) > 23 or int(m) > 59:
            if got is not None:
                bad.append('`%s` is accepted and read as the instant %s s after the epoch' % (lit, got[0]))
        else:
            want = (1625112000 if self.kind == 'named' else 1625097600) + int(h) * 3600 + int(m) * 60
            if got is None or got[0] != want:
                bad.append('`%s` is %s, expected %d s after the epoch' % (lit, got[0] if got else o.get('display'), want))
        for (z, t, want), o in zip(ZONE_READINGS, obs[1:]):
            if o.get('outcome') == 'panic' or o.get('render_panic'):
                bad.append('`#%s %s#` panics: %s' % (t, z, o.get('panic') or o.get('render_panic')))
                continue
            got = obs_number_json(o)
            if got is None or got[0] != want:
                bad.append('`#%s %s#` is %s s after the epoch, its reading in that zone denotes %d' % (t, z, got[0] if got else o.get('display'), want))
        return bool(bad), '; '.join(bad[:3]) or 'the literal and readings around the 2021 daylight-saving changes of four zones denote the right instants'


_c14d_prev = harnesses


def harnesses(tier):   # noqa: F811
    hs = _c14d_prev(tier)
    return hs + [LiteralNamedZone('named'), LiteralNamedZone('utc')] if hs else hs
