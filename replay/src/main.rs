//! Native observer for replay and translator validation.
//!
//! Reads a JSON array of requests from the file given as argv[1], prints a JSON array of
//! observations.  It contains no oracle: it only reports what the real code does (value, error,
//! panic) so that the Python side can compare with the solver's model / the textbook value.
use rink_core::output::fmt::TokenFmt;
use rink_core::types::{BaseUnit, BigInt, BigRat, Dimensionality, Number, Numeric};
use serde_json::{json, Value as J};
use std::panic::{catch_unwind, AssertUnwindSafe};

fn big(s: &str) -> BigInt {
    BigInt::from_str_radix(s, 10).expect("decimal integer")
}

/// "n/d" or "n"
fn rat(s: &str) -> BigRat {
    let mut it = s.split('/');
    let n = big(it.next().unwrap().trim());
    let d = it.next().map(|x| big(x.trim())).unwrap_or_else(BigInt::one);
    BigRat::ratio(&n, &d)
}

fn numeric(j: &J) -> Numeric {
    match j {
        J::String(s) if s.starts_with("float:") => Numeric::Float(match &s[6..] {
            "nan" => f64::NAN,
            "inf" => f64::INFINITY,
            "-inf" => f64::NEG_INFINITY,
            x => x.parse::<f64>().unwrap(),
        }),
        J::String(s) => Numeric::Rational(rat(s)),
        J::Number(n) => Numeric::Rational(rat(&n.to_string())),
        _ => panic!("bad numeric {}", j),
    }
}

fn dims(j: &J) -> Dimensionality {
    let mut d = Dimensionality::new();
    if let Some(o) = j.as_object() {
        // go through FromIterator (pub) - insert() is crate-private
        let v: Vec<(BaseUnit, i64)> = o
            .iter()
            .map(|(k, v)| (BaseUnit::new(k), v.as_i64().or_else(|| v.as_str().and_then(|s| s.parse().ok())).unwrap()))
            .collect();
        d = v.into_iter().collect();
    }
    d
}

fn number(j: &J) -> Number {
    Number { value: numeric(&j["value"]), unit: dims(&j["unit"]) }
}

fn out_numeric(n: &Numeric) -> J {
    match n {
        Numeric::Rational(r) => json!(format!("{}/{}", r.numer(), r.denom())),
        Numeric::Float(f) => json!(format!("float:{}", if f.is_nan() { "nan".to_string() } else { format!("{:e}", f) })),
    }
}

fn out_dims(d: &Dimensionality) -> J {
    let mut m = serde_json::Map::new();
    for (k, v) in d.iter() {
        m.insert(k.to_string(), json!(*v));
    }
    J::Object(m)
}

fn out_number(n: &Number) -> J {
    json!({"value": out_numeric(&n.value), "unit": out_dims(&n.unit)})
}

fn panic_msg(e: Box<dyn std::any::Any + Send>) -> String {
    if let Some(s) = e.downcast_ref::<&str>() {
        s.to_string()
    } else if let Some(s) = e.downcast_ref::<String>() {
        s.clone()
    } else {
        "<non-string panic>".to_string()
    }
}

fn guarded<F: FnOnce() -> J>(f: F) -> J {
    match catch_unwind(AssertUnwindSafe(f)) {
        Ok(j) => j,
        Err(e) => json!({"outcome": "panic", "panic": panic_msg(e)}),
    }
}

fn res_number(r: Result<Number, String>) -> J {
    match r {
        Ok(n) => json!({"outcome": "ok", "number": out_number(&n)}),
        Err(e) => json!({"outcome": "err", "error": e}),
    }
}

fn opt_number(r: Option<Number>) -> J {
    match r {
        Some(n) => json!({"outcome": "ok", "number": out_number(&n)}),
        None => json!({"outcome": "none"}),
    }
}

/// evaluate query text through the public API, then render in every output form
fn run_query(ctx: &mut rink_core::Context, text: &str) -> J {
    run_query_clock(ctx, text, false)
}

/// `fixed_clock`: evaluate without `Context::update_time` (the request has set the clock)
fn run_query_clock(ctx: &mut rink_core::Context, text: &str, fixed_clock: bool) -> J {
    let ev = catch_unwind(AssertUnwindSafe(|| {
        if fixed_clock {
            let mut iter = rink_core::parsing::text_query::TokenIterator::new(text.trim()).peekable();
            let expr = rink_core::parsing::text_query::parse_query(&mut iter);
            ctx.eval_query(&expr)
        } else {
            rink_core::eval(ctx, text)
        }
    }));
    let res = match ev {
        Ok(r) => r,
        Err(e) => return json!({"outcome": "panic", "stage": "eval", "panic": panic_msg(e)}),
    };
    let mut o = serde_json::Map::new();
    o.insert("outcome".into(), json!(if res.is_ok() { "ok" } else { "err" }));
    let disp = catch_unwind(AssertUnwindSafe(|| match &res {
        Ok(v) => v.to_string(),
        Err(e) => e.to_string(),
    }));
    match disp {
        Ok(s) => {
            o.insert("display".into(), json!(s));
        }
        Err(e) => {
            o.insert("render_panic".into(), json!(format!("display: {}", panic_msg(e))));
        }
    }
    let spans = catch_unwind(AssertUnwindSafe(|| {
        let sp = res.to_spans();
        let mut s = String::new();
        fn walk(out: &mut String, spans: &[rink_core::output::fmt::Span]) {
            for sp in spans {
                match sp {
                    rink_core::output::fmt::Span::Content { text, .. } => out.push_str(text),
                    rink_core::output::fmt::Span::Child(c) => walk(out, &c.to_spans()),
                }
            }
        }
        walk(&mut s, &sp);
        s
    }));
    match spans {
        Ok(s) => {
            o.insert("spans".into(), json!(s));
        }
        Err(e) => {
            o.insert("render_panic".into(), json!(format!("spans: {}", panic_msg(e))));
        }
    }
    let js = catch_unwind(AssertUnwindSafe(|| match &res {
        Ok(v) => serde_json::to_value(v).map_err(|e| e.to_string()),
        Err(e) => serde_json::to_value(e).map_err(|e| e.to_string()),
    }));
    match js {
        Ok(Ok(v)) => {
            o.insert("json".into(), v);
        }
        Ok(Err(e)) => {
            o.insert("json_error".into(), json!(e));
        }
        Err(e) => {
            o.insert("render_panic".into(), json!(format!("json: {}", panic_msg(e))));
        }
    }
    J::Object(o)
}

fn handle(ctx: &mut rink_core::Context, req: &J) -> J {
    let mode = req["mode"].as_str().unwrap_or("");
    match mode {
        "query" => {
            if let Some(ans) = req.get("ans") {
                if !ans.is_null() {
                    ctx.previous_result = Some(number(ans));
                }
            }
            if let Some(flag) = req.get("save_previous_result").and_then(|x| x.as_bool()) {
                ctx.save_previous_result = flag;
            }
            if let Some(now) = req.get("now").and_then(|x| x.as_str()) {
                // the context's clock (eval() would overwrite it, so such requests go through eval_query below)
                if let Ok(t) = chrono::DateTime::parse_from_rfc3339(now) {
                    ctx.set_time(t.with_timezone(&chrono::Local));
                }
            }
            let humanize_before = ctx.use_humanize;
            if let Some(flag) = req.get("use_humanize").and_then(|x| x.as_bool()) {
                ctx.use_humanize = flag;
            }
            let mut last = J::Null;
            if let Some(pre) = req.get("pre").and_then(|p| p.as_array()) {
                let via_one_line = req.get("one_line").and_then(|x| x.as_bool()).unwrap_or(false);
                for p in pre {
                    if via_one_line {
                        let _ = catch_unwind(AssertUnwindSafe(|| rink_core::one_line(ctx, p.as_str().unwrap())));
                    } else {
                        last = run_query(ctx, p.as_str().unwrap());
                    }
                }
            }
            let _ = last;
            let mut r = run_query_clock(ctx, req["text"].as_str().unwrap(), req.get("now").is_some());
            if let Some(o) = r.as_object_mut() {
                o.insert(
                    "previous_result".into(),
                    match &ctx.previous_result {
                        Some(n) => out_number(n),
                        None => J::Null,
                    },
                );
            }
            if let Some(o) = r.as_object_mut() {
                o.insert("ctx_use_humanize".into(), json!(ctx.use_humanize));
                o.insert("ctx_save_previous_result".into(), json!(ctx.save_previous_result));
            }
            // leave the shared context clean for the next request
            ctx.previous_result = None;
            ctx.save_previous_result = false;
            ctx.use_humanize = humanize_before;
            r
        }
        "numeric_op" => guarded(|| {
            let a = numeric(&req["a"]);
            let op = req["op"].as_str().unwrap();
            let b = req.get("b").filter(|x| !x.is_null()).map(numeric);
            let r = match op {
                "add" => out_numeric(&(&a + b.as_ref().unwrap())),
                "sub" => out_numeric(&(&a - b.as_ref().unwrap())),
                "mul" => out_numeric(&(&a * b.as_ref().unwrap())),
                "div" => out_numeric(&(&a / b.as_ref().unwrap())),
                "rem" => out_numeric(&(&a % b.as_ref().unwrap())),
                "neg" => out_numeric(&(-&a)),
                "abs" => out_numeric(&a.abs()),
                "div_rem" => {
                    let (q, r) = a.div_rem(b.as_ref().unwrap());
                    json!([out_numeric(&q), out_numeric(&r)])
                }
                "pow" => out_numeric(&a.pow(req["exp"].as_i64().unwrap() as i32)),
                "to_int" => json!(a.to_int()),
                "cmp" => json!(a.partial_cmp(b.as_ref().unwrap()).map(|o| o as i8)),
                _ => panic!("unknown numeric op {}", op),
            };
            json!({"outcome": "ok", "result": r})
        }),
        "number_op" => guarded(|| {
            let a = number(&req["a"]);
            let op = req["op"].as_str().unwrap();
            let b = req.get("b").filter(|x| !x.is_null()).map(number);
            let bb = || b.as_ref().unwrap();
            match op {
                "add" => opt_number(&a + bb()),
                "sub" => opt_number(&a - bb()),
                "mul" => opt_number(&a * bb()),
                "div" => opt_number(&a / bb()),
                "neg" => opt_number(-&a),
                "rem" => res_number(a.rem(bb())),
                "pow" => res_number(a.pow(bb())),
                "shl" => res_number(a.shl(bb())),
                "shr" => res_number(a.shr(bb())),
                "and" => res_number(a.and(bb())),
                "or" => res_number(a.or(bb())),
                "xor" => res_number(a.xor(bb())),
                "invert" => json!({"outcome": "ok", "number": out_number(&a.invert())}),
                "powi" => json!({"outcome": "ok", "number": out_number(&a.powi(req["exp"].as_i64().unwrap() as i32))}),
                "root" => res_number(a.root(req["exp"].as_i64().unwrap() as i32)),
                _ => panic!("unknown number op {}", op),
            }
        }),
        "from_parts" => guarded(|| {
            let r = Number::from_parts(
                req["int"].as_str().unwrap(),
                req.get("frac").and_then(|x| x.as_str()),
                req.get("exp").and_then(|x| x.as_str()),
            );
            match r {
                Ok(n) => json!({"outcome": "ok", "result": out_numeric(&n)}),
                Err(e) => json!({"outcome": "err", "error": e}),
            }
        }),
        "to_duration" => guarded(|| {
            let n = number(&req["a"]);
            match rink_core::parsing::datetime::to_duration(&n) {
                Ok(d) => {
                    let back = rink_core::parsing::datetime::from_duration(&d);
                    json!({"outcome": "ok",
                           "ns": d.num_nanoseconds().map(|x| x.to_string()),
                           "ms": d.num_milliseconds().to_string(),
                           "subsec_ns": d.subsec_nanos(),
                           "secs": d.num_seconds().to_string(),
                           "back": match back { Ok(n) => out_number(&n), Err(e) => json!({"error": e}) }})
                }
                Err(e) => json!({"outcome": "err", "error": e}),
            }
        }),
        "from_duration" => guarded(|| {
            // total nanoseconds as a decimal string (may exceed i64): split like chrono does
            let total: i128 = req["ns"].as_str().unwrap().parse().unwrap();
            let secs = (total / 1_000_000_000) as i64;
            let sub = (total % 1_000_000_000) as i64;
            let d = chrono::TimeDelta::try_seconds(secs).expect("seconds in range") + chrono::TimeDelta::nanoseconds(sub);
            match rink_core::parsing::datetime::from_duration(&d) {
                Ok(n) => json!({"outcome": "ok", "number": out_number(&n)}),
                Err(e) => json!({"outcome": "err", "error": e}),
            }
        }),
        "lookup" => guarded(|| {
            let name = req["name"].as_str().unwrap();
            json!({"outcome": "ok",
                   "lookup": ctx.lookup(name).map(|n| out_number(&n)),
                   "canonicalize": ctx.canonicalize(name)})
        }),
        "lookup_seq" => guarded(|| {
            // a fresh context over a synthetic database: the universe a solver model describes
            let mut c = rink_core::Context::new();
            for b in req["bases"].as_array().unwrap() {
                c.registry.base_units.insert(BaseUnit::new(b.as_str().unwrap()));
            }
            for (k, v) in req["units"].as_object().unwrap() {
                let d: Dimensionality = vec![(BaseUnit::new(&format!("u_{}", k)), 1i64)].into_iter().collect();
                c.registry.units.insert(k.clone(), Number { value: numeric(v), unit: d });
            }
            for p in req["prefixes"].as_array().unwrap() {
                c.registry.prefixes.push((p[0].as_str().unwrap().to_string(), numeric(&p[1])));
            }
            // aliases: a unit carrying another unit's dimension tag; definitions: name -> unit name, or null for a
            // non-alias definition
            let plain = req.get("plain_dims").and_then(|x| x.as_bool()).unwrap_or(false);
            if let Some(al) = req.get("unit_dims").and_then(|x| x.as_object()) {
                for (k, stem) in al {
                    if let Some(n) = c.registry.units.get_mut(k) {
                        let d = if plain { stem.as_str().unwrap().to_string() } else { format!("u_{}", stem.as_str().unwrap()) };
                        n.unit = vec![(BaseUnit::new(&d), 1i64)].into_iter().collect();
                    }
                }
            }
            // base-unit long names as the loader files them: long name map, alias unit, alias definition
            if let Some(ln) = req.get("long_names").and_then(|x| x.as_object()) {
                for (k, long) in ln {
                    let long = long.as_str().unwrap().to_string();
                    c.registry.base_unit_long_names.insert(k.clone(), long.clone());
                    c.registry.definitions.insert(long.clone(), rink_core::ast::Expr::new_unit(k.clone()));
                    c.registry.units.insert(long, Number::one_unit(BaseUnit::new(k)));
                }
            }
            if let Some(defs) = req.get("definitions").and_then(|x| x.as_object()) {
                for (k, target) in defs {
                    let e = match target.as_str() {
                        Some(t) => rink_core::ast::Expr::new_unit(t.to_string()),
                        None => rink_core::ast::Expr::new_const(Numeric::one()),
                    };
                    c.registry.definitions.insert(k.clone(), e);
                }
            }
            if let Some(pv) = req.get("prev").filter(|x| !x.is_null()) {
                let d: Dimensionality = vec![(BaseUnit::new("u_ans"), 1i64)].into_iter().collect();
                c.previous_result = Some(Number { value: numeric(pv), unit: d });
            }
            let mut outs = vec![];
            for n in req["names"].as_array().unwrap() {
                let n = n.as_str().unwrap();
                let canon = c.canonicalize(n);
                outs.push(json!({"name": n, "lookup": c.lookup(n).map(|x| out_number(&x)),
                                 "lookup_canon": canon.as_ref().and_then(|k| c.lookup(k)).map(|x| out_number(&x)),
                                 "canonicalize": canon}));
            }
            // definition queries (`name` alone) through eval_query on the synthetic database
            let mut defs = vec![];
            if let Some(names) = req.get("define").and_then(|x| x.as_array()) {
                for n in names {
                    let q = rink_core::ast::Query::Expr(rink_core::ast::Expr::new_unit(n.as_str().unwrap().to_string()));
                    let r = catch_unwind(AssertUnwindSafe(|| c.eval_query(&q)));
                    defs.push(match r {
                        Ok(Ok(reply)) => json!({"outcome": "ok", "display": reply.to_string()}),
                        Ok(Err(e)) => json!({"outcome": "err", "display": e.to_string()}),
                        Err(p) => json!({"outcome": "panic", "panic": panic_msg(p)}),
                    });
                }
            }
            json!({"outcome": "ok", "lookups": outs, "defines": defs})
        }),
        "pretty_unit" => guarded(|| {
            // Number::pretty_unit (pub) on a context whose derived-unit table and long names come from the request
            let mut c = rink_core::Context::new();
            for (name, dims) in req["derived"].as_object().unwrap() {
                let d: Dimensionality = dims.as_object().unwrap().iter()
                    .map(|(k, e)| (BaseUnit::new(k), e.as_i64().unwrap())).collect();
                c.registry.decomposition_units.insert(d, name.clone());
            }
            for (k, long) in req["long_names"].as_object().unwrap() {
                c.registry.base_unit_long_names.insert(k.clone(), long.as_str().unwrap().to_string());
            }
            let n = number(&req["number"]);
            let d = n.with_pretty_unit(&c).unit;
            let m: serde_json::Map<String, J> = d.iter().map(|(k, e)| (k.to_string(), json!(*e))).collect();
            json!({"outcome": "ok", "unit": m})
        }),
        "rat_to_string" => guarded(|| {
            // BigRat::to_string / to_scientific at the unit level (both pub): (exact flag, numeral text)
            use rink_core::output::Digits;
            let v = rat(req["v"].as_str().unwrap());
            let base = req["base"].as_u64().unwrap() as u8;
            let digits = match &req["digits"] {
                J::String(s) => match s.as_str() {
                    "Default" => Digits::Default,
                    "FullInt" => Digits::FullInt,
                    "Fraction" => Digits::Fraction,
                    "Scientific" => Digits::Scientific,
                    "Engineering" => Digits::Engineering,
                    x => Digits::Digits(x.parse().unwrap()),
                },
                J::Number(n) => Digits::Digits(n.as_u64().unwrap()),
                _ => Digits::Default,
            };
            let (exact, text) = if req["fn"].as_str() == Some("to_scientific") {
                v.to_scientific(base, digits)
            } else {
                v.to_string(base, digits)
            };
            json!({"outcome": "ok", "exact": exact, "text": text})
        }),
        "parse_date" => guarded(|| {
            // one pattern element of parse_date (pub) on a token list; reports which Parsed fields were written
            use rink_core::ast::{DatePattern, DateToken};
            let toks: Vec<DateToken> = req["tokens"].as_array().unwrap().iter().map(|t| {
                let text = || t["text"].as_str().unwrap_or("").to_string();
                match t["kind"].as_str().unwrap() {
                    "Number" => DateToken::Number(text(), t.get("frac").and_then(|x| x.as_str()).map(|x| x.to_string())),
                    "Literal" => DateToken::Literal(text()),
                    "Colon" => DateToken::Colon,
                    "Dash" => DateToken::Dash,
                    "Space" => DateToken::Space,
                    "Plus" => DateToken::Plus,
                    _ => DateToken::Error(text()),
                }
            }).collect();
            let pat = vec![DatePattern::Match(req["element"].as_str().unwrap().to_string())];
            let mut out = chrono::format::Parsed::new();
            let mut tz = None;
            let mut it = toks.into_iter().peekable();
            let r = rink_core::parsing::datetime::parse_date(&mut out, &mut tz, &mut it, &pat);
            let mut f = serde_json::Map::new();
            macro_rules! fld { ($($n:ident),*) => { $( if let Some(x) = out.$n { f.insert(stringify!($n).to_string(), json!(x as i64)); } )* } }
            fld!(year, year_div_100, year_mod_100, isoyear, isoyear_div_100, isoyear_mod_100, month, week_from_sun, week_from_mon,
                 isoweek, ordinal, day, hour_div_12, hour_mod_12, minute, second, nanosecond, timestamp, offset);
            if out.weekday.is_some() { f.insert("weekday".to_string(), json!(format!("{:?}", out.weekday.unwrap()))); }
            json!({"outcome": "ok", "ok": r.is_ok(), "error": r.err(), "fields": f, "tz": tz.map(|z| format!("{:?}", z)), "rest": it.count()})
        }),
        "substance_get" => guarded(|| {
            // Substance::get (and optionally `substance * k` first) on a substance built from a solver model
            use rink_core::runtime::{Properties, Property, Substance, SubstanceGetError};
            let mut props = std::collections::BTreeMap::new();
            for (k, p) in req["props"].as_object().unwrap() {
                props.insert(k.clone(), Property {
                    input: number(&p["input"]),
                    input_name: p["input_name"].as_str().unwrap().to_string(),
                    output: number(&p["output"]),
                    output_name: p["output_name"].as_str().unwrap().to_string(),
                    doc: None,
                });
            }
            let mut s = Substance {
                amount: number(&req["amount"]),
                properties: std::sync::Arc::new(Properties { name: "stuff".to_string(), properties: props }),
            };
            if let Some(k) = req.get("k").filter(|x| !x.is_null()) {
                let kn = Number { value: numeric(k), unit: Dimensionality::new() };
                match &s * &kn {
                    Ok(s2) => s = s2,
                    Err(e) => return json!({"outcome": "ok", "mul_error": e}),
                }
            }
            if let Some(k) = req.get("knum").filter(|x| !x.is_null()) {
                let kn = number(k);
                match &s * &kn {
                    Ok(s2) => s = s2,
                    Err(e) => return json!({"outcome": "ok", "mul_error": e}),
                }
            }
            if let Some(k) = req.get("kdiv").filter(|x| !x.is_null()) {
                let kn = Number { value: numeric(k), unit: Dimensionality::new() };
                match &s / &kn {
                    Ok(s2) => s = s2,
                    Err(e) => return json!({"outcome": "ok", "mul_error": e}),
                }
            }
            let amount = out_number(&s.amount);
            match s.get(req["q"].as_str().unwrap()) {
                Ok(n) => json!({"outcome": "ok", "amount": amount, "ok": true, "number": out_number(&n)}),
                Err(SubstanceGetError::Generic(e)) => json!({"outcome": "ok", "amount": amount, "ok": false, "kind": "generic", "error": e}),
                Err(SubstanceGetError::Conformance(l, r)) => json!({"outcome": "ok", "amount": amount, "ok": false, "kind": "conformance",
                                                                    "left": out_number(&l), "right": out_number(&r)}),
            }
        }),
        "formula" => guarded(|| {
            // substance_from_formula (pub) over a symbol table built from the request
            use rink_core::runtime::{Properties, Property, Substance};
            let mut symbols = std::collections::BTreeMap::new();
            let mut substances = std::collections::BTreeMap::new();
            for (sym, e) in req["elements"].as_object().unwrap() {
                let name = e["name"].as_str().unwrap().to_string();
                let mut props = std::collections::BTreeMap::new();
                let unit: Dimensionality = vec![(BaseUnit::new("kg"), 1i64), (BaseUnit::new("mol"), -1i64)].into_iter().collect();
                props.insert("molar_mass".to_string(), Property {
                    input: Number::one(),
                    input_name: "amount".to_string(),
                    output: Number { value: numeric(&e["mass"]), unit },
                    output_name: "mass".to_string(),
                    doc: None,
                });
                symbols.insert(sym.clone(), name.clone());
                substances.insert(name.clone(), Substance {
                    amount: Number::one(),
                    properties: std::sync::Arc::new(Properties { name, properties: props }),
                });
            }
            match rink_core::parsing::formula::substance_from_formula(req["text"].as_str().unwrap(), &symbols, &substances) {
                Some(s) => json!({"outcome": "ok", "some": true,
                                  "molar_mass": s.properties.properties.get("molar_mass").map(|p| out_number(&p.output))}),
                None => json!({"outcome": "ok", "some": false}),
            }
        }),
        "canon_roundtrip" => guarded(|| {
            let name = req["name"].as_str().unwrap();
            let canon = ctx.canonicalize(name);
            json!({"outcome": "ok",
                   "lookup": ctx.lookup(name).map(|n| out_number(&n)),
                   "canonicalize": canon,
                   "lookup_canon": canon.as_ref().and_then(|c| ctx.lookup(c)).map(|n| out_number(&n))})
        }),
        "dump_prefixes" => guarded(|| {
            let v: Vec<J> = ctx.registry.prefixes.iter().map(|(k, v)| json!([k, out_numeric(v)])).collect();
            json!({"outcome": "ok", "prefixes": v})
        }),
        "dump_units" => guarded(|| {
            let names = req["names"].as_array().unwrap();
            let mut m = serde_json::Map::new();
            for n in names {
                let n = n.as_str().unwrap();
                m.insert(n.to_string(), ctx.lookup(n).map(|x| out_number(&x)).unwrap_or(J::Null));
            }
            json!({"outcome": "ok", "units": m})
        }),
        _ => json!({"outcome": "bad-request", "mode": mode}),
    }
}

fn main() {
    let path = std::env::args().nth(1).expect("usage: rink_replay <requests.json>");
    let text = std::fs::read_to_string(&path).expect("read requests");
    let reqs: J = serde_json::from_str(&text).expect("parse requests");
    std::panic::set_hook(Box::new(|_| {}));
    let mut ctx = rink_core::simple_context().expect("context");
    ctx.use_humanize = false;
    let mut out = vec![];
    for r in reqs.as_array().expect("array") {
        let mut o = handle(&mut ctx, r);
        if let (Some(obj), Some(id)) = (o.as_object_mut(), r.get("id")) {
            obj.insert("id".into(), id.clone());
        }
        out.push(o);
    }
    println!("{}", serde_json::to_string(&J::Array(out)).unwrap());
}
