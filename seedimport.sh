#!/bin/bash
# usage: seedimport.sh <round tag> <property id>...   copies /tmp/seed/<id>/SEED/{1,2} to seeded/<id>_<tag>_<k> and confirms each
TAG=$1; shift
for P in "$@"; do
  for k in 1 2; do
    src=/tmp/seed/$P/SEED/$k
    [ -f $src/patch.diff ] || { echo "MISSING $P $k"; continue; }
    dst=/verif/seeded/${P}_${TAG}_$k
    mkdir -p $dst
    cp $src/patch.diff $src/meta.json $dst/
    if [ -f $src/demo_test.rs ]; then cp $src/demo_test.rs $dst/; else echo "NO demo_test.rs in $src: $(ls $src)"; fi
    /verif/seedtest.sh ${P}_${TAG}_$k confirm | tail -1
  done
done
