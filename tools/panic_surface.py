"""Static survey of the panic surface of rink-core from its MIR: which functions reachable from the query entry points
contain a panic site (MIR assert, unwrap/expect, explicit panic, indexing), and which of them no C04 harness enters.
A reading aid for deciding where to extend the harnesses - not a check."""
import json, os, re, sys
sys.path.insert(0, os.path.dirname(os.path.dirname(os.path.abspath(__file__))))
from mirsym.run import load_program

ENTRY = ['helpers::eval', 'helpers::one_line', 'Context::eval_query', 'eval_query', 'parse_query']
PANIC_CALL = re.compile(r'(Option::<.*>::unwrap$|Option::<.*>::expect$|Result::<.*>::unwrap$|Result::<.*>::expect$|panicking::|'
                        r'panic_fmt|begin_panic|unwrap_failed|expect_failed|as Index<|as IndexMut<|slice_index|::split_at$|LocalResult::<.*>::unwrap$)')


def main():
    prog = load_program()
    fns = prog.fns if hasattr(prog, 'fns') else prog.functions
    sites, calls = {}, {}
    for name, fn in fns.items():
        try:
            fn.parse()
        except Exception:
            continue
        s, c = [], set()
        for bi, b in fn.blocks.items():
            if b.cleanup:
                continue
            for t in b.raw:
                if t.startswith('assert('):
                    m = re.search(r'"([^"]*)"', t)
                    s.append('assert: ' + (m.group(1) if m else t[:60]))
                m = re.match(r'^(?:_\d+(?:\.\d+)* = |\(\*_\d+\)(?:\.\d+)* = )?(.+?)\((.*)\) -> ', t)
                if m and '->' in t and not t.startswith('assert('):
                    callee = m.group(1)
                    c.add(callee)
                    if PANIC_CALL.search(callee):
                        s.append('call: ' + callee[:90])
                if t.startswith('unreachable'):
                    pass
        sites[name] = s
        calls[name] = c
    # resolve callees to crate functions
    resolved = {}
    for name, cs in calls.items():
        out = set()
        for callee in cs:
            try:
                f = prog.lookup(callee)
            except Exception:
                f = None
            if f is not None:
                out.add(f.name)
        resolved[name] = out
    roots = set()
    for e in ENTRY:
        try:
            f = prog.lookup(e)
        except Exception:
            f = None
        if f is not None:
            roots.add(f.name)
    # Display / TokenFmt impls of replies are reached through trait objects: add them as roots
    for name in fns:
        if re.search(r'(as TokenFmt|as std::fmt::Display|as fmt::Display)', name) or 'to_tokens' in name or '::fmt' in name.split('>')[-1]:
            roots.add(name)
    seen, todo = set(), list(roots)
    while todo:
        n = todo.pop()
        if n in seen:
            continue
        seen.add(n)
        todo.extend(resolved.get(n, ()))
    enc = set()
    for pid in ('C01', 'C02', 'C03', 'C04', 'C05', 'C06', 'C07', 'C09', 'C10', 'C14', 'C15', 'C16'):
        p = '/verif/evidence/%s.json' % pid
        if os.path.exists(p):
            enc |= set(json.load(open(p))['coverage'].get('functions_encoded', []))
    with_sites = sorted(n for n in seen if sites.get(n))
    missing = [n for n in with_sites if n not in enc]
    print('functions reachable from the query entry points: %d; with a panic site: %d; entered by some harness: %d; not entered: %d' % (
        len(seen), len(with_sites), len(with_sites) - len(missing), len(missing)))
    for n in missing:
        print('  NOT ENTERED %s  (%d sites) e.g. %s' % (n[:110], len(sites[n]), '; '.join(sorted(set(sites[n]))[:3])[:160]))
    return 0


if __name__ == '__main__':
    sys.exit(main())
