#!/bin/bash
# convenience: every claimed check in the thorough tier, one line each (exit code and time)
cd "$(dirname "$0")"
for p in C01 C02 C03 C04 C05 C06 C07 C09 C10 C14 C15 C16 C19; do
  s=$(date +%s); ./check $p --tier thorough > /tmp/thorough_$p.log 2>&1; rc=$?
  echo "$p exit=$rc $(( $(date +%s)-s ))s :: $(tail -n1 /tmp/thorough_$p.log | cut -c1-220)"
  grep -E "^INCONCLUSIVE|^VIOLATION" /tmp/thorough_$p.log | head -5 | cut -c1-300
done
